#!/bin/bash
# usage: tools/seed_run.sh <seeddir> <prop> [tier] — apply the seeded patch to /repo, run the check, undo.
set -u
D="$1"; PROP="$2"; TIER="${3:-quick}"
cd /repo || exit 9
if ! git diff --quiet; then echo "repo dirty"; exit 9; fi
git apply "$D/patch.diff" || { echo "patch does not apply"; exit 9; }
cp -f /verif/evidence/$PROP.json /tmp/evid.$$.bak 2>/dev/null; cd /verif && ./vcheck run "$PROP" --tier "$TIER" > /tmp/seedrun.$$ 2>&1; rc=$?
grep -v "^  " /tmp/seedrun.$$ | head -8; grep "^  sig" /tmp/seedrun.$$ | head -5; rm -f /tmp/seedrun.$$
git -C /repo checkout -- .; if [ -f /tmp/evid.$$.bak ]; then mv -f /tmp/evid.$$.bak /verif/evidence/$PROP.json; else rm -f /verif/evidence/$PROP.json; fi
echo "seed_run rc=$rc"
exit $rc
