#!/usr/bin/env python3
"""usage: seed_keep.py <srcdir> <seed-name> <caught-by-json>  — store a confirmed seeded change under /verif/seeded/<name>/"""
import json, os, shutil, sys, subprocess
src, name, caught = sys.argv[1], sys.argv[2], json.loads(sys.argv[3])
dst = f"/verif/seeded/{name}"
os.makedirs(dst, exist_ok=True)
shutil.copy(f"{src}/patch.diff", f"{dst}/patch.diff")
shutil.copy(f"{src}/zz_seed_demo_test.go", f"{dst}/zz_seed_demo_test.go")
m = json.load(open(f"{src}/meta.json"))
m["origin"] = "independent sub-agent given only the property text and a scratch worktree"
m["base_commit"] = subprocess.check_output(["git", "-C", "/repo", "rev-parse", "--short", "HEAD"], text=True).strip()
m["confirmed_by"] = "tools/seed_verify.sh: demo passes without the change, fails with it, module builds, full existing suite passes with it (scratch worktree, removed afterwards)"
m["checks_run"] = caught
json.dump(m, open(f"{dst}/meta.json", "w"), indent=1)
print("kept", dst)
