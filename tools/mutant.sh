#!/bin/bash
# usage: tools/mutant.sh <patchfile|-e 'python-expr'> <prop> [tier]   — apply patch to /repo, run check, revert.
set -u
PATCH="$1"; PROP="$2"; TIER="${3:-quick}"
cd /repo || exit 9
if ! git diff --quiet; then echo "repo dirty"; exit 9; fi
if ! git apply "$PATCH"; then echo "patch does not apply"; exit 9; fi
export GOFLAGS=-mod=mod GOPROXY=off
go build ./... || { echo "MUTANT DOES NOT COMPILE"; git checkout -- .; exit 9; }
cp -f /verif/evidence/$PROP.json /tmp/evid.$$.bak 2>/dev/null; cd /verif && ./vcheck run "$PROP" --tier "$TIER" | grep -v "^  " | head -12
rc=${PIPESTATUS[0]}
git -C /repo checkout -- .; if [ -f /tmp/evid.$$.bak ]; then mv -f /tmp/evid.$$.bak /verif/evidence/$PROP.json; else rm -f /verif/evidence/$PROP.json; fi
echo "mutant rc=$rc"
