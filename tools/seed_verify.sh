#!/bin/bash
# usage: tools/seed_verify.sh <srcdir> — confirm a seeded change independently in a scratch worktree:
# demo passes without the change, fails with it, module builds, the full existing suite passes with it.
set -u
SRC="$1"
export GOFLAGS=-mod=mod GOPROXY=off
WT=/tmp/wt/verify-$$
git -C /repo worktree add -q --detach "$WT" HEAD || exit 9
trap 'git -C /repo worktree remove --force "$WT" >/dev/null 2>&1' EXIT
DEMODIR=$(python3 -c "import json;print(json.load(open('$SRC/meta.json')).get('demo_dir','.'))")
cp "$SRC/zz_seed_demo_test.go" "$WT/$DEMODIR/zz_seed_demo_test.go"
cd "$WT"
PKG="./$DEMODIR"
echo "--- demo WITHOUT change (must pass)"
go test -vet=off -count=1 -run 'TestSeedDemo' "$PKG" >/tmp/sv.$$.1 2>&1; r1=$?
tail -3 /tmp/sv.$$.1
echo "--- apply + build"
git apply "$SRC/patch.diff" || { echo "PATCH DOES NOT APPLY"; exit 3; }
go build ./... || { echo "DOES NOT BUILD"; exit 3; }
echo "--- demo WITH change (must fail)"
go test -vet=off -count=1 -run 'TestSeedDemo' "$PKG" >/tmp/sv.$$.2 2>&1; r2=$?
tail -5 /tmp/sv.$$.2
rm "$WT/$DEMODIR/zz_seed_demo_test.go"
echo "--- full suite WITH change (must pass)"
go test -vet=off -count=1 -timeout 25m ./... >/tmp/sv.$$.3 2>&1; r3=$?
grep -v "^ok" /tmp/sv.$$.3 | tail -5
rm -f /tmp/sv.$$.*
echo "RESULT demo_without=$r1 demo_with=$r2 suite_with=$r3"
if [ $r1 -eq 0 ] && [ $r2 -ne 0 ] && [ $r3 -eq 0 ]; then echo "SEED-CONFIRMED"; exit 0; else echo "SEED-REJECTED"; exit 1; fi
