#!/bin/bash
# usage: tools/seed_sweep.sh [tier] [name-glob] [property-override] — run every kept seeded change (and every mutant) against its
# property's check, in a scratch worktree of /repo (HEAD) and a scratch copy of /verif, so that /repo, the
# committed evidence and concurrently running checks are left alone.  Prints one line per seed.
set -u
TIER="${1:-quick}"; GLOB="${2:-*}"; PROPOVR="${3:-}"
WT=/tmp/wt/sweep-$$; VS=/tmp/vsweep-$$
git -C /repo worktree add -q --detach "$WT" HEAD || exit 9
mkdir -p "$VS" && rsync -a --exclude .git --exclude .work --exclude replay /verif/ "$VS"/
trap 'git -C /repo worktree remove --force "$WT" >/dev/null 2>&1; rm -rf "$VS"' EXIT
LIST="/verif/seeded/$GLOB/ /verif/mutants/$GLOB.diff"
case "$GLOB" in /*) LIST="$GLOB/";; esac   # an absolute path: a seed directory that is not kept (yet)
for d in $LIST; do
  [ -e "$d" ] || continue
  if [ -d "$d" ]; then patch="$d/patch.diff"; name=$(basename "$d"); else patch="$d"; name="mutant:$(basename "$d" .diff)"; fi
  prop=$(basename "$d" | cut -c1-3); [ -n "$PROPOVR" ] && prop="$PROPOVR"
  if ! git -C "$WT" apply "$patch" 2>/dev/null; then echo "$name | $prop | PATCH-DOES-NOT-APPLY (the fixed tree changed these lines)"; continue; fi
  out=$(cd "$VS" && VERIF_REPO="$WT" ./vcheck run "$prop" --tier "$TIER" 2>&1); rc=$?
  sigs=$(echo "$out" | grep "^  sig" | head -3 | sed 's/^  sig=//' | tr '\n' ';')
  echo "$name | $prop | rc=$rc | $sigs"
  if [ "$rc" = 2 ]; then echo "$out" | grep -A12 "^HARNESS-ERROR" | cut -c1-300 | sed 's/^/    /'; echo "$out" | tail -2 | cut -c1-300 | sed 's/^/    /'; fi
  git -C "$WT" checkout -q -- . ; git -C "$WT" clean -qfd
done
