#!/usr/bin/env python3
"""Print a markdown table of what the committed evidence files say was covered (one row per property)."""
import json, glob, os
rows = []
for f in sorted(glob.glob(os.path.join(os.path.dirname(__file__), "..", "evidence", "C*.json"))):
    e = json.load(open(f))
    c = e["coverage"]
    subs = c.get("sub_checks") or {}
    rows.append((os.path.basename(f)[:-5], e.get("tier", "?"), len(subs), c.get("evaluations"), c.get("distinct_nontrivial"),
                 c.get("states") or 0, c.get("transitions") or 0, c.get("schedules") or 0, c.get("distinct_outcomes"),
                 c.get("exhaustive"), round(sum(s.get("wall_s", 0) for s in subs.values()), 1)))
print("| id | tier | sub-checks | evaluations | distinct non-trivial | states | transitions | schedules | outcome classes | exhaustive | CPU-seconds (sum over shards) |")
print("|----|------|-----------|-------------|----------------------|--------|-------------|-----------|-----------------|------------|------|")
for r in rows:
    print("| " + " | ".join(str(x) for x in r) + " |")
