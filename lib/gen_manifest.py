#!/usr/bin/env python3
"""Regenerates MANIFEST.json from lib/checks.py + lib/manifest_meta.py and validates it."""
import json, os, sys
VERIF = os.path.dirname(os.path.dirname(os.path.abspath(__file__)))
sys.path.insert(0, os.path.join(VERIF, "lib"))
from checks import CHECKS
from manifest_meta import META, NOT_BUILT_REASON, ENGINES

props = [json.loads(l)["id"] for l in open(os.path.join(VERIF, "properties.jsonl")) if l.strip()]
checks, na = [], []
for p in props:
    if p in CHECKS and p in META:
        m = META[p]
        checks.append({
            "property_id": p,
            "quick_cmd": f"./vcheck run {p} --tier quick",
            "thorough_cmd": f"./vcheck run {p} --tier thorough",
            "evidence_file": f"/verif/evidence/{p}.json",
            "replay_cmd_template": "cat {path}  # replay record: sub-check, case description, seed; re-run: VERIF_SEED=<seed> ./vcheck run " + p + " --tier <tier>",
            "engine": m["engine"],
            "level_claimed": {"category": CHECKS[p]["level"], "text": m["text"], "design_ref": m.get("design_ref", "DESIGN.md §4 " + p)},
            "level_note": m["note"],
            "technique": m["technique"],
        })
    else:
        na.append({"property_id": p, "reason": NOT_BUILT_REASON.get(p, "check not built yet in this session; see DESIGN.md §4 for the planned bounded exploration")})
man = {
    "version": 1,
    "setup_cmd": "./vcheck setup",
    "hooks": {
        "guard": "verif",
        "enable": "go test -tags verif -overlay <generated at check time by ./vcheck: harness files, engine packages under internal/verif, and AST-instrumented copies of the current /repo sources>; nothing is committed in /repo",
        "baseline_off_cmd": "cd /repo && GOFLAGS=-mod=mod GOPROXY=off go test -json -vet=off -count=1 -timeout 25m ./...",
        "source_commits": [],
        "add_only": True,
    },
    "engines": ENGINES,
    "checks": checks,
    "not_applicable": na,
    "notes": "All deciding steps are bounded exhaustive enumeration on the real code (see DESIGN.md). Known genuine defects: known_findings.jsonl.",
}
json.dump(man, open(os.path.join(VERIF, "MANIFEST.json"), "w"), indent=1)
try:
    import jsonschema
    jsonschema.validate(man, json.load(open("/root/.vp/MANIFEST.schema.json")))
    print("MANIFEST.json valid;", len(checks), "checks,", len(na), "not claimed")
except ImportError:
    print("jsonschema not importable; wrote MANIFEST.json unvalidated")
