ENGINES = [
    {"name": "vkit (E4)", "path": "/verif/harness/revocation", "serves_properties": ["C09", "C10", "C11"], "kind_free_text": "explicit-state search where a state is the operation history reaching it; successors replay the history on fresh real objects plus one operation; a boring Go reference model is stepped alongside"},
    {"name": "vsched (E1) + vinstr", "path": "/verif/engine/vsched", "serves_properties": ["C07", "C16", "C20"], "kind_free_text": "controlled cooperative scheduler over real goroutines with enabledness computed from channel/lock state, stateless DFS with iterative preemption bounding, replay with divergence detection; /verif/cmd/vinstr rewrites the current /repo sources (AST) to insert the scheduling points"},
    {"name": "venv (E3)", "path": "/verif/engine/venv", "serves_properties": ["C01"], "kind_free_text": "scripted crypto/rand.Reader + seeded CPRNG: every random draw is a choice point; executions with 0,1,2 deviations (min/max/short/error) are enumerated"},
    {"name": "vkit (E2)", "path": "/verif/engine/vkit", "serves_properties": ["C01", "C02", "C03", "C04", "C05", "C15", "C19"], "kind_free_text": "bounded exhaustive enumeration of inputs/alterations with stable case indices, sharding and measured coverage"},
]
NOT_BUILT_REASON = {}
META = {
    "C17": {
        "engine": "vkit (E2)",
        "technique": "exhaustive per-iteration and per-leaf alteration enumeration of the decomposed proof tree; exhaustive search over Z_N for a best-effort cheating prover on toy bad moduli; a few full verifications at the top level",
        "text": "Gennaro-style components: honest accept; for EVERY iteration index a proof valid everywhere but there is rejected (8 + 80 + 8 + 2x250 cases); wrong challenge / index; seven bad toy moduli (p^2 q, pqr, pq^3, gcd(N,phi)>1, prime, p^2) x challenges x {square-free, prime-power, disjoint}: the cheating prover's per-iteration answers come from exhaustive search over Z_N with an independently written relation and the verifier's verdict must equal 'every iteration answerable'; the almost-safe-prime relation is compared with an independent re-implementation. Zero-knowledge building blocks (pedersen, addition, multiplication, exp with both OR branches, prime, is-square) on a 40-bit group: every exported big-integer leaf x {+1, -1, =0, =nil, =next leaf} must fail the structure check or change the reconstructed commitments. Top level: toy key, honest, JSON round trip, modulus N+8, altered base list (thorough: reordered/shortened list, foreign proof, every top-level field transplanted). Structure reuse at top level (a second honest proof with its own group prime on a structure that built / verified another). Fiat-Shamir forgery handles on every component: every assignment of {keep, 0, P, 2P} to the field groups of the proof and of the proofs it takes its bases from, verified under three challenges (challenge-independent accepted transcript without zero entry = forgeable). Whole-proof forgery: N = (2r^3+1)*q with honest Gennaro subproofs (square roots modulo r^3 q'), an unrelated prime committed as p' and the commitment to p replaced by 0, P, 2P, 1, P-1; control run with two safe primes must be accepted, every forgery rejected. Leaves inside maps (RangeProof.Results) are part of the leaf menu.",
        "note": "Statistical soundness itself (2^-80) is out of reach; toy sizes stand for real ones at component level; the top level uses 48-bit primes (a full verification costs seconds).",
    },
    "C18": {
        "engine": "vkit (E2)",
        "technique": "exhaustive enumeration of integer byte shapes x encodings, message types x optional parts x encodings, key documents x single-element mutations x readers, prior file states x umasks x overwrite flag",
        "text": "Integers: byte lengths 0..40 and 127..257 in seven bit patterns (and their negatives) through JSON base64/decimal, XML, binary, CBOR. Messages: every proof-list shape, issuance messages, credential, revocation update/witness/signed accumulator (0..3 events, JSON and CBOR), keyshare messages: re-encoding byte-identical and the re-read object verifies as before. Keys: 0..20 bases x revocation parts through five readers; every leaf element of a public and a private key document deleted / emptied / negated / garbled, count mismatches, unsupported modulus lengths, inconsistent and non-safe primes: error, never a key, never a panic. Files: seven prior states x three umasks x overwrite flag: a file holding the private key has mode & 077 == 0.",
        "note": "Runs as root (mode bits observed, not permission enforcement). Crash points: every prefix of the strace-logged system-call history of the real WriteToFile is replayed on a file model (skipped with a cap if strace cannot trace).",
    },
    "C08": {
        "engine": "vkit (E2)",
        "technique": "exhaustive structural mutation of every node of seed proof-list JSON documents (fault enumeration on the decoder/verifier boundary)",
        "text": "Eight seed documents (ProofD plain / non-revocation / range proofs with 3 and 4 squares on one and two attributes, ProofU plain / random-blind, mixed lists) x every JSON node x the menu (delete, null, empty string, AQ==, 0, {}, [], negative, duplicate key, re-keying of integer keys to -1 / 0 / len(R) / 2^31 / overflow / non-numeric / colliding, sibling swaps, array truncation at every length, extension, swaps, unknown keys, moving and copying optional sub-proofs between proofs); thorough adds all pairs of structural mutations. Each decodable mutant is verified through ProofList.Verify (three call shapes), ProofD.Verify and ProofU.Verify under recover: no panic, and acceptance only if the decoded list equals the seed by value. Every object entry is re-keyed (not only integer-like keys); keys without revocation part; secret-0 seed documents; a second call on the same decoded objects.",
        "note": "Byte-level coverage-guided fuzzing is sampling and is not used. Public keys are well-formed (as the property assumes).",
    },
    "C14": {
        "engine": "vkit (E2)",
        "technique": "exhaustive enumeration of builder lists x key tuples x participating subsets for the honest exchange; exhaustive alteration of the second message relative to the first",
        "text": "Honest: every list of 1..3 (thorough 4) disclosure/issuance builders plus lists with non-revocation, range and random-blind members, every key tuple over two 1024-bit and one 2048-bit key (both orders of mixed sizes), every non-empty participating subset, both session kinds: same challenge on both sides, merged list verifies with labels for secret = user + server share. Deviations: every leaf of every UserChallengeInput (+1, =0, nil, swapped), key id toggled / unknown / swapped, other commitments altered / dropped / extended, elements reordered / dropped / duplicated / added, every byte and length of the committed hash: error and no response, never a panic. All fixture keys carry one issuer name and differ in their counter, so that anything keyed by issuer name alone confuses them.",
        "note": "Toy parameter sets are not usable here (NewKeyshareCommitments assumes 1024-bit or >=2048-bit parameter sets); 4096-bit keys not covered.",
    },
    "C06": {
        "engine": "vkit (E2)",
        "technique": "exhaustive enumeration of issuance configurations (every blind subset) for honest runs; exhaustive single-leaf alteration / cross-run substitution of both protocol messages",
        "text": "Honest part: attribute counts up to the number of bases, every subset of random-blind indices, keyshare on/off, witness on/off, toy and 1024-bit keys through the real NewCredentialBuilder / CommitToSecretAndProve / ProofList.Verify / IssueSignature / ConstructCredential: credential produced, signature verifies over exactly (secret, attributes), blind attribute = sum of shares, credential can be shown. Deviation part: every leaf of IssueCommitmentMessage and IssueSignatureMessage with {+1, =0, parallel-run value, other-key value, deleted}, nonce/context altered or replayed: no credential may result and no party may panic. Cooperating pairs of alterations across the two messages (U*X with KeyshareP=X) with the oracle that the credential carries no foreign keyshare contribution.",
        "note": "With a keyshare contribution the issuer-side commitment proof check is C14's. 2048-bit keys not used here (cost of prime search per issuance).",
    },
    "C13": {
        "engine": "vkit (E2) + venv (E3)",
        "technique": "exhaustive enumeration of (splitter, sign, factor, difference) statements around the boundary and at 2^k differences, every three-square table entry, combinations; environment-answer deviations",
        "text": "For differences -3..40 (thorough 300) and 2^k, 2^k+-1 up to 2^255, both signs, factors 1..8 with four squares; factor 1 with GenerateSquaresTable(16|64) and every table entry; 2-3 statements on one and two attributes; each random draw of an honest range proof forced to min/max/short: true statement => proof is created, verifies and Proves(statement); false => refused. Query sequences: three proofs from one reused Statement object whose bound the caller moves in place; earlier proofs must keep verifying and reporting their bound and the library must not change the caller's statement.",
        "note": "One known finding (K01: three-square <= at equality). Key size toy only (completeness of the range part does not depend on the modulus size); 'random differences' of the quantifier replaced by boundary families.",
    },
    "C12": {
        "engine": "vkit (E2), model bound to the real proof structure",
        "technique": "exhaustive enumeration of proof descriptors x queried statements x attribute values on an integer box against integer semantics; exhaustive alteration/transplant enumeration of real range proofs with a semantic oracle",
        "text": "Pure part: for every descriptor of a finite box (signs, factors incl. 2^62..2^64-1, bounds incl. the size limits, 3/4 squares, l_d) accepted by ExtractStructure, the relation verification actually checks is read from the real structure's exponents; for every m in [0,12] satisfying it, ProvenStatement and every ProvesStatement==true must hold over the integers. Crypto part: honest proofs with 3- and 4-square statements, false statements at the boundary, every single-field alteration, every transplant (other hidden index, disclosed index below/above the largest hidden one, unused base, len(R), 1000, -1, other credential; moved, copied, bogus added): accepted => every carried range proof is on a hidden existing index and reports a statement true of the signed value. Forgeries: range proofs with degenerate commitments (all C_i in {0,1,N-1,N}) for false statements with an adaptively computed challenge; consistent lies (a well-formed range proof about another value carrying its own response, with the attribute's or a fresh randomiser); three verification routes (wire copy, wire copy in a list, Go objects handed over directly); queried factors include the values whose fourfold wraps around to the proof's factor.",
        "note": "Soundness of the sum-of-squares argument itself rests on strong RSA (not decidable here). Attribute box [0,12]; crypto layer on one credential shape per key.",
    },
    "C07": {
        "engine": "vkit (E4) + vsched (E1)",
        "technique": "explicit-state search over proof-producing operation histories with an all-pairs randomiser-reuse oracle; preemption-bounded schedule exploration of the shared-credential harnesses",
        "text": "Sequentially: every sequence of <=4 (thorough 6) operations from {prepare cache, update witness, prove with/without non-revocation, proof list over two credentials, issuance commitment} is replayed on fresh real objects; all proofs are kept and every pair is judged (implied randomisers of every hidden attribute, the secret key and the exponent distinct; A, C_r, C_u, U never repeat). Concurrently: 2-3 threads on one credential, every interleaving of cache selects / lock / lazy-init accesses up to 2 (3) preemptions, and 2-thread harnesses with the CPRNG reservation step instrumented as well; same oracle over the proofs of each execution.",
        "note": "The '2..32 goroutines' of the quantifier are replaced by 2-3 threads with full interleaving coverage to the bound. v' randomisers are judged through U/A distinctness only.",
    },
    "C11": {
        "engine": "vkit (E4 + E2) + venv (E3)",
        "technique": "explicit-state search over credential/issuer operation histories against an accumulator-history model; exhaustive alteration/transplant enumeration of the non-revocation part; environment-answer deviations of every random draw",
        "text": "Every sequence of <=4 (thorough 6) operations from {prepare cache, revoke other, revoke self, update witness, refresh time, prove+verify} is replayed on a fresh issuer world and credential and compared with the model: honest proofs from a valid witness verify (16 verifications each) and report exactly the index, time and Nu of the accumulator they were made against, also after a prepared commitment was refreshed. Every single-leaf alteration and transplant of the non-revocation part and proofs from doctored witnesses must be rejected. Every random draw of an honest proof is forced to min/max/short. Adaptive forgeries: a holder without a witness attaches a non-revocation part with degenerate commitments (0, 1, N-1, N) and computes the challenge over what the verifier reconstructs; oracle: not accepted.",
        "note": "Map-iteration-order dependent verdicts are sampled 16x per proof (the only residual probability in the framework). 2048-bit keys only in the environment part (thorough).",
    },
    "C10": {
        "engine": "vkit (E2)",
        "technique": "exhaustive single (thorough: pairwise) corruption enumeration of update messages x transport x operation, judged by an independent chain/signature validator",
        "text": "Base updates with 0..9 events of an 8-revocation history are corrupted in every way of the menu (every event value/index, swaps, delete/duplicate/insert, every byte flip, every truncation length, extension, algorithm code and shorter well-formed digest of every parent hash, every byte of the signed blob, key counter, accumulator substituted by every other validly signed one or another key's), in memory and over JSON/CBOR, and fed to Update.Verify, Witness.Update, Update.Prepend (fresh and deserialised lists) and EventList.Verify; plus every ordered pair of EventList.Verify calls on one list object against all accumulators, and Hash.Equal over all prefixes/extensions/byte changes. Prepend routes (transported windows flattened with gaps, lists altered after verification), memoised verdicts, the same received object used twice.",
        "note": "Trusted: crypto/ecdsa, SHA-256, cbor decoding of the signed tuple in the validator. Triple corruptions are not explored.",
    },
    "C09": {
        "engine": "vkit (E4)",
        "technique": "explicit-state exploration of update-application histories on fresh real objects, stepped against an abstract (index, revokedAt) model",
        "text": "For every history length H<=3 (thorough 5), every witness configuration (issue index, revocation position, optional second witness), every sequence of <=3 (thorough 4) update applications over the alphabet of all contiguous event windows plus zero-event and same-index-newer-time updates, with shared and with fresh Update objects, each history is replayed on fresh real objects and every transition is compared with the model: result class, monotone index, validity at the reported index, revoked-stays-revoked, bitwise-unchanged on failure.",
        "note": "Toy 64-bit modulus, real ECDSA signatures. Histories beyond the bounds and 'random longer histories' of the quantifier are not explored (no sampling in this family).",
    },
    "C16": {
        "engine": "vsched (E1) + vinstr",
        "technique": "stateless preemption-bounded exploration of the real worker/consumer code under a controlled scheduler (select readiness as data choices), scripted prime streams",
        "text": "The stop protocol of key generation is explored on the real code: safeprime.GenerateConcurrent + generateSafePrimePair with 2 and 3 workers, six scripted prime streams chosen by residue class (refused p', same class, match; endless tail or failing random source), every interleaving of the instrumented channel operations up to the stated preemption bound. Verdicts: no panic, no deadlock, no thread alive at quiescence, returned pair satisfies the documented conditions.",
        "note": "Schedules beyond the preemption bound and unfair infinite schedules (cut by an explicit step horizon, counted) are not covered. 16-bit primes stand for the real sizes (the protocol does not depend on size).",
    },
    "C20": {
        "engine": "vsched (E1) + vinstr, separate -race pass",
        "technique": "stateless preemption-bounded schedule exploration of the real code (credential cache, CPRNG reservation) + free-running race-detector pass over the same bodies",
        "text": "One credential shared by 2-3 threads (prove with non-revocation, prepare cache, sequences of both; cold and warm cache) and the AES-CTR generator (2-3 threads, 1-2 reads of 1..200 bytes) are explored for every interleaving of their instrumented points (selects, lock, lazy-init field accesses, atomic reservation) up to 2 (thorough 3) preemptions; every proof must verify, no C_r/C_u/A or implied randomiser repeats, keystream intervals are disjoint, gap-free and respect real-time order. The race detector runs the same bodies free (2..64 goroutines). The cached-commitment harnesses also start from a stale warm cache (accumulator moved on, witness updated after the cache was filled), explored and in the race pass; oracle extended by 'the proof is against the witness's accumulator'. The exp proof's worker pool (atomic work counter + WaitGroup, 3 workers by CPU affinity) is explored exhaustively to the preemption bound for both the commitment and the reconstruction phase; CL signature bodies, key-proof construction and key generation run in the free-running race pass.",
        "note": "The -race pass is a detector over observed executions, not exhaustive. Key generation's concurrency is explored under C16 (shared harness). keyproof's worker pool is covered by the race pass only.",
    },
    "C04": {
        "engine": "vkit (E2)",
        "technique": "exhaustive enumeration of all 2^k disclosure subsets x value rotations x session kinds, with exact key-set, value and leaf-scan oracles",
        "text": "For k=1..4 (thorough 6) attributes, six rotations of the boundary value alphabet over positions, every subset, both session kinds, plain and non-revocation credentials on toy/1024/2048-bit keys, through both proving paths: the proof must verify, report exactly the chosen indices with true values, answer every other index, give an exact timestamp contribution, and contain no hidden value or its hash exponent as JSON leaf or substring. Timestamp contributions are read between challenge and proof; the credential is compared before/after a session and used for a second session.",
        "note": "Trusted: harness trapdoor signer. Statistical hiding of responses is not decidable here; keyshare / random-blind variants are exercised by C14 / C06.",
    },
    "C05": {
        "engine": "vkit (E2)",
        "technique": "exhaustive enumeration of message-block shapes, a boundary catalogue of trapdoor-forged exponents and single-component alterations against a reference CL predicate",
        "text": "Real SignMessageBlock over every block length 1..len(R) with boundary-sized entries, 1..4 randomisations; forged signatures satisfying the equation for every exponent of a ~35-entry catalogue (neighbouring primes on both sides of both interval ends, even/odd ends, primes one bit short/long, in-range semiprimes, small primes) with and without KeyshareP; every component altered. Verify must equal the reference predicate.",
        "note": "Trusted: math/big primality. Exponents outside the catalogue are not explored.",
    },
    "C02": {
        "engine": "vkit (E2)",
        "technique": "exhaustive neighbour enumeration around honest (session, proof list) pairs: accepted iff unchanged",
        "text": "For every composition of 1..4 builders of all five kinds over one or two keys and both session kinds, the honest list is verified against every neighbour session tuple (bit flips of context/nonce, +-1, 0, negation, swaps, flag, key permutations/substitutions/drops) and every list transformation (permutation, sub-list, duplication, splice with another session's proofs, empty list); single proofs also through ProofD.Verify/ProofU.Verify. Every neighbour is also verified on decoded objects that have been verified before (object reuse, caches filled), under substituted keys as well.",
        "note": "Trusted: SHA-256 collision resistance. Quick uses a bit stride of 4 (toy) / 32 (1024-bit); thorough flips every bit on toy keys.",
    },
    "C03": {
        "engine": "vkit (E2)",
        "technique": "exhaustive enumeration of builder lists x secret assignments x label partitions x adversarial equalisers against a one-secret-per-label reference model",
        "text": "All lists of 2..4 builders, all assignments of three secrets (two of them differing by 1), all labellings (nil and every set partition) are built honestly with the shared randomiser and verified; every equaliser of the menu (overwritten response, difference carried in m_user_responses[0], attribute 0 disclosed or split) is applied to every non-first member. Acceptance with two secrets in one label class is a violation. Non-initial states: verify, overwrite a response in place, verify again on the same objects.",
        "note": "Adversary class: holders pooling all secrets but not knowing ord(QR_n). Soundness only; honest completeness is reported as vacuity here and owned by C02/C04/C14.",
    },
    "C19": {
        "engine": "vkit (E2)",
        "technique": "exhaustive enumeration of small operand domains against brute-force references; scripted-reader enumeration of every candidate byte string for the prime generators",
        "text": "ModInverse (n<2^9), ModPow (x,m<64,|y|<=8), Legendre vs Jacobi (odd p<2^11/2^12, a in [-p,2p]), Crt (coprime pa,pb<64), PrimeSqrt (primes<2^11/2^12), ModSqrt (<=3 factors from {4, small primes}), SumFourSquares (all n<2^16/2^20 + 2^k families), FastMod (all p<2^8/2^9 with x in [-4p^2,4p^2], aliased and not; all p<2^12 near the boundaries; convenient-prime moduli), RandomPrimeInRange and safeprime.Generate (every candidate byte string), ProbablySafePrime (x<2^16/2^18), Group.Exp (all exponents of all toy safe-prime groups) are enumerated completely. FastMod: one object re-Set along every sequence of 2 moduli below 2^6 and 3 moduli below 2^4 and along sequences mixing production-sized 2^b-c with general moduli, checked after every Set. A liveness horizon (no evaluation completed for 300 s) reports non-termination of the code under test as a violation.",
        "note": "Trusted: math/big, int64 brute force. Large random operands and the Python cross-reference named in the quantifier are replaced by structured families; 4096-bit operands appear only in those families.",
    },
    "C01": {
        "engine": "vkit (E2) + venv (E3)",
        "technique": "exhaustive alteration enumeration of honest proofs (fault enumeration) + environment-answer deviations, judged by a semantic oracle and an independent reference verifier",
        "text": "For every credential shape (1..4/6 attributes, boundary-sized and hashed values) and every disclosure subset the honest proof is built by the real builder (also with each random draw forced to 0 / max / short), then every alteration of a fixed menu (leaf arithmetic, sibling swaps, key move/copy/delete/re-key, split of each hidden attribute into disclosed x + remainder, compensated pairs, k*ord shifts of each response across both range ends) is verified through ProofD.Verify and ProofList.Verify on toy, 1024- and 2048-bit keys. Credentials with a non-revocation witness are included in every shape (the non-revocation branch of the verifier has its own checks).",
        "note": "Trusted: harness trapdoor signer, reference verifier (written from the protocol description), math/big. Not reached: adversaries breaking strong RSA, three-field alterations, values outside the alphabet.",
    },
    "C15": {
        "engine": "vkit (E2)",
        "technique": "bounded exhaustive input enumeration vs. independent reference model (hand-written DER + SHA-256)",
        "text": "Every list over a DER-boundary integer alphabet (length<=3), every list length 0..300, every content size 0..700 and 65530..65540 bytes, both markers, and the whole (a,b,index,bitlen) box of the expansion are enumerated and compared with an independent reference; perturbation enumeration shows marker/count/order/integer changes always change the digest. Attribute-hash rule at its four use sites (signer RepresentToBases, CLSignature.Verify, prover for hidden and verifier for disclosed attributes) against one reference on credentials minted with the reference representation, at every boundary size around l_m and every position.",
        "note": "Trusted: Go's crypto/sha256, the harness' own DER encoder (the specification), math/big. Integers outside the alphabet (beyond 65540 content bytes) are not explored.",
    },
}
