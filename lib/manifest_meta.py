ENGINES = [
    {"name": "vkit (E2)", "path": "/verif/engine/vkit", "serves_properties": ["C15"], "kind_free_text": "bounded exhaustive enumeration of inputs/alterations with stable case indices, sharding and measured coverage"},
]
NOT_BUILT_REASON = {}
META = {
    "C15": {
        "engine": "vkit (E2)",
        "technique": "bounded exhaustive input enumeration vs. independent reference model (hand-written DER + SHA-256)",
        "text": "Every list over a DER-boundary integer alphabet (length<=3), every list length 0..300, every content size 0..700 and 65530..65540 bytes, both markers, and the whole (a,b,index,bitlen) box of the expansion are enumerated and compared with an independent reference; perturbation enumeration shows marker/count/order/integer changes always change the digest.",
        "note": "Trusted: Go's crypto/sha256, the harness' own DER encoder (the specification), math/big. Integers outside the alphabet (beyond 65540 content bytes) are not explored.",
    },
}
