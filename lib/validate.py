import json, sys, glob, jsonschema
jsonschema.validate(json.load(open("/verif/MANIFEST.json")), json.load(open("/root/.vp/MANIFEST.schema.json")))
print("manifest ok")
es = json.load(open("/root/.vp/EVIDENCE.schema.json"))
for f in sorted(glob.glob("/verif/evidence/*.json")):
    try:
        jsonschema.validate(json.load(open(f)), es); print("ok", f)
    except Exception as e:
        print("INVALID", f, str(e)[:300])
