# Registry of checks: property -> units (a unit = one overlay-built test binary + a -test.run regex).
# pkg is the directory under /verif/harness (== package directory under /repo; "root" = module root).

def unit(name, pkg, files, run, shards=1, **kw):
    u = {"name": name, "pkg": pkg, "files": files, "run": run, "shards": shards}
    u.update(kw)
    return u


CHECKS = {
    "C15": {
        "level": "model_checking",
        "units": [
            unit("c15-common", "internal/common", ["zz_verif_c15_test.go"], "^TestVerifC15",
                 shards={"quick": 4, "thorough": 16}),
            unit("c15-root", "root", ["zz_verif_c15_test.go"], "^TestVerifC15", shards={"quick": 4, "thorough": 8}),
            unit("c20-race-helpers", "internal/common", ["zz_verif_c20_helpers_test.go"], "^TestVerifC20RaceHelpers$", race=True, env={"VERIF_RACE": "1"}),
        ],
        "assumptions": [
            "SHA-256 from the Go standard library is correct (used by implementation and reference alike)",
            "reference DER encoder in the harness (hand-written, no encoding/asn1) is the specification",
        ],
    },
    "C01": {
        "level": "fault_enumeration",
        "units": [
            unit("c01-root", "root", ["zz_verif_c01_test.go"], "^TestVerifC01",
                 shards={"quick": 8, "thorough": 16}),
        ],
        "assumptions": [
            "credentials are minted by the harness with the issuer trapdoor (so the signed values are known); signing itself is C05/C06",
            "strong-RSA-breaking adversaries and alterations of three or more independent fields are out of reach of enumeration",
        ],
    },
    "C19": {
        "level": "model_checking",
        "units": [
            unit("c19-common", "internal/common", ["zz_verif_c19_test.go", "zz_verif_c19_alias_test.go"], "^TestVerifC19", shards={"quick": 8, "thorough": 16}),
            unit("c19-safeprime", "safeprime", ["zz_verif_c19_test.go"], "^TestVerifC19", shards={"quick": 3, "thorough": 8}),
            unit("c19-zkproof", "zkproof", ["zz_verif_c19_test.go"], "^TestVerifC19", shards={"quick": 2, "thorough": 8}),
        ],
        "assumptions": ["math/big arithmetic and trial division are the reference", "large operands are covered by structured families only (2^k, 2^k+-c, convenient-prime moduli)"],
    },
    "C02": {
        "level": "exploration",
        "units": [unit("c02-root", "root", ["zz_verif_c02_test.go"], "^TestVerifC02", shards={"quick": 12, "thorough": 16})],
        "assumptions": ["SHA-256 collision resistance is not explored; neighbours are the enumerated menu (bit flips with the stated stride, permutations, sub-lists, splices)"],
    },
    "C03": {
        "level": "exploration",
        "units": [unit("c03-root", "root", ["zz_verif_c03_test.go"], "^TestVerifC03", shards={"quick": 12, "thorough": 16})],
        "assumptions": ["holders do not know ord(QR_n); equalisers that need it are not part of the adversary class"],
    },
    "C04": {
        "level": "exploration",
        "units": [unit("c04-root", "root", ["zz_verif_c04_test.go"], "^TestVerifC04", shards={"quick": 12, "thorough": 16}),
                  unit("c06-keysizes", "root", ["zz_verif_c06_test.go", "zz_verif_c11_test.go", "zz_verif_c06_keysizes_test.go"], "^TestVerifC06KeySizes$", shards={"quick": 12, "thorough": 12})],
        "assumptions": ["zero-knowledge of the responses themselves is not decidable by enumeration; what is decided is that no hidden value or its hash exponent occurs as a leaf or substring of what the holder sends"],
    },
    "C05": {
        "level": "exploration",
        "units": [unit("c05-root", "root", ["zz_verif_c05_test.go"], "^TestVerifC05", shards={"quick": 12, "thorough": 16}),
                  unit("c06-keysizes", "root", ["zz_verif_c06_test.go", "zz_verif_c11_test.go", "zz_verif_c06_keysizes_test.go"], "^TestVerifC06KeySizes$", shards={"quick": 12, "thorough": 12})],
        "assumptions": ["math/big ProbablyPrime (Baillie-PSW + Miller-Rabin) decides primality in the reference predicate"],
    },
    "C20": {
        "level": "model_checking",
        "units": [
            unit("c20-engine-selftest", "internal/verif/vsched", [], "^TestVerifEngine"),
            unit("c20-cred", "root", ["zz_verif_c20_test.go"], "^TestVerifC20Cred$", shards={"quick": 10, "thorough": 16},
                 instr=["credential.go"], instr_fields={"credential.go": ["nonrevCache"]}),
            unit("c20-cprng", "internal/common", ["zz_verif_c20_test.go"], "^TestVerifC20CPRNG$", shards={"quick": 8, "thorough": 16},
                 instr=["internal/common/fastrandom.go"]),
            unit("c20-race-gabi", "root", ["zz_verif_c20_test.go"], "^TestVerifC20RaceBodies$", race=True, env={"VERIF_RACE": "1"}),
            unit("c20-race-cprng", "internal/common", ["zz_verif_c20_test.go"], "^TestVerifC20RaceCPRNG$", race=True, env={"VERIF_RACE": "1"}),
            unit("c20-race-helpers", "internal/common", ["zz_verif_c20_helpers_test.go"], "^TestVerifC20RaceHelpers$", race=True, env={"VERIF_RACE": "1"}),
            unit("c20-procs", "keyproof", ["zz_verif_c20_procs_test.go", "zz_verif_c17_test.go"], "^TestVerifC20Procs$"),
            unit("c20-exppool", "keyproof", ["zz_verif_c20_test.go", "zz_verif_c17_test.go"], "^TestVerifC20ExpPool$", shards={"quick": 12, "thorough": 16},
                 instr=["keyproof/exp.go"], cpus=3),
            unit("c20-stop-drain", "gabikeys", ["zz_verif_c16_stop_test.go"], "^TestVerifC16StopDrain$", shards={"quick": 4, "thorough": 8},
                 instr=["safeprime/safeprime.go", "gabikeys/keys.go"]),
            unit("c20-race-keyproof", "keyproof", ["zz_verif_c20_test.go", "zz_verif_c17_test.go"], "^TestVerifC20RaceKeyproof$", race=True, env={"VERIF_RACE": "1"}),
            unit("c20-race-keygen", "gabikeys", ["zz_verif_c20_test.go", "zz_verif_c16_gen_test.go", "zz_verif_c16_stop_test.go"], "^TestVerifC20RaceKeygen$", race=True, env={"VERIF_RACE": "1"}),
        ],
        "assumptions": ["Go's memory model: race-free programs are sequentially consistent; the scheduler explores sequentially consistent interleavings of the instrumented points only"],
    },
    "C16": {
        "level": "model_checking",
        "units": [
            unit("c16-stop", "gabikeys", ["zz_verif_c16_stop_test.go"], "^TestVerifC16Stop(Drain)?$", shards={"quick": 16, "thorough": 16},
                 instr=["safeprime/safeprime.go", "gabikeys/keys.go"]),
            unit("c16-gen", "gabikeys", ["zz_verif_c16_gen_test.go", "zz_verif_c16_stop_test.go"], "^TestVerifC16(Generator|Lengths)$", shards={"quick": 12, "thorough": 16}),
            unit("c16-procs", "gabikeys", ["zz_verif_c16_gen_test.go", "zz_verif_c16_stop_test.go"], "^TestVerifC16Procs$"),
            unit("c20-race-helpers", "internal/common", ["zz_verif_c20_helpers_test.go"], "^TestVerifC20RaceHelpers$", race=True, env={"VERIF_RACE": "1"}),
            unit("c16-filter", "gabikeys", ["zz_verif_c16_filter_test.go", "zz_verif_c16_gen_test.go", "zz_verif_c16_stop_test.go"], "^TestVerifC16Filter$", shards={"quick": 12, "thorough": 16}),
        ],
        "assumptions": [],
    },
    "C09": {
        "level": "model_checking",
        "units": [unit("c09-revocation", "revocation", ["zz_verif_c09_test.go"], "^TestVerifC09", shards={"quick": 16, "thorough": 16})],
        "assumptions": ["toy 64-bit modulus with real ECDSA accumulator signatures; the update arithmetic does not depend on the modulus size"],
    },
    "C10": {
        "level": "fault_enumeration",
        "units": [unit("c10-revocation", "revocation", ["zz_verif_c10_test.go"], "^TestVerifC10", shards={"quick": 16, "thorough": 16})],
        "assumptions": ["ECDSA P-256 and SHA-256 from the standard library are trusted by implementation and validator alike"],
    },
    "C11": {
        "level": "model_checking",
        "units": [unit("c11-root", "root", ["zz_verif_c11_test.go"], "^TestVerifC11", shards={"quick": 16, "thorough": 16})],
        "assumptions": ["verdicts that depend on Go's map iteration order are sampled 16 times per proof (residual miss probability of a defective tree < 2^-60, see DESIGN 4 C11)"],
    },
    "C07": {
        "level": "model_checking",
        "units": [
            unit("c07-revocation", "revocation", ["zz_verif_c07_test.go"], "^TestVerifC07RevocationCommits$", shards={"quick": 4, "thorough": 4}),
            unit("c20-race-helpers", "internal/common", ["zz_verif_c20_helpers_test.go"], "^TestVerifC20RaceHelpers$", race=True, env={"VERIF_RACE": "1"}),
            unit("c07-seq", "root", ["zz_verif_c07_test.go", "zz_verif_c11_test.go", "zz_verif_c20_test.go"], "^TestVerifC07Sequential$", shards={"quick": 12, "thorough": 16}),
            unit("c07-volume", "root", ["zz_verif_c07_test.go", "zz_verif_c11_test.go", "zz_verif_c20_test.go"], "^TestVerifC07Volume$", shards={"quick": 7, "thorough": 7}),
            unit("c07-conc-cprng", "root", ["zz_verif_c07_test.go", "zz_verif_c11_test.go", "zz_verif_c20_test.go"], "^TestVerifC07ConcurrentCPRNG$", shards={"quick": 8, "thorough": 16},
                 instr=["credential.go", "internal/common/fastrandom.go"], instr_fields={"credential.go": ["nonrevCache"]}),
            unit("c07-conc-cache", "root", ["zz_verif_c07_test.go", "zz_verif_c11_test.go", "zz_verif_c20_test.go"], "^TestVerifC07ConcurrentCache$", shards={"quick": 10, "thorough": 16},
                 instr=["credential.go"], instr_fields={"credential.go": ["nonrevCache"]}),
        ],
        "assumptions": ["randomness is the seeded deterministic generator, so a reuse is reproduced bit for bit; statistical quality of the generators is out of scope"],
    },
    "C12": {
        "level": "model_checking",
        "units": [
            unit("c12-model", "rangeproof", ["zz_verif_c12_test.go"], "^TestVerifC12", shards={"quick": 8, "thorough": 16}),
            unit("c12-crypto", "root", ["zz_verif_c12_test.go"], "^TestVerifC12", shards={"quick": 12, "thorough": 16}),
        ],
        "assumptions": [],
    },
    "C13": {
        "level": "exploration",
        "units": [unit("c13-root", "root", ["zz_verif_c13_test.go", "zz_verif_c12_test.go", "zz_verif_c01_test.go"], "^TestVerifC13", shards={"quick": 12, "thorough": 16})],
        "assumptions": [],
    },
    "C06": {
        "level": "fault_enumeration",
        "units": [unit("c06-root", "root", ["zz_verif_c06_test.go", "zz_verif_c11_test.go"], "^TestVerifC06", shards={"quick": 16, "thorough": 16}),
                  unit("c06-interleave", "root", ["zz_verif_c06_interleave_test.go"], "^TestVerifC06Interleaved$", shards={"quick": 8, "thorough": 8}),
                  unit("c06-keysizes", "root", ["zz_verif_c06_test.go", "zz_verif_c11_test.go", "zz_verif_c06_keysizes_test.go"], "^TestVerifC06KeySizes$", shards={"quick": 12, "thorough": 12})],
        "assumptions": ["with a keyshare contribution the commitment proof is completed by the keyshare server; that exchange is C14's"],
    },
    "C14": {
        "level": "fault_enumeration",
        "units": [unit("c14-root", "root", ["zz_verif_c14_test.go"], "^TestVerifC14", shards={"quick": 16, "thorough": 16})],
        "assumptions": ["keyshare protocol is exercised on 1024- and 2048-bit keys (toy parameter sets do not satisfy the size assumptions NewKeyshareCommitments makes)"],
    },
    "C08": {
        "level": "fault_enumeration",
        "units": [unit("c08-root", "root", ["zz_verif_c08_test.go", "zz_verif_c12_test.go"], "^TestVerifC08", shards={"quick": 16, "thorough": 16})],
        "assumptions": ["coverage-guided byte-level fuzzing named in the quantifier is a sampling technique and is not used; the structural mutation space is enumerated completely instead"],
    },
    "C18": {
        "level": "fault_enumeration",
        "units": [
            unit("c18-big", "big", ["zz_verif_c18_test.go"], "^TestVerifC18", shards={"quick": 2, "thorough": 4}),
            unit("c18-gabikeys", "gabikeys", ["zz_verif_c18_test.go", "zz_verif_c18_crash_test.go"], "^TestVerifC18(Key|Crash)", shards={"quick": 4, "thorough": 8}),
            unit("c18-root", "root", ["zz_verif_c18_test.go", "zz_verif_c06_test.go", "zz_verif_c11_test.go", "zz_verif_c14_test.go"], "^TestVerifC18", shards={"quick": 8, "thorough": 8}),
        ],
        "assumptions": ["checks run as root: permission *enforcement* is not observable, only the resulting mode bits"],
    },
    "C17": {
        "level": "fault_enumeration",
        "units": [unit("c17-keyproof", "keyproof", ["zz_verif_c17_test.go", "zz_verif_c17_forgery_test.go"], "^TestVerifC17", shards={"quick": 8, "thorough": 8})],
        "assumptions": ["statistical soundness (2^-80) of the iterated proofs is not decidable by enumeration; what is decided: every iteration is really checked, the relation checked equals an independently written one on toy moduli, every leaf of every component is bound to the challenge"],
    },
    "_FIX": {
        "level": "other",
        "units": [unit("genfix", "root", [], "^TestVerifGenFixtures$", env={"VERIF_GENFIX": "1"}, timeout=1800)],
    },
}
