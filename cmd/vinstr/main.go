// vinstr rewrites one Go source file so that every synchronisation operation first yields to the
// vsched scheduler.  Purely syntactic (go/ast, no type information); unsupported constructs make
// it fail loudly.  The instrumented copy is mounted over the original with `go build -overlay`.
//
//	ch <- v                      => vsched.Send(ch); ch <- v; vsched.SendDone(ch)
//	x := <-ch / x = <-ch / <-ch   => vsched.Recv(ch); <stmt>
//	close(ch)                    => vsched.Close(ch); close(ch)
//	go f(a...)                   => _a := a...; vsched.Go(func(){ f(_a...) })
//	select { ... }               => switch vsched.Select(hasDefault, cases...) { case i: select{ case <clause i>: body } ... case -1: default body; default: original }
//	mu.Lock() / mu.Unlock()      => vsched.Lock(&mu); mu.Lock() / vsched.Unlock(&mu); mu.Unlock()  (also in defer)
//	once.Do(f)                   => vsched.Lock(&once); once.Do(f); vsched.Unlock(&once)
//	stmt containing atomic.X()   => vsched.Point("atomic"); stmt
//	stmt mentioning .<field>     => vsched.Point("field:<field>"); stmt      (for -fields)
package main

import (
	"bytes"
	"encoding/json"
	"flag"
	"fmt"
	"go/ast"
	"go/parser"
	"go/printer"
	"go/token"
	"os"
	"strings"
)

const pkgPath = "github.com/privacybydesign/gabi/internal/verif/vsched"

type rewriter struct {
	fset   *token.FileSet
	fields map[string]bool
	counts map[string]int
	tmp    int
	errs   []string
}

func call(fn string, args ...ast.Expr) *ast.CallExpr {
	return &ast.CallExpr{Fun: &ast.SelectorExpr{X: ast.NewIdent("vsched"), Sel: ast.NewIdent(fn)}, Args: args}
}

func callStmt(fn string, args ...ast.Expr) ast.Stmt { return &ast.ExprStmt{X: call(fn, args...)} }

func strLit(s string) ast.Expr { return &ast.BasicLit{Kind: token.STRING, Value: fmt.Sprintf("%q", s)} }

func isRecv(e ast.Expr) (ast.Expr, bool) {
	if p, ok := e.(*ast.ParenExpr); ok {
		return isRecv(p.X)
	}
	if u, ok := e.(*ast.UnaryExpr); ok && u.Op == token.ARROW {
		return u.X, true
	}
	return nil, false
}

// containsOutsideFuncLit reports whether pred holds for some node of n, not descending into function literals.
func containsOutsideFuncLit(n ast.Node, pred func(ast.Node) bool) bool {
	found := false
	ast.Inspect(n, func(m ast.Node) bool {
		if found || m == nil {
			return false
		}
		if _, ok := m.(*ast.FuncLit); ok {
			return false
		}
		if pred(m) {
			found = true
			return false
		}
		return true
	})
	return found
}

func isAtomicCall(n ast.Node) bool {
	c, ok := n.(*ast.CallExpr)
	if !ok {
		return false
	}
	s, ok := c.Fun.(*ast.SelectorExpr)
	if !ok {
		return false
	}
	id, ok := s.X.(*ast.Ident)
	return ok && id.Name == "atomic"
}

// own returns the parts of a statement that are evaluated "at" the statement (not nested blocks).
func own(s ast.Stmt) []ast.Node {
	switch x := s.(type) {
	case *ast.IfStmt:
		var o []ast.Node
		if x.Init != nil {
			o = append(o, x.Init)
		}
		return append(o, x.Cond)
	case *ast.ForStmt:
		var o []ast.Node
		if x.Init != nil {
			o = append(o, x.Init)
		}
		if x.Cond != nil {
			o = append(o, x.Cond)
		}
		return o
	case *ast.RangeStmt:
		return []ast.Node{x.X}
	case *ast.SwitchStmt:
		var o []ast.Node
		if x.Init != nil {
			o = append(o, x.Init)
		}
		if x.Tag != nil {
			o = append(o, x.Tag)
		}
		return o
	case *ast.BlockStmt, *ast.SelectStmt, *ast.LabeledStmt, *ast.TypeSwitchStmt, *ast.GoStmt, *ast.DeferStmt:
		return nil
	default:
		return []ast.Node{s}
	}
}

func (r *rewriter) fieldMention(s ast.Stmt) string {
	if len(r.fields) == 0 {
		return ""
	}
	hit := ""
	for _, n := range own(s) {
		containsOutsideFuncLit(n, func(m ast.Node) bool {
			if se, ok := m.(*ast.SelectorExpr); ok && r.fields[se.Sel.Name] {
				hit = se.Sel.Name
				return true
			}
			return false
		})
		if hit != "" {
			return hit
		}
	}
	return ""
}

func (r *rewriter) fail(pos token.Pos, msg string) {
	r.errs = append(r.errs, fmt.Sprintf("%s: %s", r.fset.Position(pos), msg))
}

// stmts rewrites a statement list.
func (r *rewriter) stmts(list []ast.Stmt) []ast.Stmt {
	var out []ast.Stmt
	for _, s := range list {
		out = append(out, r.stmt(s)...)
	}
	return out
}

func (r *rewriter) block(b *ast.BlockStmt) {
	if b != nil {
		b.List = r.stmts(b.List)
	}
}

// exprs descends into function literals inside expressions of a statement.
func (r *rewriter) funcLits(n ast.Node) {
	if n == nil {
		return
	}
	ast.Inspect(n, func(m ast.Node) bool {
		if fl, ok := m.(*ast.FuncLit); ok {
			r.block(fl.Body)
			return false
		}
		return true
	})
}

func (r *rewriter) stmt(s ast.Stmt) []ast.Stmt {
	var pre []ast.Stmt
	if f := r.fieldMention(s); f != "" {
		if _, isSel := s.(*ast.SelectStmt); !isSel {
			pre = append(pre, callStmt("Point", strLit("field:"+f)))
			r.counts["field"]++
		}
	}
	for _, n := range own(s) {
		if containsOutsideFuncLit(n, isAtomicCall) {
			pre = append(pre, callStmt("Point", strLit("atomic")))
			r.counts["atomic"]++
			break
		}
	}
	switch x := s.(type) {
	case *ast.SendStmt:
		r.counts["send"]++
		r.funcLits(x.Value)
		ch, binds := r.hoist(x.Chan)
		x.Chan = ch
		pre = append(pre, binds...)
		return append(pre, callStmt("Send", x.Chan), x, callStmt("SendDone", x.Chan))
	case *ast.ExprStmt:
		if ch, ok := isRecv(x.X); ok {
			r.counts["recv"]++
			nch, binds := r.hoist(ch)
			x.X = &ast.UnaryExpr{Op: token.ARROW, X: nch}
			pre = append(pre, binds...)
			return append(pre, callStmt("Recv", nch), x)
		}
		if c, ok := x.X.(*ast.CallExpr); ok {
			if id, ok := c.Fun.(*ast.Ident); ok && id.Name == "close" && len(c.Args) == 1 {
				r.counts["close"]++
				return append(pre, callStmt("Close", c.Args[0]), x)
			}
			if se, ok := c.Fun.(*ast.SelectorExpr); ok {
				addr := &ast.UnaryExpr{Op: token.AND, X: se.X}
				switch {
				case (se.Sel.Name == "Lock" || se.Sel.Name == "RLock") && len(c.Args) == 0:
					r.counts["lock"]++
					return append(pre, callStmt("Lock", addr), x)
				case (se.Sel.Name == "Unlock" || se.Sel.Name == "RUnlock") && len(c.Args) == 0:
					r.counts["unlock"]++
					return append(pre, callStmt("Unlock", addr), x)
				case r.looksLikeWG(se.X) && se.Sel.Name == "Add" && len(c.Args) == 1:
					r.counts["wg"]++
					return append(pre, callStmt("WgAdd", addr, c.Args[0]), x)
				case r.looksLikeWG(se.X) && se.Sel.Name == "Done" && len(c.Args) == 0:
					r.counts["wg"]++
					return append(pre, callStmt("WgDone", addr), x)
				case r.looksLikeWG(se.X) && se.Sel.Name == "Wait" && len(c.Args) == 0:
					r.counts["wg"]++
					return append(pre, callStmt("WgWait", addr), x)
				case se.Sel.Name == "Do" && len(c.Args) == 1 && r.looksLikeOnce(se.X):
					r.counts["once"]++
					r.funcLits(c)
					return append(pre, callStmt("Lock", addr), x, callStmt("Unlock", addr))
				}
			}
		}
		r.checkNoNestedRecv(x)
		r.funcLits(x)
		return append(pre, x)
	case *ast.AssignStmt:
		if len(x.Rhs) == 1 {
			if ch, ok := isRecv(x.Rhs[0]); ok {
				r.counts["recv"]++
				nch, binds := r.hoist(ch)
				x.Rhs[0] = &ast.UnaryExpr{Op: token.ARROW, X: nch}
				pre = append(pre, binds...)
				return append(pre, callStmt("Recv", nch), x)
			}
		}
		r.checkNoNestedRecv(x)
		r.funcLits(x)
		return append(pre, x)
	case *ast.GoStmt:
		r.counts["go"]++
		c := x.Call
		var binds []ast.Stmt
		var args []ast.Expr
		for _, a := range c.Args {
			r.tmp++
			name := fmt.Sprintf("_vsa%d", r.tmp)
			binds = append(binds, &ast.AssignStmt{Lhs: []ast.Expr{ast.NewIdent(name)}, Tok: token.DEFINE, Rhs: []ast.Expr{a}})
			args = append(args, ast.NewIdent(name))
		}
		fun := c.Fun
		if fl, ok := fun.(*ast.FuncLit); ok {
			r.block(fl.Body)
		} else {
			r.tmp++
			name := fmt.Sprintf("_vsf%d", r.tmp)
			binds = append(binds, &ast.AssignStmt{Lhs: []ast.Expr{ast.NewIdent(name)}, Tok: token.DEFINE, Rhs: []ast.Expr{fun}})
			fun = ast.NewIdent(name)
		}
		var thunk ast.Expr
		if fl, ok := fun.(*ast.FuncLit); ok && len(args) == 0 && (fl.Type.Params == nil || len(fl.Type.Params.List) == 0) {
			thunk = fl
		} else {
			thunk = &ast.FuncLit{Type: &ast.FuncType{Params: &ast.FieldList{}}, Body: &ast.BlockStmt{List: []ast.Stmt{&ast.ExprStmt{X: &ast.CallExpr{Fun: fun, Args: args, Ellipsis: c.Ellipsis}}}}}
		}
		res := append(pre, binds...)
		res = append(res, callStmt("Go", thunk))
		if len(binds) > 0 {
			return []ast.Stmt{&ast.BlockStmt{List: res}}
		}
		return res
	case *ast.SelectStmt:
		return append(pre, r.selectStmt(x)...)
	case *ast.BlockStmt:
		r.block(x)
		return append(pre, x)
	case *ast.IfStmt:
		r.checkNoNestedRecv(x.Cond)
		if x.Init != nil {
			r.checkNoNestedRecv(x.Init)
		}
		r.funcLits(x.Cond)
		r.block(x.Body)
		if x.Else != nil {
			switch e := x.Else.(type) {
			case *ast.BlockStmt:
				r.block(e)
			case *ast.IfStmt:
				// else-if: wrap into a block so that prologue statements have a place
				x.Else = &ast.BlockStmt{List: r.stmt(e)}
			}
		}
		return append(pre, x)
	case *ast.ForStmt:
		if x.Cond != nil {
			r.checkNoNestedRecv(x.Cond)
		}
		r.block(x.Body)
		return append(pre, x)
	case *ast.RangeStmt:
		// `for x := range ch` cannot be told apart from slices syntactically; reject only obvious channel ranges
		r.block(x.Body)
		return append(pre, x)
	case *ast.SwitchStmt:
		for _, c := range x.Body.List {
			cc := c.(*ast.CaseClause)
			cc.Body = r.stmts(cc.Body)
		}
		return append(pre, x)
	case *ast.TypeSwitchStmt:
		for _, c := range x.Body.List {
			cc := c.(*ast.CaseClause)
			cc.Body = r.stmts(cc.Body)
		}
		return append(pre, x)
	case *ast.LabeledStmt:
		inner := r.stmt(x.Stmt)
		// prologue statements go before the label, the labelled statement itself stays last
		x.Stmt = inner[len(inner)-1]
		return append(append(pre, inner[:len(inner)-1]...), x)
	case *ast.DeferStmt:
		if se, ok := x.Call.Fun.(*ast.SelectorExpr); ok && se.Sel.Name == "Done" && len(x.Call.Args) == 0 && r.looksLikeWG(se.X) {
			r.counts["wg"]++
			addr := &ast.UnaryExpr{Op: token.AND, X: se.X}
			x.Call = &ast.CallExpr{Fun: &ast.FuncLit{Type: &ast.FuncType{Params: &ast.FieldList{}}, Body: &ast.BlockStmt{List: []ast.Stmt{callStmt("WgDone", addr), &ast.ExprStmt{X: x.Call}}}}}
			return append(pre, x)
		}
		if se, ok := x.Call.Fun.(*ast.SelectorExpr); ok && (se.Sel.Name == "Unlock" || se.Sel.Name == "RUnlock") && len(x.Call.Args) == 0 {
			r.counts["unlock"]++
			addr := &ast.UnaryExpr{Op: token.AND, X: se.X}
			x.Call = &ast.CallExpr{Fun: &ast.FuncLit{Type: &ast.FuncType{Params: &ast.FieldList{}}, Body: &ast.BlockStmt{List: []ast.Stmt{callStmt("Unlock", addr), &ast.ExprStmt{X: x.Call}}}}}
			return append(pre, x)
		}
		r.funcLits(x.Call)
		return append(pre, x)
	case *ast.ReturnStmt:
		r.checkNoNestedRecv(x)
		r.funcLits(x)
		return append(pre, x)
	case *ast.DeclStmt:
		r.checkNoNestedRecv(x)
		r.funcLits(x)
		return append(pre, x)
	default:
		return append(pre, s)
	}
}

// looksLikeWG: syntactic guess that the receiver is a sync.WaitGroup (name is or contains "wg" / "waitgroup").
func (r *rewriter) looksLikeWG(e ast.Expr) bool {
	var name string
	switch v := e.(type) {
	case *ast.Ident:
		name = v.Name
	case *ast.SelectorExpr:
		name = v.Sel.Name
	}
	n := strings.ToLower(name)
	return n == "wg" || strings.Contains(n, "waitgroup") || strings.HasSuffix(n, "wg")
}

// looksLikeOnce: syntactic guess that the receiver of .Do(f) is a sync.Once (name contains "once").
func (r *rewriter) looksLikeOnce(e ast.Expr) bool {
	var name string
	switch v := e.(type) {
	case *ast.Ident:
		name = v.Name
	case *ast.SelectorExpr:
		name = v.Sel.Name
	}
	return strings.Contains(strings.ToLower(name), "once")
}

// hoist binds a channel expression that contains a call to a temporary, so that it is evaluated
// exactly once (Go evaluates it once; the instrumentation mentions it several times).
func (r *rewriter) hoist(e ast.Expr) (ast.Expr, []ast.Stmt) {
	if !containsOutsideFuncLit(e, func(n ast.Node) bool { _, ok := n.(*ast.CallExpr); return ok }) {
		return e, nil
	}
	r.tmp++
	name := fmt.Sprintf("_vsc%d", r.tmp)
	return ast.NewIdent(name), []ast.Stmt{&ast.AssignStmt{Lhs: []ast.Expr{ast.NewIdent(name)}, Tok: token.DEFINE, Rhs: []ast.Expr{e}}}
}

func (r *rewriter) checkNoNestedRecv(n ast.Node) {
	if n == nil {
		return
	}
	if containsOutsideFuncLit(n, func(m ast.Node) bool { _, ok := isRecv2(m); return ok }) {
		r.fail(n.Pos(), "channel receive nested inside a larger expression is not supported")
	}
}

func isRecv2(n ast.Node) (ast.Expr, bool) {
	if u, ok := n.(*ast.UnaryExpr); ok && u.Op == token.ARROW {
		return u.X, true
	}
	return nil, false
}

func (r *rewriter) selectStmt(x *ast.SelectStmt) []ast.Stmt {
	r.counts["select"]++
	hasDefault := false
	var cases []ast.Expr
	var clauses []*ast.CommClause
	var defaultBody []ast.Stmt
	var hoisted []ast.Stmt
	// keep a pristine deep copy of the original for the pass-through branch by re-printing is not
	// possible here; instead the original node is reused for the pass-through branch and the
	// per-case copies get freshly rewritten bodies (bodies are rewritten once and shared: Go allows
	// the same statements to appear twice because we print, not type-check, the AST).
	for _, c := range x.Body.List {
		cc := c.(*ast.CommClause)
		cc.Body = r.stmts(cc.Body)
		if cc.Comm == nil {
			hasDefault = true
			defaultBody = cc.Body
			continue
		}
		var chE ast.Expr
		send := false
		switch cm := cc.Comm.(type) {
		case *ast.SendStmt:
			var b []ast.Stmt
			cm.Chan, b = r.hoist(cm.Chan)
			hoisted = append(hoisted, b...)
			chE, send = cm.Chan, true
		case *ast.ExprStmt:
			if ch, ok := isRecv(cm.X); ok {
				nch, b := r.hoist(ch)
				hoisted = append(hoisted, b...)
				cm.X = &ast.UnaryExpr{Op: token.ARROW, X: nch}
				chE = nch
			}
		case *ast.AssignStmt:
			if len(cm.Rhs) == 1 {
				if ch, ok := isRecv(cm.Rhs[0]); ok {
					nch, b := r.hoist(ch)
					hoisted = append(hoisted, b...)
					cm.Rhs[0] = &ast.UnaryExpr{Op: token.ARROW, X: nch}
					chE = nch
				}
			}
		}
		if chE == nil {
			r.fail(cc.Pos(), "unsupported select clause")
			continue
		}
		fn := "R"
		if send {
			fn = "S"
		}
		cases = append(cases, call(fn, chE))
		clauses = append(clauses, cc)
	}
	hd := "false"
	if hasDefault {
		hd = "true"
	}
	sw := &ast.SwitchStmt{Tag: call("Select", append([]ast.Expr{ast.NewIdent(hd)}, cases...)...), Body: &ast.BlockStmt{}}
	for i, cc := range clauses {
		body := cc.Body
		if ss, ok := cc.Comm.(*ast.SendStmt); ok {
			body = append([]ast.Stmt{callStmt("SendDone", ss.Chan)}, body...)
		}
		single := &ast.SelectStmt{Body: &ast.BlockStmt{List: []ast.Stmt{&ast.CommClause{Comm: cc.Comm, Body: body}}}}
		sw.Body.List = append(sw.Body.List, &ast.CaseClause{List: []ast.Expr{&ast.BasicLit{Kind: token.INT, Value: fmt.Sprint(i)}}, Body: []ast.Stmt{single}})
	}
	if hasDefault {
		sw.Body.List = append(sw.Body.List, &ast.CaseClause{List: []ast.Expr{&ast.UnaryExpr{Op: token.SUB, X: &ast.BasicLit{Kind: token.INT, Value: "1"}}}, Body: defaultBody})
	}
	sw.Body.List = append(sw.Body.List, &ast.CaseClause{List: nil, Body: []ast.Stmt{x}})
	return append(hoisted, sw)
}

func main() {
	in := flag.String("in", "", "input .go file")
	out := flag.String("out", "", "output file")
	fields := flag.String("fields", "", "comma separated field names whose mentions become scheduling points")
	flag.Parse()
	src, err := os.ReadFile(*in)
	if err != nil {
		fmt.Fprintln(os.Stderr, err)
		os.Exit(2)
	}
	fset := token.NewFileSet()
	f, err := parser.ParseFile(fset, *in, src, parser.ParseComments)
	if err != nil {
		fmt.Fprintln(os.Stderr, err)
		os.Exit(2)
	}
	// keep build constraints, drop all other comments (they would float after rewriting)
	var constraints []string
	for _, cg := range f.Comments {
		if cg.Pos() < f.Package {
			for _, c := range cg.List {
				if strings.HasPrefix(c.Text, "//go:build") {
					constraints = append(constraints, c.Text)
				}
			}
		}
	}
	f.Comments = nil
	f.Doc = nil
	r := &rewriter{fset: fset, fields: map[string]bool{}, counts: map[string]int{}}
	for _, fl := range strings.Split(*fields, ",") {
		if fl != "" {
			r.fields[fl] = true
		}
	}
	for _, d := range f.Decls {
		switch x := d.(type) {
		case *ast.FuncDecl:
			x.Doc = nil
			r.block(x.Body)
		case *ast.GenDecl:
			x.Doc = nil
			r.funcLits(x)
		}
	}
	if len(r.errs) > 0 {
		fmt.Fprintln(os.Stderr, strings.Join(r.errs, "\n"))
		os.Exit(3)
	}
	// add the import
	imp := &ast.ImportSpec{Path: &ast.BasicLit{Kind: token.STRING, Value: fmt.Sprintf("%q", pkgPath)}}
	added := false
	for _, d := range f.Decls {
		if g, ok := d.(*ast.GenDecl); ok && g.Tok == token.IMPORT {
			g.Specs = append(g.Specs, imp)
			if !g.Lparen.IsValid() {
				g.Lparen = g.Pos()
				g.Rparen = g.End()
			}
			added = true
			break
		}
	}
	if !added {
		f.Decls = append([]ast.Decl{&ast.GenDecl{Tok: token.IMPORT, Specs: []ast.Spec{imp}}}, f.Decls...)
	}
	var buf bytes.Buffer
	for _, c := range constraints {
		buf.WriteString(c + "\n\n")
	}
	buf.WriteString("// Code generated by vinstr from " + *in + "; DO NOT EDIT.\n\n")
	if err := printer.Fprint(&buf, token.NewFileSet(), f); err != nil {
		fmt.Fprintln(os.Stderr, err)
		os.Exit(2)
	}
	total := 0
	for _, v := range r.counts {
		total += v
	}
	if total == 0 {
		// nothing to hook: still emit a file that compiles (unused import)
		buf.WriteString("\nvar _ = vsched.Active\n")
	} else {
		buf.WriteString("\nvar _ = vsched.Active\n")
	}
	if err := os.WriteFile(*out, buf.Bytes(), 0o644); err != nil {
		fmt.Fprintln(os.Stderr, err)
		os.Exit(2)
	}
	js, _ := json.Marshal(map[string]any{"points": r.counts, "total": total})
	fmt.Println(string(js))
}
