module vinstr

go 1.23
