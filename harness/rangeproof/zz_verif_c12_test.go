//go:build verif

package rangeproof

// C12 (pure part) — the statements the library reports for a range proof descriptor hold for
// every attribute value for which the relation that verification actually checks can hold.
//
// The relation is read off the real proof structure built by ExtractStructure (exponents of the
// mCorrect representation): sum_i d_i^2 = exp - P*m.  For every descriptor of a finite box accepted
// by ExtractStructure, every m in [0,12] satisfying the relation, and every queried statement:
// ProvenStatement() and every ProvesStatement(...)==true must be true of m in integer arithmetic.

import (
	"fmt"
	"math"
	"testing"
	"time"

	"github.com/privacybydesign/gabi/big"
	"github.com/privacybydesign/gabi/gabikeys"
	"github.com/privacybydesign/gabi/internal/verif/vkit"
)

func c12SumOfSquares(v *big.Int, n int) bool {
	if v.Sign() < 0 {
		return false
	}
	if n >= 4 || !v.IsInt64() || v.Int64() > 1<<20 {
		// four squares: every non-negative integer; huge 3-square values do not occur (A must be 4)
		return true
	}
	x := v.Int64()
	for i := int64(0); i*i <= x; i++ {
		for j := i; i*i+j*j <= x; j++ {
			r := x - i*i - j*j
			s := int64(math.Sqrt(float64(r)))
			for t := s - 1; t <= s+1; t++ {
				if t >= 0 && t*t == r {
					return true
				}
			}
		}
	}
	return false
}

func TestVerifC12Model(t *testing.T) {
	r := vkit.Start(t, "C12", "statement-model", 200*time.Second, 900*time.Second)
	defer r.Finish()
	r.Rule = "descriptors (sign in {-2..2}, a in {0..5,2^62,2^63-1,2^63,2^63+1,2^64-1}, k in [-12,12] U {+-2^62, 2^63, 2^(Lm+63), 2^(Lm+64)-1, 2^(Lm+64)}, 3 or 4 squares, l_d in {8,Lm,Lm+1}) accepted by ExtractStructure; m in [0,12] for which the relation of the real structure (exp - P*m is a sum of n squares) holds; queries (sign' in {-1,1,0,2}, factor' in {a, a/4, 0,1,4,2^63, a/4+j*2^62 (j=1,2,3: the values whose fourfold wraps around to a), a+2^63}, bound' in [-14,14] U {k,(k+2)/4,(k-2)/4}); non-trivial = distinct (descriptor, m in the relation); oracle: ProvenStatement and every ProvesStatement==true are true of m over the integers"
	pk := &gabikeys.PublicKey{Params: gabikeys.DefaultSystemParameters[1024]}
	lm := pk.Params.Lm
	p2 := func(k uint) *big.Int { return new(big.Int).Lsh(big.NewInt(1), k) }
	as := []uint{0, 1, 2, 3, 4, 5, 1 << 62, 1<<63 - 1, 1 << 63, 1<<63 + 1, math.MaxUint64}
	var ks []*big.Int
	for k := int64(-12); k <= 12; k++ {
		ks = append(ks, big.NewInt(k))
	}
	ks = append(ks, p2(62), new(big.Int).Neg(p2(62)), p2(63), p2(lm+63), new(big.Int).Sub(p2(lm+64), big.NewInt(1)), p2(lm+64))
	accepted := 0
	tally := vkit.Tally{}
	defer tally.Flush(r)
	for _, sign := range []int{-2, -1, 0, 1, 2} {
		for _, a := range as {
			for _, k := range ks {
				for _, nsq := range []int{3, 4} {
					for _, ld := range []uint{8, lm, lm + 1} {
						if _, mine := r.Next(); !mine {
							continue
						}
						p := &Proof{Cs: make([]*big.Int, nsq), Ld: ld, Sign: sign, A: a, K: new(big.Int).Set(k)}
						var s *ProofStructure
						var err error
						if pan, msg := vkit.Guard(func() { s, err = p.ExtractStructure(1, pk) }); pan {
							r.Violate("C12|ExtractStructure-panic", msg, fmt.Sprintf("sign=%d a=%d k=%v n=%d ld=%d", sign, a, k, nsq, ld))
							continue
						}
						r.Eval()
						if err != nil {
							r.Outcome("descriptor refused")
							continue
						}
						accepted++
						r.Outcome(fmt.Sprintf("descriptor accepted:squares=%d:sign=%d", nsq, sign))
						// the relation the verifier checks, read from the real structure
						exp := s.mCorrect.Lhs[0].Power
						P := big.NewInt(s.mCorrect.Rhs[1].Power)
						desc := fmt.Sprintf("sign=%d a=%d k=%v squares=%d l_d=%d", sign, a, k, nsq, ld)
						for m := int64(0); m <= 12; m++ {
							val := new(big.Int).Sub(exp, new(big.Int).Mul(P, big.NewInt(m)))
							if !c12SumOfSquares(val, nsq) {
								continue
							}
							r.Nontrivial(fmt.Sprintf("%s|m=%d", desc, m))
							holds := func(sg int, factor uint, bound *big.Int) bool {
								lhs := new(big.Int).Mul(new(big.Int).SetUint64(uint64(factor)), big.NewInt(m))
								switch sg {
								case 1:
									return lhs.Cmp(bound) >= 0
								case -1:
									return lhs.Cmp(bound) <= 0
								}
								return false
							}
							typ, f, b := p.ProvenStatement()
							sg, _ := typ.Sign()
							if !holds(sg, f, b) {
								cls := "small-factor"
								if a > math.MaxInt64 {
									cls = "factor>=2^63"
								}
								r.Violate("C12|ProvenStatement-false-for-provable-m|"+cls, fmt.Sprintf("descriptor %s is satisfiable for m=%d (sum of squares = %v) but ProvenStatement reports %d*m %s %v", desc, m, val, f, map[int]string{1: ">=", -1: "<="}[sg], b),
									map[string]any{"descriptor": desc, "m": m})
							}
							// queries
							var bounds []*big.Int
							for q := int64(-14); q <= 14; q++ {
								bounds = append(bounds, big.NewInt(q))
							}
							kp2 := new(big.Int).Add(k, big.NewInt(2))
							km2 := new(big.Int).Sub(k, big.NewInt(2))
							bounds = append(bounds, k, kp2.Rsh(kp2, 2), km2.Rsh(km2, 2))
							for _, qs := range []int{-1, 1, 0, 2} {
								for _, qf := range []uint{a, a / 4, 0, 1, 4, 1 << 63, a/4 + 1<<62, a/4 + 1<<63, a/4 + 3<<62, a + 1<<63} { // incl. the preimages of a under the 64-bit wrap-around of 4*factor'
									for _, qb := range bounds {
										r.Eval()
										proves := p.ProvesStatement(qs, qf, qb)
										tally[fmt.Sprintf("query:ProvesStatement=%v:true over the integers=%v", proves, holds(qs, qf, qb))]++
										if proves && !holds(qs, qf, qb) {
											cls := "small-factor"
											if a > math.MaxInt64 {
												cls = "factor>=2^63"
											}
											r.Violate("C12|ProvesStatement-true-for-false-statement|"+cls, fmt.Sprintf("descriptor %s, m=%d satisfies the relation; library says it proves %d*m %s %v, which is false", desc, m, qf, map[int]string{1: ">=", -1: "<="}[qs], qb),
												map[string]any{"descriptor": desc, "m": m, "query": fmt.Sprintf("%d %d %v", qs, qf, qb)})
										}
									}
								}
							}
						}
					}
				}
			}
		}
	}
	r.Sample(map[string]any{"descriptors_accepted_in_this_shard": accepted, "example": "sign=-1 a=4 k=6 squares=3 l_d=8, m in [0,12]"})
}
