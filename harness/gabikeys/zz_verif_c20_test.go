//go:build verif

package gabikeys

// C20 (parallel key generation) — free-running body for the -race pass.

import (
	"fmt"
	"sync"
	"testing"
	"time"

	"github.com/privacybydesign/gabi/internal/verif/vkit"
)

func TestVerifC20RaceKeygen(t *testing.T) {
	r := vkit.Start(t, "C20", "race-pass-keygen", 300*time.Second, 900*time.Second)
	defer r.Finish()
	r.Rule = "free-running -race pass: 2 and 4 concurrent GenerateKeyPair calls at 128 bits (each with its own safe-prime worker pool), R repetitions; non-trivial = distinct (parallelism, repetition); oracle: every key satisfies the full well-formedness predicate; race detector silent"
	reps := vkit.Pick(2, 8)
	param := c16Params(128)
	for _, par := range []int{2, 4} {
		for rep := 0; rep < reps; rep++ {
			var wg sync.WaitGroup
			bad := make([][]string, par)
			for i := 0; i < par; i++ {
				i := i
				wg.Add(1)
				go func() {
					defer wg.Done()
					sk, pk, err := GenerateKeyPair(param, 3, uint(i), time.Unix(1900000000, 0))
					if err != nil {
						bad[i] = []string{err.Error()}
						return
					}
					bad[i] = c16KeyPredicate(sk, pk, param, 3)
				}()
			}
			wg.Wait()
			r.Eval()
			r.Nontrivial(fmt.Sprintf("%d|%d", par, rep))
			for i, b := range bad {
				if len(b) > 0 {
					r.Violate("C20|concurrently-generated-key-malformed|"+b[0], fmt.Sprintf("generator %d of %d: %v", i, par, b), par)
				}
			}
		}
	}
	r.Sample(map[string]any{"parallel": []int{2, 4}, "repetitions": reps, "Ln": 128})
}
