//go:build verif

package gabikeys

// C18 (crash points of the private-key file write) — the write path of PrivateKey.WriteToFile is
// executed for real under strace; the logged sequence of system calls touching the key file is the
// history.  EVERY prefix of that history (= every crash point) is replayed on a small file model
// (exists, mode, bytes) and the invariant "the file holds key bytes => mode & 077 == 0" is evaluated
// in each of them.  The model is bound to the code by the trace: the final model state must equal
// the real file's state (conformance check).

import (
	"fmt"
	"os"
	"os/exec"
	"path/filepath"
	"regexp"
	"strconv"
	"strings"
	"syscall"
	"testing"
	"time"

	"github.com/privacybydesign/gabi/internal/verif/vkit"
)

// helper mode: perform one WriteToFile and exit (run as a child under strace)
func TestVerifC18Helper(t *testing.T) {
	spec := os.Getenv("VERIF_C18_HELPER")
	if spec == "" {
		t.Skip("helper only")
	}
	parts := strings.Split(spec, "|")
	um, _ := strconv.ParseInt(parts[2], 8, 32)
	sk, _ := c18Keys(t, 1, false)
	syscall.Umask(int(um))
	_, err := sk.WriteToFile(parts[0], parts[1] == "true")
	if err != nil {
		fmt.Println("HELPER-ERROR", err)
	}
	os.Exit(0)
}

type c18FileModel struct {
	exists  bool
	mode    uint32
	bytes   int
	keyData bool // bytes written by this run (key material)
}

var (
	c18ReOpen   = regexp.MustCompile(`openat\(AT_FDCWD(?:<[^>]*>)?, "([^"]+)", ([A-Z_|0-9]+)(?:, (0[0-7]*))?\) = (-?\d+)`)
	c18ReFchmod = regexp.MustCompile(`fchmod\((\d+)<([^>]+)>, (0[0-7]*)\) = (-?\d+)`)
	c18ReChmod  = regexp.MustCompile(`(?:chmod|fchmodat)\((?:AT_FDCWD(?:<[^>]*>)?, )?"([^"]+)", (0[0-7]*)(?:, [^)]*)?\) = (-?\d+)`)
	c18ReWrite  = regexp.MustCompile(`p?write(?:64)?\((\d+)<([^>]+)>, .*\) = (-?\d+)`)
	c18ReRename = regexp.MustCompile(`rename(?:at2?)?\((?:AT_FDCWD(?:<[^>]*>)?, )?"([^"]+)", (?:AT_FDCWD(?:<[^>]*>)?, )?"([^"]+)"(?:, [^)]*)?\) = (-?\d+)`)
	c18ReTrunc  = regexp.MustCompile(`ftruncate\((\d+)<([^>]+)>, (\d+)\) = (-?\d+)`)
)

func TestVerifC18CrashPoints(t *testing.T) {
	r := vkit.Start(t, "C18", "private-key-file-crash-points", 120*time.Second, 400*time.Second)
	defer r.Finish()
	r.Rule = "prior state {absent, 0644, 0666, 0600} x umask {0, 022} x forceOverwrite: the real WriteToFile runs under strace; history = logged system calls on the key file (openat, fchmod, chmod, write, ftruncate, rename); EVERY prefix of the history is a crash point, and every write additionally tears after its first and before its last byte, replayed on a file model; non-trivial = distinct (prior state, umask, flag, crash point); oracle: in every crash state, key bytes in the file => mode & 077 == 0, and an existing file is untouched unless forceOverwrite; conformance: final model state == real file state"
	if r.Shard != 0 {
		return
	}
	if _, err := exec.LookPath("strace"); err != nil {
		r.Note("strace not available: crash-point enumeration skipped")
		r.Cap("strace not available")
		return
	}
	dir := t.TempDir()
	n := 0
	for _, st := range []string{"absent", "0644", "0666", "0600"} {
		for _, um := range []string{"0", "022"} {
			for _, force := range []bool{false, true} {
				n++
				fn := filepath.Join(dir, fmt.Sprintf("key-%d.xml", n))
				model := c18FileModel{}
				old := syscall.Umask(0)
				if st != "absent" {
					var mode uint32
					fmt.Sscanf(st, "%o", &mode)
					os.WriteFile(fn, []byte("old-content"), os.FileMode(mode))
					os.Chmod(fn, os.FileMode(mode))
					model = c18FileModel{exists: true, mode: mode, bytes: len("old-content")}
				}
				syscall.Umask(old)
				prior := model
				logf := filepath.Join(dir, fmt.Sprintf("trace-%d.log", n))
				cmd := exec.Command("strace", "-f", "-y", "-s", "0", "-e", "trace=openat,fchmod,fchmodat,chmod,write,pwrite64,rename,renameat,renameat2,ftruncate", "-o", logf,
					os.Args[0], "-test.run", "^TestVerifC18Helper$")
				cmd.Env = append(os.Environ(), fmt.Sprintf("VERIF_C18_HELPER=%s|%v|%s", fn, force, um), "VERIF_OUT=")
				out, err := cmd.CombinedOutput()
				if err != nil {
					r.Note("strace run failed (%v): %s", err, vfFirstLine(string(out)))
					r.Cap("strace could not trace the helper (ptrace not permitted?)")
					return
				}
				logb, _ := os.ReadFile(logf)
				umask, _ := strconv.ParseUint(um, 8, 32)
				// replay the history, checking the invariant after every event
				events := 0
				fdPath := map[string]string{}
				check := func(after string) {
					r.Eval()
					r.Nontrivial(fmt.Sprintf("%s|%s|%v|%d|%s", st, um, force, events, after))
					r.States++
					if prior.exists && !force && model != prior {
						r.Violate(fmt.Sprintf("C18|existing-key-file-touched-without-forceOverwrite|crash-point|prior=%s", st),
							fmt.Sprintf("prior=%s umask=%s: after event %d (%s) the existing file is no longer as it was (mode %o, %d bytes) although forceOverwrite is false", st, um, events, after, model.mode, model.bytes),
							map[string]any{"prior": st, "umask": um, "event": events, "after": after})
					}
					if model.exists && model.keyData && model.mode&0o77 != 0 {
						r.Violate(fmt.Sprintf("C18|private-key-file-readable-by-others|crash-point|prior=%s|force=%v", st, force),
							fmt.Sprintf("prior=%s umask=%s force=%v: a crash right after event %d (%s) leaves key bytes in a file with mode %o", st, um, force, events, after, model.mode),
							map[string]any{"prior": st, "umask": um, "forceOverwrite": force, "event": events, "after": after})
					}
				}
				for _, line := range strings.Split(string(logb), "\n") {
					switch {
					case strings.Contains(line, "openat(") && strings.Contains(line, `"`+fn+`"`):
						m := c18ReOpen.FindStringSubmatch(line)
						if m == nil || strings.HasPrefix(m[4], "-") {
							continue
						}
						events++
						r.Transitions++
						flags := m[2]
						if !model.exists && strings.Contains(flags, "O_CREAT") {
							mode, _ := strconv.ParseUint(m[3], 8, 32)
							model = c18FileModel{exists: true, mode: uint32(mode) &^ uint32(umask)}
						}
						if strings.Contains(flags, "O_TRUNC") {
							model.bytes, model.keyData = 0, false
						}
						fdPath[m[4]] = fn
						check("openat " + flags)
					case strings.Contains(line, "fchmod(") && strings.Contains(line, "<"+fn+">"):
						m := c18ReFchmod.FindStringSubmatch(line)
						if m == nil || strings.HasPrefix(m[4], "-") {
							continue
						}
						events++
						r.Transitions++
						mode, _ := strconv.ParseUint(m[3], 8, 32)
						model.mode = uint32(mode)
						check("fchmod " + m[3])
					case (strings.Contains(line, "chmod(") || strings.Contains(line, "fchmodat(")) && strings.Contains(line, `"`+fn+`"`):
						m := c18ReChmod.FindStringSubmatch(line)
						if m == nil || strings.HasPrefix(m[3], "-") {
							continue
						}
						events++
						r.Transitions++
						mode, _ := strconv.ParseUint(m[2], 8, 32)
						model.mode = uint32(mode)
						check("chmod " + m[2])
					case strings.Contains(line, "write") && strings.Contains(line, "<"+fn+">"):
						m := c18ReWrite.FindStringSubmatch(line)
						if m == nil || strings.HasPrefix(m[3], "-") {
							continue
						}
						events++
						r.Transitions++
						nb, _ := strconv.Atoi(m[3])
						if nb > 1 {
							// torn write: a crash inside the call leaves any non-empty prefix of the data
							model.bytes++
							model.keyData = true
							check("write torn after 1 of " + m[3] + " bytes")
							model.bytes += nb - 2
							check("write torn 1 byte before the end of " + m[3] + " bytes")
							model.bytes++
						} else {
							model.bytes += nb
						}
						model.keyData = true
						check("write " + m[3] + " bytes")
					case strings.Contains(line, "ftruncate(") && strings.Contains(line, "<"+fn+">"):
						events++
						r.Transitions++
						model.bytes, model.keyData = 0, false
						check("ftruncate")
					case strings.Contains(line, "rename") && strings.Contains(line, `"`+fn+`"`):
						events++
						r.Transitions++
						r.Note("rename onto the key path observed: the model treats the renamed file as holding key data with the mode it had; not modelled further")
						check("rename")
					}
				}
				// conformance of the model with the real outcome
				fi, err := os.Stat(fn)
				r.Traces++
				switch {
				case err != nil && model.exists:
					r.HarnessError("model says the file exists, it does not (%s,%s,%v)", st, um, force)
				case err == nil:
					if uint32(fi.Mode().Perm()) != model.mode || (int(fi.Size()) != model.bytes && model.keyData) {
						r.HarnessError("model/real mismatch for prior=%s umask=%s force=%v: model mode %o bytes %d, real mode %o size %d (trace parsing incomplete?)", st, um, force, model.mode, model.bytes, fi.Mode().Perm(), fi.Size())
					}
				}
				r.Outcome(fmt.Sprintf("prior=%s:force=%v:events=%d:key_written=%v", st, force, events, model.keyData))
				r.Sample(map[string]any{"prior": st, "umask": um, "forceOverwrite": force, "crash_points": events, "final_mode": fmt.Sprintf("%o", model.mode)})
			}
		}
	}
}

func vfFirstLine(s string) string {
	if i := strings.IndexByte(s, '\n'); i >= 0 {
		return s[:i]
	}
	return s
}
