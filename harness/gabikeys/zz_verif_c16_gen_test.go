//go:build verif

package gabikeys

// C16 — generated issuer keys are well-formed: (a) the pair-selection logic on every stream of
// scripted safe primes, (b) findMatch on every pair of 16-bit safe primes, (c) the whole generator
// under environment-answer deviations of every draw of the key-derivation part, (d) a few
// default-randomness generations at toy and real sizes incl. the "no worker left running" clause.

import (
	"fmt"
	"runtime"
	"strings"
	"testing"
	"time"

	"github.com/privacybydesign/gabi/big"
	"github.com/privacybydesign/gabi/internal/common"
	"github.com/privacybydesign/gabi/internal/verif/venv"
	"github.com/privacybydesign/gabi/internal/verif/vkit"
)

func c16KeyPredicate(sk *PrivateKey, pk *PublicKey, param *SystemParameters, bases int) []string {
	var bad []string
	chk := func(ok bool, what string) {
		if !ok {
			bad = append(bad, what)
		}
	}
	one := big.NewInt(1)
	eight := big.NewInt(8)
	chk(sk.P.ProbablyPrime(40) && sk.Q.ProbablyPrime(40), "p and q prime")
	chk(sk.PPrime.ProbablyPrime(40) && sk.QPrime.ProbablyPrime(40), "p' and q' prime")
	chk(new(big.Int).Add(new(big.Int).Lsh(sk.PPrime, 1), one).Cmp(sk.P) == 0 && new(big.Int).Add(new(big.Int).Lsh(sk.QPrime, 1), one).Cmp(sk.Q) == 0, "p=2p'+1, q=2q'+1")
	chk(sk.P.Cmp(sk.Q) != 0, "p != q")
	chk(uint(sk.P.BitLen()) == param.Ln/2 && uint(sk.Q.BitLen()) == param.Ln/2, "primes have half the modulus length")
	chk(uint(pk.N.BitLen()) == param.Ln, "modulus has exactly the requested length")
	chk(new(big.Int).Mul(sk.P, sk.Q).Cmp(pk.N) == 0 && sk.N.Cmp(pk.N) == 0, "n = p*q")
	pm, qm := new(big.Int).Mod(sk.P, eight), new(big.Int).Mod(sk.Q, eight)
	chk(pm.Cmp(qm) != 0, "p != q mod 8")
	chk(new(big.Int).Mod(sk.PPrime, eight).Cmp(one) != 0 && new(big.Int).Mod(sk.QPrime, eight).Cmp(one) != 0, "p', q' != 1 mod 8")
	chk(sk.Order.Cmp(new(big.Int).Mul(sk.PPrime, sk.QPrime)) == 0, "order = p'q'")
	qr := func(v *big.Int) bool {
		return v != nil && v.Sign() > 0 && v.Cmp(pk.N) < 0 && big.Jacobi(v, sk.P) == 1 && big.Jacobi(v, sk.Q) == 1
	}
	chk(qr(pk.S), "S is a quadratic residue in Z_n*")
	chk(qr(pk.Z), "Z is a quadratic residue")
	chk(qr(pk.G) && qr(pk.H), "G and H are quadratic residues")
	chk(len(pk.R) == bases, "number of bases")
	for i, rb := range pk.R {
		chk(qr(rb), fmt.Sprintf("R[%d] is a quadratic residue", i))
	}
	if qr(pk.S) {
		// S generates QR_n (then every QR, in particular Z and R_i, lies in <S>)
		full := new(big.Int).Exp(pk.S, sk.PPrime, pk.N).Cmp(one) != 0 && new(big.Int).Exp(pk.S, sk.QPrime, pk.N).Cmp(one) != 0
		chk(full, "S generates QR_n (so that Z, R_i are in <S>)")
	}
	chk(pk.Params == param, "public key carries the requested parameters")
	chk(sk.Validate() == nil, "PrivateKey.Validate")
	chk(sk.ECDSA != nil && pk.ECDSA != nil && sk.ECDSA.PublicKey.Equal(pk.ECDSA) && sk.RevocationSupported() && pk.RevocationSupported(), "matching revocation key pair")
	chk(sk.Counter == pk.Counter && sk.ExpiryDate == pk.ExpiryDate, "counter and expiry agree")
	return bad
}

func c16Params(ln uint) *SystemParameters {
	if p, ok := DefaultSystemParameters[int(ln)]; ok {
		return p
	}
	base := BaseParameters{LePrime: 120, Lh: 256, Lm: 256, Ln: ln, Lstatzk: 80}
	return &SystemParameters{BaseParameters: base, DerivedParameters: MakeDerivedParameters(base)}
}

func c16WaitGoroutines(baseline int) int {
	deadline := time.Now().Add(30 * time.Second)
	for {
		n := runtime.NumGoroutine()
		if n <= baseline || time.Now().After(deadline) {
			return n
		}
		time.Sleep(20 * time.Millisecond)
	}
}

func TestVerifC16Generator(t *testing.T) {
	r := vkit.Start(t, "C16", "whole-generator", 300*time.Second, 1500*time.Second)
	defer r.Finish()
	r.Rule = "GenerateKeyPair at Ln in {128,192,256} (thorough + 512) with 1..6 bases (quick: 1,3,6) under the scripted random source: every draw of the key-derivation part (S, exponents of Z and R_i; the safe-prime workers' reads are bypassed so that draw numbering is deterministic) forced to min / max / short, <= 1 deviation; plus default-randomness generations at 128..512 bits and one at 1024 bits; non-trivial = distinct (Ln, bases, deviation); oracle: full well-formedness predicate (safe primes, sizes, residues mod 8, quadratic residuosity via Jacobi symbols mod p and q, S generating QR_n, parameters, revocation pair, Validate) and no goroutine left running after return"
	env := venv.Install(r.Seed, "C16/gen")
	defer env.Restore()
	env.Bypass = func() bool {
		var pcs [32]uintptr
		n := runtime.Callers(2, pcs[:])
		fr := runtime.CallersFrames(pcs[:n])
		for {
			f, more := fr.Next()
			if strings.Contains(f.Function, "safeprime.Generate") {
				return true
			}
			if !more {
				return false
			}
		}
	}
	common.VerifSeedCPRNG([32]byte{16})
	lns := vkit.Pick([]uint{128, 192, 256}, []uint{128, 192, 256, 512})
	for _, ln := range lns {
		for _, bases := range vkit.Pick([]int{1, 3, 6}, []int{1, 2, 3, 4, 5, 6}) {
			if _, mine := r.Next(); !mine {
				continue
			}
			param := c16Params(ln)
			baseline := runtime.NumGoroutine()
			runs, _ := env.Explore(1, []venv.Answer{venv.Min, venv.Max, venv.Short}, func(devs []venv.Deviation) bool {
				var sk *PrivateKey
				var pk *PublicKey
				var err error
				pan, msg := vkit.Guard(func() { sk, pk, err = GenerateKeyPair(param, bases, 7, time.Unix(1900000000, 0)) })
				r.Eval()
				rep := map[string]any{"Ln": ln, "bases": bases, "env": fmt.Sprint(devs)}
				r.Nontrivial(fmt.Sprintf("%d|%d|%v", ln, bases, devs))
				if pan || err != nil {
					r.Violate("C16|generation-failed", fmt.Sprintf("%v: %s %v", rep, msg, err), rep)
					return true
				}
				if bad := c16KeyPredicate(sk, pk, param, bases); len(bad) > 0 {
					r.Violate("C16|malformed-key|"+bad[0], fmt.Sprintf("%v: violated: %v", rep, bad), rep)
				}
				if n := c16WaitGoroutines(baseline); n > baseline {
					r.Violate("C16|worker-left-running|free-running", fmt.Sprintf("%v: %d goroutines before, %d after (30 s grace)", rep, baseline, n), rep)
					baseline = n
				}
				devClass := "none"
				if len(devs) > 0 {
					devClass = devs[0].Ans.String()
				}
				r.Outcome(fmt.Sprintf("key ok:Ln=%d:bases=%d:deviation=%s:p mod 8=%d,q mod 8=%d", ln, bases, devClass, new(big.Int).Mod(sk.P, big.NewInt(8)).Int64(), new(big.Int).Mod(sk.Q, big.NewInt(8)).Int64()))
				return !r.Expired()
			})
			r.Sample(map[string]any{"Ln": ln, "bases": bases, "executions": runs, "explored_draws": env.Draws()})
		}
	}
	env.Bypass = nil
	env.Restore()
	// default randomness (smoke, reported as such)
	sizes := vkit.Pick([]uint{128, 256, 512}, []uint{128, 192, 256, 512, 1024})
	for _, ln := range sizes {
		if _, mine := r.Next(); !mine {
			continue
		}
		reps := 3
		if ln >= 512 {
			reps = 1
		}
		for i := 0; i < reps; i++ {
			param := c16Params(ln)
			baseline := runtime.NumGoroutine()
			sk, pk, err := GenerateKeyPair(param, 4, 1, time.Unix(1900000000, 0))
			r.Eval()
			r.Nontrivial(fmt.Sprintf("default|%d|%d", ln, i))
			if err != nil {
				r.Violate("C16|generation-failed", err.Error(), ln)
				continue
			}
			if bad := c16KeyPredicate(sk, pk, param, 4); len(bad) > 0 {
				r.Violate("C16|malformed-key|"+bad[0], fmt.Sprintf("Ln=%d default randomness: %v", ln, bad), ln)
			}
			if n := c16WaitGoroutines(baseline); n > baseline {
				r.Violate("C16|worker-left-running|free-running", fmt.Sprintf("Ln=%d: %d goroutines before, %d after", ln, baseline, n), ln)
			}
		}
	}
	r.Note("default-randomness generations are a smoke test (sampling), not part of the exhaustive claim")
}

// TestVerifC16Lengths: every even modulus length of a window, not only the multiples of 16 that the
// parameter tables use: sizes of byte buffers, bit masks and the length match of the product all depend
// on Ln mod 16.  Generation must return (a liveness horizon turns a generator that spins into a
// violation) with a well-formed key and no worker left.
func TestVerifC16Lengths(t *testing.T) {
	r := vkit.Start(t, "C16", "every-even-length", 200*time.Second, 900*time.Second)
	defer r.Finish()
	hi := uint(vkit.Pick(166, 230))
	r.Rule = fmt.Sprintf("GenerateKeyPair for EVERY even Ln in [128,%d] (prime sizes of every residue modulo 8) with 2 bases, default randomness, 4 generations each, and the odd lengths 129 and 143 (error or well-formed key, never an endless search) (a length class whose keys are malformed with probability p per generation escapes with (1-p)^12); non-trivial = distinct (Ln, repetition); oracle: returns within the liveness horizon (no evaluation completed for 150 s => non-termination), full well-formedness predicate, no goroutine left running", hi)
	cur := ""
	defer r.Watch(150*time.Second, func() string { return cur })()
	for ln := uint(128); ln <= hi; ln += 2 {
		if _, mine := r.Next(); !mine {
			continue
		}
		if r.Expired() {
			return
		}
		for rep := 0; rep < 4; rep++ {
			cur = fmt.Sprintf("GenerateKeyPair at Ln=%d (primes of %d bits)", ln, ln/2)
			param := c16Params(ln)
			baseline := runtime.NumGoroutine()
			sk, pk, err := GenerateKeyPair(param, 2, 1, time.Unix(1900000000, 0))
			r.Eval()
			r.Nontrivial(fmt.Sprintf("len|%d|%d", ln, rep))
			r.Outcome(fmt.Sprintf("Ln mod 16=%d:generated=%v", ln%16, err == nil))
			if err != nil {
				r.Violate("C16|generation-failed", fmt.Sprintf("Ln=%d: %v", ln, err), ln)
				continue
			}
			if bad := c16KeyPredicate(sk, pk, param, 2); len(bad) > 0 {
				r.Violate("C16|malformed-key|"+bad[0], fmt.Sprintf("Ln=%d: %v", ln, bad), ln)
			}
			if n := c16WaitGoroutines(baseline); n > baseline {
				r.Violate("C16|worker-left-running|free-running", fmt.Sprintf("Ln=%d: %d goroutines before, %d after", ln, baseline, n), ln)
			}
		}
	}
	// odd lengths: two primes of half the length cannot give such a modulus; generation must say so (or
	// deliver a well-formed key of exactly that length) - not search forever
	for _, ln := range []uint{129, 143} {
		if _, mine := r.Next(); !mine {
			continue
		}
		cur = fmt.Sprintf("GenerateKeyPair at odd Ln=%d", ln)
		param := c16Params(ln)
		baseline := runtime.NumGoroutine()
		sk, pk, err := GenerateKeyPair(param, 2, 1, time.Unix(1900000000, 0))
		r.Eval()
		r.Nontrivial(fmt.Sprintf("len|%d", ln))
		r.Outcome(fmt.Sprintf("odd Ln:generated=%v", err == nil))
		if err == nil {
			if bad := c16KeyPredicate(sk, pk, param, 2); len(bad) > 0 {
				r.Violate("C16|malformed-key|"+bad[0], fmt.Sprintf("Ln=%d: %v", ln, bad), ln)
			}
		}
		if n := c16WaitGoroutines(baseline); n > baseline {
			r.Violate("C16|worker-left-running|free-running", fmt.Sprintf("Ln=%d: %d goroutines before, %d after", ln, baseline, n), ln)
		}
	}
}

// TestVerifC16Procs: key generation under processor settings other than the default - the number of
// safe-prime workers follows the runtime's setting, and generation has to terminate with every one.
func TestVerifC16Procs(t *testing.T) {
	r := vkit.Start(t, "C16", "processor-settings", 200*time.Second, 600*time.Second)
	defer r.Finish()
	n := runtime.NumCPU()
	r.Rule = fmt.Sprintf("GenerateKeyPair at Ln=128 and 140 with GOMAXPROCS in {1, 2, 3, NumCPU+1} (NumCPU = %d under the runner's affinity mask), 2 generations each; non-trivial = distinct (setting, Ln, repetition); oracle: returns (no evaluation completed for 150 s => non-termination), well-formedness predicate, no goroutine left running", n)
	cur := ""
	defer r.Watch(150*time.Second, func() string { return cur })()
	old := runtime.GOMAXPROCS(0)
	defer runtime.GOMAXPROCS(old)
	seen := map[int]bool{}
	for _, procs := range []int{1, 2, 3, n + 1} {
		if seen[procs] {
			continue
		}
		seen[procs] = true
		runtime.GOMAXPROCS(procs)
		for _, ln := range []uint{128, 140} {
			for rep := 0; rep < 2; rep++ {
				cur = fmt.Sprintf("GenerateKeyPair at Ln=%d with GOMAXPROCS=%d (NumCPU=%d)", ln, procs, n)
				param := c16Params(ln)
				baseline := runtime.NumGoroutine()
				sk, pk, err := GenerateKeyPair(param, 2, 1, time.Unix(1900000000, 0))
				r.Eval()
				r.Nontrivial(fmt.Sprintf("procs|%d|%d|%d", procs, ln, rep))
				r.Outcome(fmt.Sprintf("GOMAXPROCS=%d:generated=%v", procs, err == nil))
				if err != nil {
					r.Violate("C16|generation-failed|processor-setting", fmt.Sprintf("%s: %v", cur, err), cur)
					continue
				}
				if bad := c16KeyPredicate(sk, pk, param, 2); len(bad) > 0 {
					r.Violate("C16|malformed-key|"+bad[0], fmt.Sprintf("%s: %v", cur, bad), cur)
				}
				if m := c16WaitGoroutines(baseline); m > baseline {
					r.Violate("C16|worker-left-running|free-running", fmt.Sprintf("%s: %d goroutines before, %d after", cur, baseline, m), cur)
				}
			}
		}
	}
}
