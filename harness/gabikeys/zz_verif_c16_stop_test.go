//go:build verif

package gabikeys

// C16 / C20 (c) — the safe-prime worker stop protocol, explored under the controlled scheduler:
// real safeprime.GenerateConcurrent + real consumer generateSafePrimePair, GOMAXPROCS 2 and 3
// (= number of workers), prime streams of 3..6 scripted entries, with an endless tail or a failing
// random source at the end; every interleaving up to the preemption bound.

import (
	"crypto/rand"
	"errors"
	"fmt"
	"runtime"
	"strings"
	"sync"
	"testing"
	"time"

	"github.com/privacybydesign/gabi/big"
	"github.com/privacybydesign/gabi/internal/verif/vkit"
	"github.com/privacybydesign/gabi/internal/verif/vsched"
)

func c16Prime(n int64) bool {
	if n < 2 {
		return false
	}
	for d := int64(2); d*d <= n; d++ {
		if n%d == 0 {
			return false
		}
	}
	return true
}

// c16Classes returns, for 16-bit safe primes p=2q+1 (q with its two top bits set, as the generator
// produces them), one representative per class (q mod 8, p mod 8).
func c16Classes() map[string][]int64 {
	out := map[string][]int64{}
	for q := int64(3 << 13); q < 1<<15; q++ {
		if c16Prime(q) && c16Prime(2*q+1) {
			k := fmt.Sprintf("q%d", q%8)
			out[k] = append(out[k], q)
		}
	}
	return out
}

// stream entry: the q to hand to the next Generate call; after the script: tail q (repeated
// forever) or an error.
type c16Reader struct {
	mu     sync.Mutex
	script []int64
	tail   []int64 // cycled forever after the script; empty => error after the script
	reads  int
}

var errC16 = errors.New("verif: injected random source failure")

func (c *c16Reader) Read(p []byte) (int, error) {
	c.mu.Lock()
	defer c.mu.Unlock()
	c.reads++
	var q int64
	if len(c.script) > 0 {
		q, c.script = c.script[0], c.script[1:]
	} else if len(c.tail) > 0 {
		q = c.tail[c.reads%len(c.tail)]
	} else {
		return 0, errC16
	}
	if len(p) != 2 {
		return 0, fmt.Errorf("verif: unexpected read of %d bytes", len(p))
	}
	p[0], p[1] = byte(q>>8), byte(q)
	return 2, nil
}

type c16Stream struct {
	name   string
	script []int64
	tail   []int64
}

func c16Streams() []c16Stream {
	cl := c16Classes()
	pick := func(k string, i int) int64 { return cl[k][i%len(cl[k])] }
	// q mod 8 == 1 is refused by the consumer; p = 2q+1: q%8=3 -> p%8=7, q%8=5 -> p%8=3, q%8=7 -> p%8=7
	r1, a3, b3, c5, d7 := pick("q1", 0), pick("q3", 0), pick("q3", 1), pick("q5", 0), pick("q7", 0)
	return []c16Stream{
		// endless tails alternate two residue classes, so that any two consecutive tail primes match
		// and an unfair schedule cannot postpone the consumer's success for long
		{"match-at-2 then endless", []int64{a3, c5}, []int64{d7, c5}},
		{"refused,A,sameclass,match then endless", []int64{r1, a3, b3, c5}, []int64{a3, c5}},
		{"A,sameclass(7),sameclass,match,extra,extra then endless", []int64{a3, d7, b3, c5, a3, d7}, []int64{c5, d7}},
		{"A,match then failing source", []int64{a3, c5}, nil},
		{"A,sameclass then failing source (no pair)", []int64{a3, b3, d7}, nil},
		{"failing source at once", nil, nil},
	}
}

func TestVerifC16Stop(t *testing.T) {
	r := vkit.Start(t, "C16", "stop-protocol", 240*time.Second, 1500*time.Second)
	defer r.Finish()
	r.Rule = "generateSafePrimePair over real safeprime.GenerateConcurrent with 2 and 3 workers (GOMAXPROCS), 6 scripted prime streams (residue classes chosen to hit: refused p', same class, match; endless tail or failing random source), every interleaving of the instrumented channel operations with <= B preemptions (select among ready cases is a data choice); non-trivial = distinct (workers,stream,schedule); oracle: no panic (double close), no deadlock, at quiescence no worker or stopper thread alive, a returned pair satisfies the documented conditions"
	bound := vkit.Pick(2, 3)
	r.Bounds["max_preemptions"] = bound
	prevR := rand.Reader
	defer func() { rand.Reader = prevR }()
	prevP := runtime.GOMAXPROCS(0)
	defer runtime.GOMAXPROCS(prevP)
	param := &SystemParameters{BaseParameters: BaseParameters{Ln: 32}}
	deadline := time.Now().Add(time.Duration(r.Bounds["budget_s"].(float64)) * time.Second)
	for _, workers := range []int{2, 3} {
		for si, st := range c16Streams() {
			// the space grows quickly with stream length and workers.  quick: 2 workers with 2
			// preemptions on the short streams and 1 on the long ones, 3 workers with 1 preemption on
			// three streams; thorough: one more preemption everywhere and every stream
			b := bound
			if len(st.script) > 3 {
				b--
			}
			if workers == 3 {
				b--
				if !vkit.Thorough() && si != 0 && si != 3 && si != 5 {
					continue
				}
			}
			runtime.GOMAXPROCS(workers)
			var p, q *big.Int
			var err error
			var reader *c16Reader
			fresh := func() vsched.Scenario {
				reader = &c16Reader{script: append([]int64{}, st.script...), tail: st.tail}
				rand.Reader = reader
				p, q, err = nil, nil, nil
				return vsched.Scenario{Body: func() {
					p, q, err = generateSafePrimePair(param)
				}, Check: func(x *vsched.Exec) {
					r.Eval()
					r.Nontrivial(fmt.Sprintf("%d|%d|%v", workers, si, x.Choices))
					sig, detail := "", ""
					switch {
					case x.Horizon:
						r.Outcome("horizon (unfair schedule cut, not judged)")
						r.Count("executions cut by the step horizon", 1)
						return
					case len(x.Panics) > 0:
						sig, detail = "panic", strings.Join(x.Panics, "; ")
					case x.Deadlock && p == nil && err == nil:
						sig, detail = "deadlock", strings.Join(x.Blocked, "; ")
					case x.Deadlock:
						sig, detail = "worker-left-running", "after generateSafePrimePair returned these threads are blocked forever: "+strings.Join(x.Blocked, "; ")
					case err == nil:
						// returned pair: documented conditions
						pp, qq := p.Int64(), q.Int64()
						ok := c16Prime(pp) && c16Prime(qq) && c16Prime(pp/2) && c16Prime(qq/2) && pp != qq &&
							pp%8 != qq%8 && (pp/2)%8 != 1 && (qq/2)%8 != 1 && new(big.Int).Mul(p, q).BitLen() == 32
						if !ok {
							sig, detail = "malformed-prime-pair", fmt.Sprintf("p=%d q=%d", pp, qq)
						}
					}
					out := "error-returned"
					if err == nil {
						out = "pair"
					}
					if sig != "" {
						out = sig
					}
					r.Outcome(fmt.Sprintf("%s|reads=%d", out, reader.reads))
					if sig != "" {
						r.Violate("C16|stop-protocol|"+sig, fmt.Sprintf("workers=%d stream=%q schedule=%v: %s", workers, st.name, x.Choices, detail),
							map[string]any{"workers": workers, "stream": st.name, "choices": x.Choices, "trace": x.Trace})
					}
				}}
			}
			res := vsched.Explore(vsched.Options{MaxPreemptions: b, Deadline: deadline, Shard: r.Shard, Shards: r.Shards, MaxSteps: 400}, fresh)
			r.Schedules += int64(res.Executions)
			r.States += res.Points + res.DataPoints
			r.Transitions += res.Points + res.DataPoints
			r.Traces += int64(res.Executions)
			r.Sample(map[string]any{"workers": workers, "stream": st.name, "executions": res.Executions, "scheduling_points": res.Points, "select_data_choices": res.DataPoints, "max_preemptions": b, "horizon_cuts": res.Horizons, "threads": res.MaxThreads, "complete": res.Complete})
			if res.Diverged != "" {
				r.HarnessError("workers=%d stream %q: %s", workers, st.name, res.Diverged)
				return
			}
			if !res.Complete {
				r.Cap(fmt.Sprintf("workers=%d stream %q: %s after %d executions", workers, st.name, res.Cap, res.Executions))
			}
		}
	}
}
