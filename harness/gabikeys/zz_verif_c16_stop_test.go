//go:build verif

package gabikeys

// C16 / C20 (c) — the safe-prime worker stop protocol, explored under the controlled scheduler:
// real safeprime.GenerateConcurrent + real consumer generateSafePrimePair, GOMAXPROCS 2 and 3
// (= number of workers), prime streams of 3..6 scripted entries, with an endless tail or a failing
// random source at the end; every interleaving up to the preemption bound.

import (
	"crypto/rand"
	"errors"
	"fmt"
	"os"
	"runtime"
	"strings"
	"sync"
	"testing"
	"time"

	"github.com/privacybydesign/gabi/big"
	"github.com/privacybydesign/gabi/internal/verif/vkit"
	"github.com/privacybydesign/gabi/internal/verif/vsched"
	"github.com/privacybydesign/gabi/safeprime"
)

func c16Prime(n int64) bool {
	if n < 2 {
		return false
	}
	for d := int64(2); d*d <= n; d++ {
		if n%d == 0 {
			return false
		}
	}
	return true
}

// c16Classes returns, for 16-bit safe primes p=2q+1 (q with its two top bits set, as the generator
// produces them), one representative per class (q mod 8, p mod 8).
func c16Classes() map[string][]int64 {
	out := map[string][]int64{}
	for q := int64(3 << 13); q < 1<<15; q++ {
		if c16Prime(q) && c16Prime(2*q+1) {
			k := fmt.Sprintf("q%d", q%8)
			out[k] = append(out[k], q)
		}
	}
	return out
}

// stream entry: the q to hand to the next Generate call; after the script: tail q (repeated
// forever) or an error.
type c16Reader struct {
	mu     sync.Mutex
	script []int64
	tail   []int64 // cycled forever after the script; empty => error after the script
	reads  int
}

var errC16 = errors.New("verif: injected random source failure")

func (c *c16Reader) Read(p []byte) (int, error) {
	c.mu.Lock()
	defer c.mu.Unlock()
	c.reads++
	var q int64
	if len(c.script) > 0 {
		q, c.script = c.script[0], c.script[1:]
	} else if len(c.tail) > 0 {
		q = c.tail[c.reads%len(c.tail)]
	} else {
		return 0, errC16
	}
	if len(p) != 2 {
		return 0, fmt.Errorf("verif: unexpected read of %d bytes", len(p))
	}
	p[0], p[1] = byte(q>>8), byte(q)
	return 2, nil
}

type c16Stream struct {
	name   string
	script []int64
	tail   []int64
}

func c16Streams() []c16Stream {
	cl := c16Classes()
	pick := func(k string, i int) int64 { return cl[k][i%len(cl[k])] }
	// q mod 8 == 1 is refused by the consumer; p = 2q+1: q%8=3 -> p%8=7, q%8=5 -> p%8=3, q%8=7 -> p%8=7
	r1, a3, b3, c5, d7 := pick("q1", 0), pick("q3", 0), pick("q3", 1), pick("q5", 0), pick("q7", 0)
	return []c16Stream{
		// endless tails alternate two residue classes, so that any two consecutive tail primes match
		// and an unfair schedule cannot postpone the consumer's success for long
		{"match-at-2 then endless", []int64{a3, c5}, []int64{d7, c5}},
		{"refused,A,sameclass,match then endless", []int64{r1, a3, b3, c5}, []int64{a3, c5}},
		{"A,sameclass(7),sameclass,match,extra,extra then endless", []int64{a3, d7, b3, c5, a3, d7}, []int64{c5, d7}},
		{"A,match then failing source", []int64{a3, c5}, nil},
		{"A,sameclass then failing source (no pair)", []int64{a3, b3, d7}, nil},
		{"failing source at once", nil, nil},
	}
}

// c16Explore runs an exploration.  The random source of these scenarios never blocks and every
// operation a worker may wait in is a scheduling point, so a thread that the scheduler released and
// that does not come back to a scheduling point for vsched.StallTimeout (a minute; thousands of
// candidates take milliseconds) is a worker running through candidates without ever looking at its
// stop channel again.  That is reported; the process then ends, since the goroutine cannot be stopped.
func c16Explore(r *vkit.Report, prop, scenario string, opt vsched.Options, fresh func() vsched.Scenario) vsched.Result {
	defer func() {
		e := recover()
		if e == nil {
			return
		}
		msg := fmt.Sprint(e)
		if !strings.Contains(msg, "HARNESS-STALL") {
			panic(e)
		}
		where := "?"
		lines := strings.Split(msg, "\n")
		for i, l := range lines {
			// the goroutine that is inside the candidate loop (not one parked at a scheduling point)
			if strings.Contains(l, "safeprime.Generate(") && i+1 < len(lines) {
				l = strings.TrimSpace(lines[i+1])
				if j := strings.LastIndex(l, "/"); j >= 0 {
					l = l[j+1:]
				}
				if j := strings.Index(l, " "); j >= 0 {
					l = l[:j]
				}
				where = l
				break
			}
		}
		head := msg
		if i := strings.Index(head, "goroutine "); i > 0 {
			head = head[:i]
		}
		r.Violate(prop+"|stop-protocol|worker-runs-on-without-looking-at-stop", fmt.Sprintf("%s: a worker did not reach any scheduling point (stop check, result hand-over) for %v while candidates keep coming; innermost library frame %s; %s", scenario, vsched.StallTimeout, where, head), map[string]any{"scenario": scenario})
		r.Cap("aborted: a worker of the code under test spins")
		r.Finish()
		os.Exit(0)
	}()
	return vsched.Explore(opt, fresh)
}

func TestVerifC16Stop(t *testing.T) {
	r := vkit.Start(t, "C16", "stop-protocol", 240*time.Second, 1500*time.Second)
	defer r.Finish()
	r.Rule = "generateSafePrimePair over real safeprime.GenerateConcurrent with 2 and 3 workers (GOMAXPROCS), 6 scripted prime streams (residue classes chosen to hit: refused p', same class, match; endless tail or failing random source), every interleaving of the instrumented channel operations with <= B preemptions (select among ready cases is a data choice); non-trivial = distinct (workers,stream,schedule); oracle: no panic (double close), no deadlock, at quiescence no worker or stopper thread alive, a returned pair satisfies the documented conditions"
	bound := vkit.Pick(2, 3)
	r.Bounds["max_preemptions"] = bound
	prevR := rand.Reader
	defer func() { rand.Reader = prevR }()
	prevP := runtime.GOMAXPROCS(0)
	defer runtime.GOMAXPROCS(prevP)
	param := &SystemParameters{BaseParameters: BaseParameters{Ln: 32}}
	deadline := time.Now().Add(time.Duration(r.Bounds["budget_s"].(float64)) * time.Second)
	for _, workers := range []int{2, 3} {
		for si, st := range c16Streams() {
			// the space grows quickly with stream length and workers.  quick: 2 workers with 2
			// preemptions on the short streams and 1 on the long ones, 3 workers with 1 preemption on
			// three streams; thorough: one more preemption everywhere and every stream
			b := bound
			if len(st.script) > 3 {
				b--
			}
			if workers == 3 {
				b--
				if !vkit.Thorough() && si != 0 && si != 3 && si != 5 {
					continue
				}
			}
			runtime.GOMAXPROCS(workers)
			var p, q *big.Int
			var err error
			var reader *c16Reader
			fresh := func() vsched.Scenario {
				reader = &c16Reader{script: append([]int64{}, st.script...), tail: st.tail}
				rand.Reader = reader
				p, q, err = nil, nil, nil
				return vsched.Scenario{Body: func() {
					p, q, err = generateSafePrimePair(param)
				}, Check: func(x *vsched.Exec) {
					r.Eval()
					r.Nontrivial(fmt.Sprintf("%d|%d|%v", workers, si, x.Choices))
					sig, detail := "", ""
					switch {
					case x.Horizon:
						r.Outcome("horizon (unfair schedule cut, not judged)")
						r.Count("executions cut by the step horizon", 1)
						return
					case len(x.Panics) > 0:
						sig, detail = "panic", strings.Join(x.Panics, "; ")
					case x.Deadlock && p == nil && err == nil:
						sig, detail = "deadlock", strings.Join(x.Blocked, "; ")
					case x.Deadlock:
						sig, detail = "worker-left-running", "after generateSafePrimePair returned these threads are blocked forever: "+strings.Join(x.Blocked, "; ")
					case err == nil:
						// returned pair: documented conditions
						pp, qq := p.Int64(), q.Int64()
						ok := c16Prime(pp) && c16Prime(qq) && c16Prime(pp/2) && c16Prime(qq/2) && pp != qq &&
							pp%8 != qq%8 && (pp/2)%8 != 1 && (qq/2)%8 != 1 && new(big.Int).Mul(p, q).BitLen() == 32
						if !ok {
							sig, detail = "malformed-prime-pair", fmt.Sprintf("p=%d q=%d", pp, qq)
						}
					}
					out := "error-returned"
					if err == nil {
						out = "pair"
					}
					if sig != "" {
						out = sig
					}
					r.Outcome(fmt.Sprintf("%s|reads=%d", out, reader.reads))
					if sig != "" {
						r.Violate("C16|stop-protocol|"+sig, fmt.Sprintf("workers=%d stream=%q schedule=%v: %s", workers, st.name, x.Choices, detail),
							map[string]any{"workers": workers, "stream": st.name, "choices": x.Choices, "trace": x.Trace})
					}
				}}
			}
			res := c16Explore(r, "C16", fmt.Sprintf("workers=%d stream=%q", workers, st.name), vsched.Options{MaxPreemptions: b, Deadline: deadline, Shard: r.Shard, Shards: r.Shards, MaxSteps: 400}, fresh)
			r.Schedules += int64(res.Executions)
			r.States += res.Points + res.DataPoints
			r.Transitions += res.Points + res.DataPoints
			r.Traces += int64(res.Executions)
			r.Sample(map[string]any{"workers": workers, "stream": st.name, "executions": res.Executions, "scheduling_points": res.Points, "select_data_choices": res.DataPoints, "max_preemptions": b, "horizon_cuts": res.Horizons, "threads": res.MaxThreads, "complete": res.Complete})
			if res.Diverged != "" {
				r.HarnessError("workers=%d stream %q: %s", workers, st.name, res.Diverged)
				return
			}
			if !res.Complete {
				r.Cap(fmt.Sprintf("workers=%d stream %q: %s after %d executions", workers, st.name, res.Cap, res.Executions))
			}
		}
	}
}

// TestVerifC16StopDrain: safeprime.GenerateConcurrent with a consumer of the harness's own: it takes the
// first result, closes stop and leaves.  The random source then only yields composites, so the remaining
// workers are inside Generate when the stop arrives and come back empty-handed.  At quiescence the result
// channel is drained: everything a worker ever put there must be a safe prime of the requested size - a
// worker that has been told to stop has nothing to deliver.
func TestVerifC16StopDrain(t *testing.T) {
	prop := vkit.PropertyOr("C16") // also a unit of C20 (results of parallel generation)
	r := vkit.Start(t, prop, "stop-protocol-drain", 200*time.Second, 900*time.Second)
	defer r.Finish()
	r.Rule = "safeprime.GenerateConcurrent(16 bits) with 2 workers (thorough: and 3); random source = 1 or 2 scripted safe primes followed by composites only; consumer takes one result, closes stop, leaves; every interleaving of the instrumented channel operations with <= B preemptions (select among ready cases is a data choice; spinning workers are cut by the step horizon); non-trivial = distinct (workers, stream, schedule); oracle: no panic, no thread left blocked, and at quiescence every value in the result channel is a non-nil 16-bit safe prime"
	bound := vkit.Pick(1, 2)
	r.Bounds["max_preemptions"] = bound
	prevR := rand.Reader
	defer func() { rand.Reader = prevR }()
	prevP := runtime.GOMAXPROCS(0)
	defer runtime.GOMAXPROCS(prevP)
	cl := c16Classes()
	a3, c5 := cl["q3"][0], cl["q5"][0]
	deadline := time.Now().Add(time.Duration(r.Bounds["budget_s"].(float64)) * time.Second)
	for _, workers := range vkit.Pick([]int{2}, []int{2, 3}) {
		for si, script := range [][]int64{{a3}, {a3, c5}} {
			runtime.GOMAXPROCS(workers)
			var ints <-chan *big.Int
			var first *big.Int
			var gotErr error
			fresh := func() vsched.Scenario {
				rand.Reader = &c16Reader{script: append([]int64{}, script...), tail: []int64{9, 15, 21}}
				ints, first, gotErr = nil, nil, nil
				return vsched.Scenario{Body: func() {
					stop := make(chan struct{})
					var errs <-chan error
					ints, errs = safeprime.GenerateConcurrent(16, stop)
					switch vsched.Select(false, vsched.R(ints), vsched.R(errs)) {
					case 0:
						first = <-ints
					case 1:
						gotErr = <-errs
					}
					vsched.Close(stop)
					close(stop)
				}, Check: func(x *vsched.Exec) {
					r.Eval()
					r.Nontrivial(fmt.Sprintf("drain|%d|%d|%v", workers, si, x.Choices))
					if x.Horizon {
						r.Outcome("horizon (a worker spins while the consumer is not scheduled: cut, not judged)")
						return
					}
					sig, detail := "", ""
					switch {
					case len(x.Panics) > 0:
						sig, detail = "panic", strings.Join(x.Panics, "; ")
					case x.Deadlock:
						sig, detail = "worker-left-running", strings.Join(x.Blocked, "; ")
					case gotErr != nil:
						sig, detail = "unexpected-error", gotErr.Error()
					default:
						vals := []*big.Int{first}
					drain:
						for {
							select {
							case v := <-ints:
								vals = append(vals, v)
							default:
								break drain
							}
						}
						for i, v := range vals {
							if v == nil {
								sig, detail = "nil-on-the-result-channel", fmt.Sprintf("value %d of %d delivered by the workers is nil", i, len(vals))
							} else if v.BitLen() != 16 || !c16Prime(v.Int64()) || !c16Prime(v.Int64()/2) {
								sig, detail = "not-a-safe-prime-on-the-result-channel", v.String()
							}
						}
						r.Outcome(fmt.Sprintf("values delivered=%d", len(vals)))
					}
					if sig != "" {
						r.Outcome(sig)
						r.Violate(prop+"|stop-protocol|"+sig, fmt.Sprintf("workers=%d script=%v schedule=%v: %s", workers, script, x.Choices, detail), map[string]any{"workers": workers, "script": script, "choices": x.Choices})
					}
				}}
			}
			res := c16Explore(r, prop, fmt.Sprintf("drain workers=%d script=%v", workers, script), vsched.Options{MaxPreemptions: bound, Deadline: deadline, Shard: r.Shard, Shards: r.Shards, MaxSteps: 40}, fresh)
			r.Schedules += int64(res.Executions)
			r.States += res.Points + res.DataPoints
			r.Transitions += res.Points + res.DataPoints
			r.Traces += int64(res.Executions)
			r.Sample(map[string]any{"drain": true, "workers": workers, "script": script, "executions": res.Executions, "horizon_cuts": res.Horizons, "complete": res.Complete})
			if res.Diverged != "" {
				r.HarnessError("drain workers=%d: %s", workers, res.Diverged)
				return
			}
			if !res.Complete {
				r.Cap(fmt.Sprintf("drain workers=%d script %v: %s after %d executions", workers, script, res.Cap, res.Executions))
			}
		}
	}
}
