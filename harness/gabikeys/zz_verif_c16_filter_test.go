//go:build verif

package gabikeys

// C16 - the pair-selection logic (findMatch) and the filter over scripted prime streams.  Kept in a
// unit of its own: it calls findMatch directly, so a tree that changes that unexported signature only
// loses this unit, not the whole check.

import (
	"crypto/rand"
	"fmt"
	"runtime"
	"testing"
	"time"

	"github.com/privacybydesign/gabi/big"
	"github.com/privacybydesign/gabi/internal/verif/vkit"
)

func c16PairOK(p, q int64, ln uint) bool {
	return c16Prime(p) && c16Prime(q) && c16Prime(p/2) && c16Prime(q/2) && p != q && p%8 != q%8 && (p/2)%8 != 1 && (q/2)%8 != 1 &&
		uint(new(big.Int).Mul(big.NewInt(p), big.NewInt(q)).BitLen()) == ln
}

func TestVerifC16Filter(t *testing.T) {
	r := vkit.Start(t, "C16", "pair-selection", 200*time.Second, 900*time.Second)
	defer r.Finish()
	r.Rule = "generateSafePrimePair (one worker, scripted random source) on EVERY stream of length <= L over an alphabet of 16-bit safe primes with one or two representatives per class of q mod 8 (1: refused, 3 and 7: same p mod 8, 5: other); findMatch on every ordered pair of ALL 16-bit safe primes (incl. products one bit short) for Ln in {31,32}; non-trivial = distinct stream / pair; oracle: reference selection rule (first prime that finds an earlier stored admissible partner, in order) and the documented pair conditions"
	prevR := rand.Reader
	defer func() { rand.Reader = prevR }()
	prevP := runtime.GOMAXPROCS(1)
	defer runtime.GOMAXPROCS(prevP)
	cl := c16Classes()
	alpha := []int64{cl["q1"][0], cl["q3"][0], cl["q3"][1], cl["q5"][0], cl["q7"][0], cl["q5"][1]}
	L := vkit.Pick(4, 5)
	r.Bounds["max_stream"] = L
	param := &SystemParameters{BaseParameters: BaseParameters{Ln: 32}}
	baselineG := runtime.NumGoroutine()
	var rec func(stream []int64)
	rec = func(stream []int64) {
		if len(stream) > 0 {
			if _, mine := r.Next(); mine {
				// reference selection
				var stored []int64
				var wantP, wantQ int64
				for _, q := range stream {
					if q%8 == 1 {
						continue
					}
					p := 2*q + 1
					found := int64(0)
					for _, sp := range stored {
						if sp%8 != p%8 && new(big.Int).Mul(big.NewInt(p), big.NewInt(sp)).BitLen() == 32 {
							found = sp
							break
						}
					}
					if found != 0 {
						wantP, wantQ = p, found
						break
					}
					stored = append(stored, p)
				}
				// after the script: a few primes the consumer refuses (q = 1 mod 8), then a failing source.
				// The fillers make sure every scripted prime has been consumed before the error can win
				// the consumer's select (which of two ready cases Go picks is not ours to decide here).
				script := append([]int64{}, stream...)
				for i := 0; i < 4; i++ {
					script = append(script, cl["q1"][0])
				}
				reader := &c16Reader{script: script}
				// workers of the previous run may still be finishing: they read the global random source,
				// so let them go before the next script is installed
				c16WaitGoroutines(baselineG)
				rand.Reader = reader
				var p, q *big.Int
				var err error
				pan, msg := vkit.Guard(func() { p, q, err = generateSafePrimePair(param) })
				r.Eval()
				r.Nontrivial(fmt.Sprint(stream))
				rep := map[string]any{"stream_q": stream}
				switch {
				case pan:
					r.Violate("C16|pair-selection|panic", msg, rep)
				case wantP == 0:
					if err == nil {
						r.Violate("C16|pair-selection|pair-returned-from-inadmissible-stream", fmt.Sprintf("stream %v: got (%v,%v)", stream, p, q), rep)
					}
				case err != nil:
					r.Violate("C16|pair-selection|admissible-pair-missed", fmt.Sprintf("stream %v: expected (%d,%d), got error %v", stream, wantP, wantQ, err), rep)
				case p.Int64() != wantP || q.Int64() != wantQ:
					if !c16PairOK(p.Int64(), q.Int64(), 32) {
						r.Violate("C16|pair-selection|malformed-pair", fmt.Sprintf("stream %v: got (%v,%v)", stream, p, q), rep)
					} else {
						r.Violate("C16|pair-selection|not-the-first-admissible-pair", fmt.Sprintf("stream %v: got (%v,%v), rule gives (%d,%d)", stream, p, q, wantP, wantQ), rep)
					}
				case !c16PairOK(wantP, wantQ, 32):
					r.Violate("C16|pair-selection|malformed-pair", fmt.Sprintf("stream %v: (%d,%d)", stream, wantP, wantQ), rep)
				}
				r.Outcome(fmt.Sprintf("pair=%v", wantP != 0))
			}
		}
		if len(stream) == L {
			return
		}
		for _, a := range alpha {
			rec(append(append([]int64{}, stream...), a))
		}
	}
	rec(nil)
	r.Sample(map[string]any{"alphabet_q": alpha, "max_len": L})
	// findMatch on all 16-bit safe primes
	var sps []*big.Int
	for p := int64(1 << 15); p < 1<<16; p++ {
		if c16Prime(p) && c16Prime(p/2) {
			sps = append(sps, big.NewInt(p))
		}
	}
	for p := int64(1 << 14); p < 1<<15; p++ { // 15-bit safe primes: products one or two bits short
		if c16Prime(p) && c16Prime(p/2) {
			sps = append(sps, big.NewInt(p))
		}
	}
	n, a, b := new(big.Int), new(big.Int), new(big.Int)
	for _, ln := range []uint{31, 32} {
		prm := &SystemParameters{BaseParameters: BaseParameters{Ln: ln}}
		for i, p := range sps {
			if _, mine := r.Next(); !mine {
				continue
			}
			for j := range sps {
				r.Eval()
				got := findMatch(sps[j:j+1], prm, p, n, a, b)
				want := uint(new(big.Int).Mul(p, sps[j]).BitLen()) == ln && p.Int64()%8 != sps[j].Int64()%8
				if (got != nil) != want {
					r.Violate("C16|findMatch|wrong-verdict", fmt.Sprintf("findMatch(p=%v, q=%v, Ln=%d) = %v, want match=%v", p, sps[j], ln, got, want), []int64{p.Int64(), sps[j].Int64(), int64(ln)})
				}
			}
			// first match in list order
			got := findMatch(sps, prm, p, n, a, b)
			var want *big.Int
			for _, q := range sps {
				if uint(new(big.Int).Mul(p, q).BitLen()) == ln && p.Int64()%8 != q.Int64()%8 {
					want = q
					break
				}
			}
			if (got == nil) != (want == nil) || got != nil && got.Cmp(want) != 0 {
				r.Violate("C16|findMatch|not-first-match", fmt.Sprintf("p=%v Ln=%d: got %v want %v", p, ln, got, want), p.Int64())
			}
			r.Nontrivial(fmt.Sprintf("fm|%d|%d", ln, i))
		}
	}
	r.Sample(map[string]any{"findMatch_primes": len(sps), "Ln": []int{31, 32}})
}

// c16KeyPredicate: the full well-formedness predicate of the property.
