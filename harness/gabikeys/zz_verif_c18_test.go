//go:build verif

package gabikeys

// C18 (keys and key files) — XML round trip identity; every single-element deletion, negation,
// garbling, count mismatch, unsupported modulus length and inconsistent prime of a key document is
// refused with an error by every reading entry point; a private-key file is never left readable
// by group or others.

import (
	"fmt"
	"os"
	"path/filepath"
	"regexp"
	"strings"
	"syscall"
	"testing"
	"time"

	"github.com/privacybydesign/gabi/big"
	"github.com/privacybydesign/gabi/internal/verif/vkit"
)

func c18Keys(t *testing.T, bases int, revocation bool) (*PrivateKey, *PublicKey) {
	// a fixed 1024-bit key (the repository's own test key) with synthetic bases
	p, _ := new(big.Int).SetString("12511561644521105216249960315425509848310543851123625148071038103672749250653050780946327920540373585150518830678888836864183842100121288018131086700947919", 10)
	q, _ := new(big.Int).SetString("13175754961224278923898419496296790582860213842149399404614891067426616055648139811854869087421318470521236911637912285993998784296429335994419545592486183", 10)
	sk, err := NewPrivateKey(p, q, "", 3, time.Unix(1900000000, 0))
	if err != nil {
		t.Fatal(err)
	}
	S := new(big.Int).Exp(big.NewInt(4), big.NewInt(3), sk.N)
	R := make([]*big.Int, bases)
	for i := range R {
		R[i] = new(big.Int).Exp(S, big.NewInt(int64(1000+i)), sk.N)
	}
	pk, err := NewPublicKey(sk.N, new(big.Int).Exp(S, big.NewInt(77), sk.N), S, nil, nil, R, "", 3, time.Unix(1900000000, 0))
	if err != nil {
		t.Fatal(err)
	}
	if revocation {
		if err := GenerateRevocationKeypair(sk, pk); err != nil {
			t.Fatal(err)
		}
	}
	return sk, pk
}

func c18PubEqual(a, b *PublicKey) string {
	cmp := func(name string, x, y *big.Int) string {
		if (x == nil) != (y == nil) || x != nil && x.Cmp(y) != 0 {
			return name
		}
		return ""
	}
	for _, s := range []string{cmp("N", a.N, b.N), cmp("Z", a.Z, b.Z), cmp("S", a.S, b.S), cmp("G", a.G, b.G), cmp("H", a.H, b.H)} {
		if s != "" {
			return s
		}
	}
	if len(a.R) != len(b.R) {
		return "len(R)"
	}
	for i := range a.R {
		if a.R[i].Cmp(b.R[i]) != 0 {
			return fmt.Sprintf("R[%d]", i)
		}
	}
	if a.Counter != b.Counter || a.ExpiryDate != b.ExpiryDate || a.EpochLength != b.EpochLength || a.ECDSAString != b.ECDSAString {
		return "metadata"
	}
	if (a.ECDSA == nil) != (b.ECDSA == nil) || a.ECDSA != nil && !a.ECDSA.Equal(b.ECDSA) {
		return "ECDSA"
	}
	if a.Params != b.Params {
		return "Params"
	}
	return ""
}

func TestVerifC18KeyRoundTrip(t *testing.T) {
	r := vkit.Start(t, "C18", "key-xml-round-trip", 100*time.Second, 400*time.Second)
	defer r.Finish()
	r.Rule = "keys with 0..20 bases x revocation parts present/absent: written as XML and read back through FromXML / FromBytes / FromFile (public) and FromXML / FromFile (private, demo and non-demo); non-trivial = distinct (bases, revocation, entry point); oracle: every field identical, second write byte-identical"
	dir := t.TempDir()
	for bases := 0; bases <= 20; bases++ {
		for _, rev := range []bool{false, true} {
			if _, mine := r.Next(); !mine {
				continue
			}
			sk, pk := c18Keys(t, bases, rev)
			var sb strings.Builder
			if _, err := pk.WriteTo(&sb); err != nil {
				r.Violate("C18|public-key-not-writable", err.Error(), bases)
				continue
			}
			xmlPub := sb.String()
			fn := filepath.Join(dir, fmt.Sprintf("pk-%d-%v.xml", bases, rev))
			if _, err := pk.WriteToFile(fn, true); err != nil {
				r.Violate("C18|public-key-not-writable", err.Error(), bases)
			}
			readers := map[string]func() (*PublicKey, error){
				"NewPublicKeyFromXML":   func() (*PublicKey, error) { return NewPublicKeyFromXML(xmlPub) },
				"NewPublicKeyFromBytes": func() (*PublicKey, error) { return NewPublicKeyFromBytes([]byte(xmlPub)) },
				"NewPublicKeyFromFile":  func() (*PublicKey, error) { return NewPublicKeyFromFile(fn) },
			}
			for name, rd := range readers {
				r.Eval()
				r.Nontrivial(fmt.Sprintf("pub|%d|%v|%s", bases, rev, name))
				r.Outcome(fmt.Sprintf("public key:%s:revocation part=%v", name, rev))
				var got *PublicKey
				var err error
				if pan, msg := vkit.Guard(func() { got, err = rd() }); pan {
					r.Violate("C18|key-reader-panicked|"+name, msg, bases)
					continue
				}
				if err != nil {
					r.Violate("C18|written-key-not-readable|"+name, fmt.Sprintf("bases=%d revocation=%v: %v", bases, rev, err), bases)
					continue
				}
				if d := c18PubEqual(pk, got); d != "" {
					r.Violate("C18|key-field-changed-by-round-trip|"+name+"|"+d, fmt.Sprintf("bases=%d revocation=%v", bases, rev), bases)
				}
				var sb2 strings.Builder
				got.WriteTo(&sb2)
				if sb2.String() != xmlPub {
					r.Violate("C18|key-rewrite-differs|"+name, fmt.Sprintf("bases=%d", bases), bases)
				}
			}
			// private key
			var sp strings.Builder
			sk.WriteTo(&sp)
			xmlPriv := sp.String()
			pfn := filepath.Join(dir, fmt.Sprintf("sk-%d-%v.xml", bases, rev))
			sk.WriteToFile(pfn, true)
			for _, demo := range []bool{false, true} {
				for name, rd := range map[string]func() (*PrivateKey, error){
					"NewPrivateKeyFromXML":  func() (*PrivateKey, error) { return NewPrivateKeyFromXML(xmlPriv, demo) },
					"NewPrivateKeyFromFile": func() (*PrivateKey, error) { return NewPrivateKeyFromFile(pfn, demo) },
				} {
					r.Eval()
					r.Nontrivial(fmt.Sprintf("priv|%d|%v|%s|%v", bases, rev, name, demo))
					r.Outcome(fmt.Sprintf("private key:%s:revocation part=%v:demo=%v", name, rev, demo))
					got, err := rd()
					if err != nil {
						r.Violate("C18|written-key-not-readable|"+name, err.Error(), bases)
						continue
					}
					if got.P.Cmp(sk.P) != 0 || got.Q.Cmp(sk.Q) != 0 || got.PPrime.Cmp(sk.PPrime) != 0 || got.QPrime.Cmp(sk.QPrime) != 0 || got.N.Cmp(sk.N) != 0 ||
						got.Order.Cmp(sk.Order) != 0 || got.Counter != sk.Counter || got.ExpiryDate != sk.ExpiryDate || got.ECDSAString != sk.ECDSAString ||
						(got.ECDSA == nil) != (sk.ECDSA == nil) || got.ECDSA != nil && !got.ECDSA.Equal(sk.ECDSA) {
						r.Violate("C18|key-field-changed-by-round-trip|"+name, fmt.Sprintf("bases=%d", bases), bases)
					}
				}
			}
		}
	}
	r.Sample(map[string]any{"bases": "0..20", "revocation": "both", "readers": 5})
}

var c18Elem = regexp.MustCompile(`(?s)<([A-Za-z_0-9]+)( [^>]*)?>([^<]*)</([A-Za-z_0-9]+)>`)

func TestVerifC18KeyMalformed(t *testing.T) {
	r := vkit.Start(t, "C18", "key-xml-malformed", 100*time.Second, 400*time.Second)
	defer r.Finish()
	r.Rule = "public and private key documents (6 bases, with revocation parts): every leaf element deleted, emptied, negated ('-' prefix), garbled (non-decimal), Bases num attribute +-1, a base element added/removed, modulus of unsupported length (half, 1000-fold, and every length 1..9 bits short of / 1, 7, 8, 9 bits beyond 1024, 2048, 4096), inconsistent p/p' and non-safe primes (non-demo; also prime and half replaced together by consistent non-safe pairs, for p and for q); through every reading entry point; non-trivial = distinct (document, mutation, reader); oracle: an error is returned - never a key, never a panic (elements that are optional by design - ECDSA, G, H, Features, Counter, ExpiryDate - may be absent)"
	sk, pk := c18Keys(t, 6, true)
	var sb, sp strings.Builder
	pk.WriteTo(&sb)
	sk.WriteTo(&sp)
	dir := t.TempDir()
	optional := map[string]bool{"ECDSA": true, "G": true, "H": true, "Counter": true, "ExpiryDate": true, "Epoch": true, "Features": true}
	type doc struct {
		kind string
		xml  string
	}
	for _, d := range []doc{{"public", sb.String()}, {"private", sp.String()}} {
		type mut struct{ class, desc, xml string }
		var muts []mut
		for _, m := range c18Elem.FindAllStringSubmatchIndex(d.xml, -1) {
			name := d.xml[m[2]:m[3]]
			val := d.xml[m[6]:m[7]]
			if strings.TrimSpace(val) == "" {
				continue
			}
			whole := d.xml[m[0]:m[1]]
			rep := func(nv string) string { return d.xml[:m[6]] + nv + d.xml[m[7]:] }
			if !optional[name] {
				muts = append(muts, mut{"element-deleted:" + c18Class(name), name + " deleted", strings.Replace(d.xml, whole, "", 1)})
				muts = append(muts, mut{"element-emptied:" + c18Class(name), name + " emptied", rep("")})
			}
			// ExpiryDate is a signed Unix time: a negative value is a (remote) date, not a malformed number
			if name != "ECDSA" && name != "ExpiryDate" {
				muts = append(muts, mut{"negated:" + c18Class(name), name + " negated", rep("-" + val)})
			}
			if name != "ECDSA" {
				muts = append(muts, mut{"garbled:" + c18Class(name), name + " garbled", rep(val[:len(val)/2] + "x" + val[len(val)/2:])})
				muts = append(muts, mut{"garbled:" + c18Class(name), name + " hex-like", rep("0x" + val)})
			}
		}
		if d.kind == "public" {
			muts = append(muts,
				mut{"bases-count", "Bases num+1", strings.Replace(d.xml, `num="6"`, `num="7"`, 1)},
				mut{"bases-count", "Bases num-1", strings.Replace(d.xml, `num="6"`, `num="5"`, 1)},
				mut{"bases-count", "Bases num=0", strings.Replace(d.xml, `num="6"`, `num="0"`, 1)},
				mut{"bases-count", "Bases num negative", strings.Replace(d.xml, `num="6"`, `num="-6"`, 1)},
				mut{"bases-count", "Bases num missing", strings.Replace(d.xml, ` num="6"`, ``, 1)},
				mut{"bases-count", "one base element removed", regexp.MustCompile(`(?s)<Base_5>.*?</Base_5>`).ReplaceAllString(d.xml, "")},
				mut{"bases-count", "extra base element", strings.Replace(d.xml, "</Bases>", "<Base_6>5</Base_6></Bases>", 1)},
				mut{"bases-missing", "Bases element removed", regexp.MustCompile(`(?s)<Bases.*?</Bases>`).ReplaceAllString(d.xml, "")},
				mut{"elements-missing", "Elements removed", regexp.MustCompile(`(?s)<Elements>.*?</Elements>`).ReplaceAllString(d.xml, "")},
				mut{"modulus-length", "modulus of unsupported length (n/2)", regexp.MustCompile(`<n>(\d+)\d{150}</n>`).ReplaceAllString(d.xml, "<n>$1</n>")},
				mut{"modulus-length", "modulus of unsupported length (n*2^10)", regexp.MustCompile(`<n>(\d+)</n>`).ReplaceAllString(d.xml, "<n>${1}000</n>")},
				mut{"not-xml", "truncated document", d.xml[:len(d.xml)/2]},
				mut{"not-xml", "empty document", ""})
			// moduli whose bit length is next to a supported one (1..9 bits short, 1, 7, 8, 9 bits long)
			for _, L := range []int{1024, 2048, 4096} {
				for _, delta := range []int{-9, -8, -7, -6, -5, -4, -3, -2, -1, 1, 7, 8, 9} {
					nv := new(big.Int).Add(new(big.Int).Lsh(big.NewInt(1), uint(L+delta-1)), big.NewInt(12345))
					muts = append(muts, mut{"modulus-length-near-supported", fmt.Sprintf("modulus of %d bits (%d%+d)", L+delta, L, delta), regexp.MustCompile(`<n>(\d+)</n>`).ReplaceAllString(d.xml, "<n>"+nv.String()+"</n>")})
				}
			}
		} else {
			muts = append(muts,
				mut{"inconsistent-primes", "pPrime+1", regexp.MustCompile(`<pPrime>(\d+)(\d)</pPrime>`).ReplaceAllString(d.xml, "<pPrime>${1}0</pPrime>")},
				mut{"inconsistent-primes", "p and pPrime swapped", c18Swap(d.xml, "p", "pPrime")},
				mut{"non-safe-primes", "p=q'*2+1 replaced by a composite of the same shape", regexp.MustCompile(`<p>(\d+)</p>`).ReplaceAllString(d.xml, "<p>15</p>")},

				mut{"not-xml", "truncated document", d.xml[:len(d.xml)/2]})
			// a prime and its half replaced TOGETHER, so that they stay consistent with each other: the prime is
			// prime, (prime-1)/2 is not (13/6, 29/14, 1000003/500001), or the half is prime and the "prime" is
			// not (15/7), for p and for q
			setPair := func(xml, prime, half string, pv, hv int64) string {
				xml = regexp.MustCompile(`<`+prime+`>(\d+)</`+prime+`>`).ReplaceAllString(xml, fmt.Sprintf("<%s>%d</%s>", prime, pv, prime))
				return regexp.MustCompile(`<`+half+`>(\d+)</`+half+`>`).ReplaceAllString(xml, fmt.Sprintf("<%s>%d</%s>", half, hv, half))
			}
			for _, pr := range [][2]int64{{13, 6}, {29, 14}, {1000003, 500001}, {15, 7}} {
				muts = append(muts,
					mut{"non-safe-primes", fmt.Sprintf("q=%d with qPrime=%d (consistent with each other, not a safe prime)", pr[0], pr[1]), setPair(d.xml, "q", "qPrime", pr[0], pr[1])},
					mut{"non-safe-primes", fmt.Sprintf("p=%d with pPrime=%d (consistent with each other, not a safe prime)", pr[0], pr[1]), setPair(d.xml, "p", "pPrime", pr[0], pr[1])})
			}
		}
		for _, m := range muts {
			if _, mine := r.Next(); !mine {
				continue
			}
			if m.xml == d.xml {
				continue
			}
			fn := filepath.Join(dir, fmt.Sprintf("m-%d.xml", r.Evaluations))
			os.WriteFile(fn, []byte(m.xml), 0o600)
			type rd struct {
				name string
				f    func() (any, error)
			}
			var rds []rd
			if d.kind == "public" {
				rds = []rd{
					{"NewPublicKeyFromXML", func() (any, error) { k, e := NewPublicKeyFromXML(m.xml); return k, e }},
					{"NewPublicKeyFromBytes", func() (any, error) { k, e := NewPublicKeyFromBytes([]byte(m.xml)); return k, e }},
					{"NewPublicKeyFromFile", func() (any, error) { k, e := NewPublicKeyFromFile(fn); return k, e }},
				}
			} else {
				rds = []rd{
					{"NewPrivateKeyFromXML", func() (any, error) { k, e := NewPrivateKeyFromXML(m.xml, false); return k, e }},
					{"NewPrivateKeyFromFile", func() (any, error) { k, e := NewPrivateKeyFromFile(fn, false); return k, e }},
				}
			}
			for _, x := range rds {
				r.Eval()
				r.Nontrivial(d.kind + "|" + m.desc + "|" + x.name)
				var err error
				pan, msg := vkit.Guard(func() { _, err = x.f() })
				rep := map[string]any{"document": d.kind, "mutation": m.desc, "reader": x.name}
				r.Outcome(fmt.Sprintf("%s:%s:panic=%v:err=%v", d.kind, m.class, pan, err != nil))
				switch {
				case pan:
					r.Violate("C18|key-reader-panicked|"+x.name+"|"+m.class, fmt.Sprintf("%s key, %s: %s", d.kind, m.desc, msg), rep)
				case err == nil:
					r.Violate("C18|malformed-key-accepted|"+x.name+"|"+m.class, fmt.Sprintf("%s key, %s: a key was returned without error", d.kind, m.desc), rep)
				}
			}
		}
		r.Sample(map[string]any{"document": d.kind, "mutations": len(muts)})
	}
}

func c18Class(name string) string {
	if strings.HasPrefix(name, "Base_") {
		return "Base"
	}
	return name
}

func c18Swap(doc, a, b string) string {
	ra := regexp.MustCompile(`<` + a + `>(\d+)</` + a + `>`)
	rb := regexp.MustCompile(`<` + b + `>(\d+)</` + b + `>`)
	va, vb := ra.FindStringSubmatch(doc), rb.FindStringSubmatch(doc)
	if va == nil || vb == nil {
		return doc
	}
	doc = ra.ReplaceAllString(doc, "<"+a+">"+vb[1]+"</"+a+">")
	return rb.ReplaceAllString(doc, "<"+b+">"+va[1]+"</"+b+">")
}

func TestVerifC18KeyFiles(t *testing.T) {
	r := vkit.Start(t, "C18", "private-key-file-modes", 100*time.Second, 400*time.Second)
	defer r.Finish()
	r.Rule = "prior file state {absent, 0644, 0666, 0400, 0600, symlink to a 0644 file, dangling symlink} x umask {0, 022, 077} x forceOverwrite {false,true}; non-trivial = distinct combination; oracle: whenever PrivateKey.WriteToFile wrote the key, the file that holds it has mode & 077 == 0; forceOverwrite=false never touches an existing file; the written file reads back as the same key"
	sk, _ := c18Keys(t, 2, true)
	dir := t.TempDir()
	states := []string{"absent", "0644", "0666", "0400", "0600", "symlink-to-0644", "dangling-symlink"}
	n := 0
	for _, st := range states {
		for _, um := range []int{0, 0o22, 0o77} {
			for _, force := range []bool{false, true} {
				n++
				r.Eval()
				r.Nontrivial(fmt.Sprintf("%s|%o|%v", st, um, force))
				fn := filepath.Join(dir, fmt.Sprintf("key-%d.xml", n))
				target := fn
				old := syscall.Umask(0)
				switch st {
				case "0644", "0666", "0400", "0600":
					var mode os.FileMode
					fmt.Sscanf(st, "%o", &mode)
					os.WriteFile(fn, []byte("old content"), mode)
					os.Chmod(fn, mode)
				case "symlink-to-0644":
					target = fn + ".target"
					os.WriteFile(target, []byte("old content"), 0o644)
					os.Symlink(target, fn)
				case "dangling-symlink":
					target = fn + ".target"
					os.Symlink(target, fn)
				}
				syscall.Umask(um)
				_, err := sk.WriteToFile(fn, force)
				syscall.Umask(old)
				rep := map[string]any{"prior": st, "umask": fmt.Sprintf("%o", um), "forceOverwrite": force}
				content, rerr := os.ReadFile(target)
				hasKey := rerr == nil && strings.Contains(string(content), "IssuerPrivateKey")
				r.Outcome(fmt.Sprintf("%s:force=%v:err=%v:haskey=%v", st, force, err != nil, hasKey))
				if hasKey {
					fi, _ := os.Stat(target)
					if fi.Mode().Perm()&0o77 != 0 {
						r.Violate(fmt.Sprintf("C18|private-key-file-readable-by-others|prior=%s|force=%v", st, force), fmt.Sprintf("%v: mode %o", rep, fi.Mode().Perm()), rep)
					}
					if back, err := NewPrivateKeyFromFile(target, false); err != nil || back.P.Cmp(sk.P) != 0 {
						r.Violate("C18|written-key-not-readable|NewPrivateKeyFromFile", fmt.Sprint(rep, err), rep)
					}
				}
				if !force && st != "absent" && st != "dangling-symlink" {
					if err == nil || string(content) != "old content" {
						r.Violate("C18|existing-file-overwritten-without-force|prior="+st, fmt.Sprint(rep), rep)
					}
				}
				if err == nil && !hasKey {
					r.Violate("C18|write-reported-success-but-no-key|prior="+st, fmt.Sprint(rep), rep)
				}
			}
		}
	}
	r.Sample(map[string]any{"states": states, "umasks": []string{"0", "022", "077"}})
}
