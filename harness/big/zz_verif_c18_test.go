//go:build verif

package big

// C18 (integers) — non-negative integers survive JSON (base64 and decimal forms), XML, binary and
// CBOR round trips unchanged; negative integers are never silently altered by a text encoding:
// encoders refuse them or decoders refuse what was written.

import (
	"encoding/json"
	"encoding/xml"
	"fmt"
	"testing"
	"time"

	"github.com/fxamacker/cbor"
	"github.com/privacybydesign/gabi/internal/verif/vkit"
)

func TestVerifC18Ints(t *testing.T) {
	r := vkit.Start(t, "C18", "integer-encodings", 100*time.Second, 400*time.Second)
	defer r.Finish()
	r.Rule = "byte lengths 0..40 and {127,128,255,256,257} x patterns {00.., 01.., 7F.., 80.., FF.., leading zero bytes, alternating} (+ the negatives of all of them) x encodings {JSON base64 (MarshalText), JSON decimal (decode only), XML, binary, CBOR}, each also decoded into a receiver (struct field, slice element) that already holds another value; non-trivial = distinct (value, encoding); oracle: non-negative: decode(encode(x)) == x and re-encoding is byte-identical; negative: every text path (JSON, XML) either errors or round-trips to the same value - never to a different one; decoders refuse negative text"
	var vals []*Int
	lens := []int{}
	for l := 0; l <= 40; l++ {
		lens = append(lens, l)
	}
	lens = append(lens, 127, 128, 255, 256, 257)
	for _, l := range lens {
		if l == 0 {
			vals = append(vals, NewInt(0))
			continue
		}
		for _, first := range []byte{0x00, 0x01, 0x7f, 0x80, 0xff} {
			for _, fill := range []byte{0x00, 0xff, 0xa5} {
				b := make([]byte, l)
				for i := range b {
					b[i] = fill
				}
				b[0] = first
				vals = append(vals, new(Int).SetBytes(b))
			}
		}
	}
	type S struct {
		V *Int `json:"v" xml:"v"`
	}
	for i, v := range vals {
		for _, neg := range []bool{false, true} {
			x := new(Int).Set(v)
			if neg {
				if v.Sign() == 0 {
					continue
				}
				x.Neg(x)
			}
			if _, mine := r.Next(); !mine {
				continue
			}
			desc := fmt.Sprintf("#%d bits=%d neg=%v", i, x.BitLen(), neg)
			check := func(enc string, back *Int, err error, bytes1, bytes2 []byte) {
				r.Eval()
				r.Nontrivial(enc + "|" + x.String())
				r.Outcome(fmt.Sprintf("%s:negative=%v:decoded=%v", enc, neg, err == nil))
				rep := map[string]any{"value": x.String(), "encoding": enc}
				if !neg {
					if err != nil {
						r.Violate("C18|non-negative-integer-round-trip-failed|"+enc, fmt.Sprintf("%s: %v", desc, err), rep)
						return
					}
					if back.Cmp(x) != 0 {
						r.Violate("C18|integer-altered-by-round-trip|"+enc, fmt.Sprintf("%s: %v came back as %v", desc, x, back), rep)
					}
					if bytes2 != nil && string(bytes1) != string(bytes2) {
						r.Violate("C18|re-encoding-differs|"+enc, desc, rep)
					}
					return
				}
				// negative
				if err == nil && back != nil && back.Cmp(x) != 0 {
					r.Violate("C18|negative-integer-silently-altered|"+enc, fmt.Sprintf("%s: %v came back as %v without any error", desc, x, back), rep)
				}
			}
			// JSON (base64 via MarshalText)
			{
				b1, err := json.Marshal(S{x})
				var out S
				var b2 []byte
				if err == nil {
					err = json.Unmarshal(b1, &out)
					if err == nil {
						b2, _ = json.Marshal(out)
					}
				}
				check("json-base64", out.V, err, b1, b2)
				if neg && err == nil {
					r.Violate("C18|negative-integer-not-refused|json-encode", desc, x.String())
				}
			}
			// JSON decimal form (decode only)
			{
				var out S
				err := json.Unmarshal([]byte(`{"v":`+x.String()+`}`), &out)
				check("json-decimal", out.V, err, nil, nil)
				if neg && err == nil {
					r.Violate("C18|negative-integer-not-refused|json-decimal-decode", desc, x.String())
				}
			}
			// XML
			{
				b1, err := xml.Marshal(S{x})
				var out S
				var b2 []byte
				if err == nil {
					err = xml.Unmarshal(b1, &out)
					if err == nil {
						b2, _ = xml.Marshal(out)
					}
				}
				check("xml", out.V, err, b1, b2)
				if neg && err == nil {
					r.Violate("C18|negative-integer-not-refused|xml-round-trip", desc, x.String())
				}
			}
			if !neg {
				// used receivers: decoding into an integer that already holds another (non-zero) value - what
				// encoding/json does with non-nil pointer fields and existing slice elements when a message
				// struct is decoded into a second time - must give the decoded value, not keep the old one
				junk := func() *Int { return new(Int).Add(x, NewInt(65536)) }
				if b1, err := json.Marshal(S{x}); err == nil {
					out := S{V: junk()}
					err = json.Unmarshal(b1, &out)
					check("json-base64+used-receiver", out.V, err, nil, nil)
					var l []*Int
					lb, _ := json.Marshal([]*Int{x, junk()})
					l = []*Int{junk(), junk()}
					err = json.Unmarshal(lb, &l)
					if err == nil && len(l) == 2 {
						check("json-base64+used-slice", l[0], err, nil, nil)
					}
				}
				{
					out := S{V: junk()}
					err := json.Unmarshal([]byte(`{"v":`+x.String()+`}`), &out)
					check("json-decimal+used-receiver", out.V, err, nil, nil)
				}
				if b1, err := xml.Marshal(S{x}); err == nil {
					out := S{V: junk()}
					err = xml.Unmarshal(b1, &out)
					check("xml+used-receiver", out.V, err, nil, nil)
				}
				if b1, err := x.MarshalBinary(); err == nil {
					out := junk()
					err = out.UnmarshalBinary(b1)
					check("binary+used-receiver", out, err, nil, nil)
				}
				if c1, err := cbor.Marshal(S{x}, cbor.EncOptions{}); err == nil {
					out := S{V: junk()}
					err = cbor.Unmarshal(c1, &out)
					check("cbor+used-receiver", out.V, err, nil, nil)
				}
				// binary
				b1, err := x.MarshalBinary()
				out := new(Int)
				if err == nil {
					err = out.UnmarshalBinary(b1)
				}
				b2, _ := out.MarshalBinary()
				check("binary", out, err, b1, b2)
				// CBOR
				c1, err := cbor.Marshal(S{x}, cbor.EncOptions{})
				var cout S
				var c2 []byte
				if err == nil {
					err = cbor.Unmarshal(c1, &cout)
					if err == nil {
						c2, _ = cbor.Marshal(cout, cbor.EncOptions{})
					}
				}
				check("cbor", cout.V, err, c1, c2)
			}
		}
	}
	// malformed text
	for _, bad := range []string{`{"v":"!!!"}`, `{"v":"AQ="}`, `{"v":1.5}`, `{"v":"-AQ=="}`, `{"v":true}`, `{"v":[]}`} {
		var out S
		r.Eval()
		if pan, msg := vkit.Guard(func() { _ = json.Unmarshal([]byte(bad), &out) }); pan {
			r.Violate("C18|integer-decoder-panicked", bad+": "+msg, bad)
		}
	}
	for _, bad := range []string{`<S><v>12x</v></S>`, `<S><v></v></S>`, `<S><v>-4</v></S>`, `<S><v>0x10</v></S>`, `<S><v> 7</v></S>`} {
		var out S
		r.Eval()
		err := xml.Unmarshal([]byte(bad), &out)
		if err == nil {
			r.Violate("C18|malformed-xml-integer-accepted", fmt.Sprintf("%s decoded as %v", bad, out.V), bad)
		}
	}
	r.Sample(map[string]any{"values": len(vals), "encodings": []string{"json-base64", "json-decimal", "xml", "binary", "cbor"}})
}
