//go:build verif

package keyproof

// C20 (key-proof construction) — free-running bodies for the -race pass: the exp proof's worker
// pool (commitments from secrets and from proof) used from several goroutines at once, and a full
// BuildProof/VerifyProof of a toy key.

import (
	"fmt"
	"sync"
	"testing"
	"time"

	"github.com/privacybydesign/gabi/big"
	"github.com/privacybydesign/gabi/internal/verif/vkit"
	"github.com/privacybydesign/gabi/zkproof"
)

func TestVerifC20RaceKeyproof(t *testing.T) {
	r := vkit.Start(t, "C20", "race-pass-keyproof", 300*time.Second, 900*time.Second)
	defer r.Finish()
	r.Rule = "free-running -race pass: G goroutines (2,4,8) each building and verifying an exp proof (its internal worker pool runs concurrently with the others on one shared group), R repetitions; one full ValidKeyProof build+verify of a toy key while two other goroutines verify exp proofs; non-trivial = distinct (goroutines, repetition); oracle: every concurrently produced proof reconstructs exactly the commitments of its secrets; race detector silent"
	g, _ := zkproof.BuildGroup(c17SafePrime(c17Seeded("group-race"), 40))
	ch := big.NewInt(424242)
	one := func() bool {
		as, bs, ns, rs := newPedersenStructure("a"), newPedersenStructure("b"), newPedersenStructure("n"), newPedersenStructure("r")
		_, ap := as.commitmentsFromSecrets(g, nil, big.NewInt(2))
		_, bp := bs.commitmentsFromSecrets(g, nil, big.NewInt(5))
		_, np := ns.commitmentsFromSecrets(g, nil, big.NewInt(11))
		_, rp := rs.commitmentsFromSecrets(g, nil, big.NewInt(-1))
		bases := zkproof.NewBaseMerge(&g, &ap, &bp, &np, &rp)
		secrets := zkproof.NewSecretMerge(&ap, &bp, &np, &rp)
		s := newExpProofStructure("a", "b", "n", "r", 4)
		ls, commit := s.commitmentsFromSecrets(g, nil, &bases, &secrets)
		proof := s.buildProof(g, ch, commit, &secrets)
		aP, bP, nP, rP := as.buildProof(g, ch, ap), bs.buildProof(g, ch, bp), ns.buildProof(g, ch, np), rs.buildProof(g, ch, rp)
		aP.setName("a")
		bP.setName("b")
		nP.setName("n")
		rP.setName("r")
		pb := zkproof.NewBaseMerge(&g, &aP, &bP, &nP, &rP)
		pp := zkproof.NewProofMerge(&aP, &bP, &nP, &rP)
		if !s.verifyProofStructure(ch, proof) {
			return false
		}
		return c17SameList(ls, s.commitmentsFromProof(g, nil, ch, &pb, &pp, proof))
	}
	reps := vkit.Pick(3, 20)
	for _, gs := range []int{2, 4, 8} {
		for rep := 0; rep < reps; rep++ {
			var wg sync.WaitGroup
			ok := make([]bool, gs)
			for i := 0; i < gs; i++ {
				i := i
				wg.Add(1)
				go func() { defer wg.Done(); ok[i] = one() }()
			}
			wg.Wait()
			r.Eval()
			r.Nontrivial(fmt.Sprintf("%d|%d", gs, rep))
			for i, o := range ok {
				if !o {
					r.Violate("C20|concurrently-built-exp-proof-invalid", fmt.Sprintf("goroutine %d of %d", i, gs), gs)
				}
			}
		}
	}
	if vkit.Thorough() {
		rd := c17Seeded("race-key")
		var p, q *big.Int
		for {
			p, q = c17SafePrime(rd, 40), c17SafePrime(rd, 40)
			if p.Cmp(q) != 0 && CanProve(new(big.Int).Rsh(p, 1), new(big.Int).Rsh(q, 1)) {
				break
			}
		}
		s := NewValidKeyProofStructure(new(big.Int).Mul(p, q), []*big.Int{big.NewInt(36)})
		var wg sync.WaitGroup
		for i := 0; i < 2; i++ {
			wg.Add(1)
			go func() { defer wg.Done(); one() }()
		}
		proof := s.BuildProof(new(big.Int).Rsh(p, 1), new(big.Int).Rsh(q, 1))
		okv := s.VerifyProof(proof)
		wg.Wait()
		r.Eval()
		if !okv {
			r.Violate("C20|concurrently-built-key-proof-invalid", "", nil)
		}
	}
	r.Sample(map[string]any{"goroutines": []int{2, 4, 8}, "repetitions": reps})
}
