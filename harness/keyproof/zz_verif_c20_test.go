//go:build verif

package keyproof

// C20 (key-proof construction) — free-running bodies for the -race pass: the exp proof's worker
// pool (commitments from secrets and from proof) used from several goroutines at once, and a full
// BuildProof/VerifyProof of a toy key.

import (
	"fmt"
	"runtime"
	"sync"
	"testing"
	"time"

	"github.com/privacybydesign/gabi/big"
	"github.com/privacybydesign/gabi/internal/common"
	"github.com/privacybydesign/gabi/internal/verif/vkit"
	"github.com/privacybydesign/gabi/internal/verif/vsched"
	"github.com/privacybydesign/gabi/zkproof"
)

func TestVerifC20RaceKeyproof(t *testing.T) {
	r := vkit.Start(t, "C20", "race-pass-keyproof", 300*time.Second, 900*time.Second)
	defer r.Finish()
	r.Rule = "free-running -race pass: G goroutines (2,4,8) each building and verifying an exp proof (its internal worker pool runs concurrently with the others on one shared group), R repetitions; one full ValidKeyProof build+verify of a toy key while two other goroutines verify exp proofs; non-trivial = distinct (goroutines, repetition); oracle: every concurrently produced proof reconstructs exactly the commitments of its secrets; race detector silent"
	g, _ := zkproof.BuildGroup(c17SafePrime(c17Seeded("group-race"), 40))
	ch := big.NewInt(424242)
	one := func() bool {
		as, bs, ns, rs := newPedersenStructure("a"), newPedersenStructure("b"), newPedersenStructure("n"), newPedersenStructure("r")
		_, ap := as.commitmentsFromSecrets(g, nil, big.NewInt(2))
		_, bp := bs.commitmentsFromSecrets(g, nil, big.NewInt(5))
		_, np := ns.commitmentsFromSecrets(g, nil, big.NewInt(11))
		_, rp := rs.commitmentsFromSecrets(g, nil, big.NewInt(-1))
		bases := zkproof.NewBaseMerge(&g, &ap, &bp, &np, &rp)
		secrets := zkproof.NewSecretMerge(&ap, &bp, &np, &rp)
		s := newExpProofStructure("a", "b", "n", "r", 4)
		ls, commit := s.commitmentsFromSecrets(g, nil, &bases, &secrets)
		proof := s.buildProof(g, ch, commit, &secrets)
		aP, bP, nP, rP := as.buildProof(g, ch, ap), bs.buildProof(g, ch, bp), ns.buildProof(g, ch, np), rs.buildProof(g, ch, rp)
		aP.setName("a")
		bP.setName("b")
		nP.setName("n")
		rP.setName("r")
		pb := zkproof.NewBaseMerge(&g, &aP, &bP, &nP, &rP)
		pp := zkproof.NewProofMerge(&aP, &bP, &nP, &rP)
		if !s.verifyProofStructure(ch, proof) {
			return false
		}
		return c17SameList(ls, s.commitmentsFromProof(g, nil, ch, &pb, &pp, proof))
	}
	reps := vkit.Pick(3, 20)
	for _, gs := range []int{2, 4, 8} {
		for rep := 0; rep < reps; rep++ {
			var wg sync.WaitGroup
			ok := make([]bool, gs)
			for i := 0; i < gs; i++ {
				i := i
				wg.Add(1)
				go func() { defer wg.Done(); ok[i] = one() }()
			}
			wg.Wait()
			r.Eval()
			r.Nontrivial(fmt.Sprintf("%d|%d", gs, rep))
			for i, o := range ok {
				if !o {
					r.Violate("C20|concurrently-built-exp-proof-invalid", fmt.Sprintf("goroutine %d of %d", i, gs), gs)
				}
			}
		}
	}
	if vkit.Thorough() {
		rd := c17Seeded("race-key")
		var p, q *big.Int
		for {
			p, q = c17SafePrime(rd, 40), c17SafePrime(rd, 40)
			if p.Cmp(q) != 0 && CanProve(new(big.Int).Rsh(p, 1), new(big.Int).Rsh(q, 1)) {
				break
			}
		}
		s := NewValidKeyProofStructure(new(big.Int).Mul(p, q), []*big.Int{big.NewInt(36)})
		var wg sync.WaitGroup
		for i := 0; i < 2; i++ {
			wg.Add(1)
			go func() { defer wg.Done(); one() }()
		}
		proof := s.BuildProof(new(big.Int).Rsh(p, 1), new(big.Int).Rsh(q, 1))
		okv := s.VerifyProof(proof)
		wg.Wait()
		r.Eval()
		if !okv {
			r.Violate("C20|concurrently-built-key-proof-invalid", "", nil)
		}
	}
	r.Sample(map[string]any{"goroutines": []int{2, 4, 8}, "repetitions": reps})
}

// ---- controlled-scheduler exploration of the exp proof's worker pool ------------------------------

func TestVerifC20ExpPool(t *testing.T) {
	r := vkit.Start(t, "C20", "exp-worker-pool", 200*time.Second, 900*time.Second)
	defer r.Finish()
	r.Rule = "the exp proof's worker pool (runtime.NumCPU() workers pulling work items through an atomic counter, joined by a WaitGroup) building commitments from secrets and reconstructing them from the proof, explored under the controlled scheduler: every interleaving of the atomic fetch-and-add / WaitGroup points with <= B preemptions; non-trivial = distinct schedule; oracle: no deadlock / panic / leaked worker, the commitment list is complete (no nil slot) and the list reconstructed from the proof equals the list built from the secrets"
	bound := vkit.Pick(2, 3)
	r.Bounds["max_preemptions"] = bound
	r.Bounds["workers(runtime.NumCPU under the affinity mask set by the runner)"] = runtime.NumCPU()
	if runtime.NumCPU() > 4 {
		// without the affinity mask the pool has one worker per core: the space is then too large for the
		// higher bound
		bound = 1
		r.Bounds["max_preemptions"] = bound
	}
	g, _ := zkproof.BuildGroup(c17SafePrime(c17Seeded("group-pool"), 40))
	ch := big.NewInt(77)
	deadline := time.Now().Add(time.Duration(r.Bounds["budget_s"].(float64)) * time.Second)
	for _, phase := range []string{"commitmentsFromSecrets", "commitmentsFromProof"} {
		var ls, lp []*big.Int
		fresh := func() vsched.Scenario {
			common.VerifSeedCPRNG([32]byte{9, 9})
			as, bs, ns, rs := newPedersenStructure("a"), newPedersenStructure("b"), newPedersenStructure("n"), newPedersenStructure("r")
			_, ap := as.commitmentsFromSecrets(g, nil, big.NewInt(2))
			_, bp := bs.commitmentsFromSecrets(g, nil, big.NewInt(5))
			_, np := ns.commitmentsFromSecrets(g, nil, big.NewInt(11))
			_, rp := rs.commitmentsFromSecrets(g, nil, big.NewInt(-1))
			bases := zkproof.NewBaseMerge(&g, &ap, &bp, &np, &rp)
			secrets := zkproof.NewSecretMerge(&ap, &bp, &np, &rp)
			s := newExpProofStructure("a", "b", "n", "r", 3)
			ls, lp = nil, nil
			var body func()
			if phase == "commitmentsFromSecrets" {
				body = func() { ls, _ = s.commitmentsFromSecrets(g, nil, &bases, &secrets) }
			} else {
				// the proof is built outside the exploration (the hooks pass through when no exploration is
				// active): only the reconstruction pool runs under the scheduler
				var commit expProofCommit
				ls, commit = s.commitmentsFromSecrets(g, nil, &bases, &secrets)
				proof := s.buildProof(g, ch, commit, &secrets)
				aP, bP, nP, rP := as.buildProof(g, ch, ap), bs.buildProof(g, ch, bp), ns.buildProof(g, ch, np), rs.buildProof(g, ch, rp)
				aP.setName("a")
				bP.setName("b")
				nP.setName("n")
				rP.setName("r")
				pb := zkproof.NewBaseMerge(&g, &aP, &bP, &nP, &rP)
				pp := zkproof.NewProofMerge(&aP, &bP, &nP, &rP)
				body = func() { lp = s.commitmentsFromProof(g, nil, ch, &pb, &pp, proof) }
			}
			return vsched.Scenario{Body: body, Check: func(x *vsched.Exec) {
				r.Eval()
				r.Nontrivial(phase + fmt.Sprint(x.Choices))
				sig := ""
				switch {
				case x.Horizon:
					r.Count("executions cut by the step horizon", 1)
					return
				case len(x.Panics) > 0:
					sig = "panic: " + x.Panics[0]
				case x.Deadlock:
					sig = "deadlock-or-leaked-worker"
				default:
					for _, v := range ls {
						if v == nil {
							sig = "commitment-list-incomplete"
						}
					}
					if phase == "commitmentsFromProof" && !c17SameList(ls, lp) {
						sig = "reconstructed-commitments-differ"
					}
				}
				r.Outcome(phase + ":" + map[bool]string{true: "ok", false: sig}[sig == ""])
				if sig != "" {
					r.Violate("C20|exp-worker-pool|"+sig, fmt.Sprintf("%s, schedule %v", phase, x.Choices), map[string]any{"phase": phase, "choices": x.Choices})
				}
			}}
		}
		res := vsched.Explore(vsched.Options{MaxPreemptions: bound, Deadline: deadline, Shard: r.Shard, Shards: r.Shards, MaxSteps: 3000}, fresh)
		r.Schedules += int64(res.Executions)
		r.States += res.Points
		r.Transitions += res.Points
		r.Traces += int64(res.Executions)
		r.Sample(map[string]any{"phase": phase, "executions": res.Executions, "scheduling_points": res.Points, "threads": res.MaxThreads, "complete": res.Complete})
		if res.Diverged != "" {
			r.HarnessError("%s: %s", phase, res.Diverged)
			return
		}
		if !res.Complete {
			r.Cap(fmt.Sprintf("%s: %s after %d executions", phase, res.Cap, res.Executions))
		}
	}
}
