//go:build verif

package keyproof

// C17 — forgery of the whole key proof for a modulus whose factor is not a safe prime.
//
// The Gennaro-style subproofs show that N is a product of two quasi-safe primes 2*r^a+1; that a = 1 is
// shown by the discrete-log part (p = 2p'+1, pq = N, p' prime).  The forger below knows the
// factorisation of N = (2r^3+1)*q, runs the honest prover wherever it can (q side, bases, Gennaro
// proofs with square roots modulo r^3 q' of its own) and commits to an unrelated prime as p'.  What is
// left - the statements that involve p - it tries to make vacuous with a degenerate commitment to p
// (0, the group prime, twice the group prime, 1, P-1), computing the challenge the way the verifier
// will.  Oracle: VerifyProof must reject every one of them; the same harness run with a real safe
// prime and no degenerate value must be accepted (so the replica of BuildProof is faithful).

import (
	"fmt"
	"reflect"
	"strings"
	"testing"
	"time"

	"github.com/privacybydesign/gabi/big"
	"github.com/privacybydesign/gabi/internal/common"
	"github.com/privacybydesign/gabi/internal/verif/vkit"
	"github.com/privacybydesign/gabi/zkproof"
)

// c17ForgeKeyProof replicates ValidKeyProofStructure.BuildProof.  With degenerate == nil and P, Q safe
// primes it is the honest prover.  Otherwise the commitment to p is replaced by degenerate: the entries
// of the commitment list that involve base "p" are set to what the verifier will reconstruct for them.
func c17ForgeKeyProof(s *ValidKeyProofStructure, g zkproof.Group, P, Q, star, pval, r *big.Int, who string, degenerate *big.Int) ValidKeyProof {
	Pprime, Qprime := new(big.Int).Rsh(P, 1), new(big.Int).Rsh(Q, 1)
	list, PprimeSecret := s.pprime.commitmentsFromSecrets(g, nil, star)
	list, QprimeSecret := s.qprime.commitmentsFromSecrets(g, list, Qprime)
	list, PSecret := s.p.commitmentsFromSecrets(g, list, pval)
	list, QSecret := s.q.commitmentsFromSecrets(g, list, Q)
	PQNRel := newSecret(g, "pqnrel", new(big.Int).Mod(new(big.Int).Mul(PSecret.hider.secretv, QSecret.secretv.secretv), g.Order))
	bm := zkproof.NewBaseMerge(&g, &PSecret, &QSecret, &PprimeSecret, &QprimeSecret)
	secrets := zkproof.NewSecretMerge(&PSecret, &QSecret, &PprimeSecret, &QprimeSecret, &PQNRel)
	list = append(list, g.P)
	list = append(list, s.n)
	list = s.pPprimeRel.CommitmentsFromSecrets(g, list, &bm, &secrets)
	list = s.qQprimeRel.CommitmentsFromSecrets(g, list, &bm, &secrets)
	list = s.pQNRel.CommitmentsFromSecrets(g, list, &bm, &secrets)
	if degenerate != nil {
		zero := new(big.Int).Mod(degenerate, g.P).Sign() == 0
		switch who {
		case "p":
			list[4] = new(big.Int).Set(degenerate)
			if zero {
				list[5], list[10], list[12] = big.NewInt(0), big.NewInt(0), big.NewInt(0)
			}
		case "q":
			list[6] = new(big.Int).Set(degenerate)
			if zero {
				list[7], list[11] = big.NewInt(0), big.NewInt(0)
			}
		}
	}
	var c1, c2 primeProofCommit
	list, c1 = s.pprimeIsPrime.commitmentsFromSecrets(g, list, &bm, &secrets)
	list, c2 = s.qprimeIsPrime.commitmentsFromSecrets(g, list, &bm, &secrets)
	list, qc := quasiSafePrimeProductBuildCommitments(list, Pprime, Qprime)
	list, bc := s.basesValid.commitmentsFromSecrets(g, list, P, Q)
	mk := func(challenge *big.Int) ValidKeyProof {
		proof := ValidKeyProof{
			GroupPrime:         g.P,
			PQNRel:             PQNRel.buildProof(g, challenge),
			PProof:             s.p.buildProof(g, challenge, PSecret),
			QProof:             s.q.buildProof(g, challenge, QSecret),
			PprimeProof:        s.pprime.buildProof(g, challenge, PprimeSecret),
			QprimeProof:        s.qprime.buildProof(g, challenge, QprimeSecret),
			Challenge:          challenge,
			PprimeIsPrimeProof: s.pprimeIsPrime.buildProof(g, challenge, c1, &secrets),
			QprimeIsPrimeProof: s.qprimeIsPrime.buildProof(g, challenge, c2, &secrets),
			BasesValidProof:    s.basesValid.buildProof(g, challenge, bc),
		}
		if r == nil {
			proof.QSPPproof = quasiSafePrimeProductBuildProof(Pprime, Qprime, challenge, qc)
		} else {
			proof.QSPPproof = c17ForgeQSPP(r, Pprime, Qprime, challenge, qc)
		}
		if degenerate != nil {
			switch who {
			case "p":
				proof.PProof.Commit = new(big.Int).Set(degenerate)
			case "q":
				proof.QProof.Commit = new(big.Int).Set(degenerate)
			}
		}
		return proof
	}
	challenge := common.HashCommit(list, false)
	if c17Alter == nil {
		return mk(challenge)
	}
	// an alteration that the prover makes BEFORE the challenge is fixed: it alters the proof built for a
	// first challenge, hashes what the verifier will reconstruct from that (entries that do not depend on
	// the altered part are the commitments made from the secrets, whatever the challenge), and builds the
	// proof again for the challenge so obtained
	p0 := mk(challenge)
	c17Alter(&p0)
	chal1 := common.HashCommit(c17VerifierList(s, p0), false)
	p1 := mk(chal1)
	c17Alter(&p1)
	return p1
}

// c17Alter: see c17ForgeKeyProof.
var c17Alter func(p *ValidKeyProof)

// c17VerifierList rebuilds the commitment list the way ValidKeyProofStructure.VerifyProof does.
func c17VerifierList(s *ValidKeyProofStructure, proof ValidKeyProof) []*big.Int {
	g, _ := zkproof.BuildGroup(proof.GroupPrime)
	proof.PProof.setName("p")
	proof.QProof.setName("q")
	proof.PprimeProof.setName("pprime")
	proof.QprimeProof.setName("qprime")
	proof.PQNRel.setName("pqnrel")
	bases := zkproof.NewBaseMerge(&g, &proof.PProof, &proof.QProof, &proof.PprimeProof, &proof.QprimeProof)
	proofs := zkproof.NewProofMerge(&proof.PProof, &proof.QProof, &proof.PprimeProof, &proof.QprimeProof, &proof.PQNRel)
	var list []*big.Int
	list = s.pprime.commitmentsFromProof(g, list, proof.Challenge, proof.PprimeProof)
	list = s.qprime.commitmentsFromProof(g, list, proof.Challenge, proof.QprimeProof)
	list = s.p.commitmentsFromProof(g, list, proof.Challenge, proof.PProof)
	list = s.q.commitmentsFromProof(g, list, proof.Challenge, proof.QProof)
	list = append(list, proof.GroupPrime)
	list = append(list, s.n)
	list = s.pPprimeRel.CommitmentsFromProof(g, list, proof.Challenge, &bases, &proofs)
	list = s.qQprimeRel.CommitmentsFromProof(g, list, proof.Challenge, &bases, &proofs)
	list = s.pQNRel.CommitmentsFromProof(g, list, proof.Challenge, &bases, &proofs)
	list = s.pprimeIsPrime.commitmentsFromProof(g, list, proof.Challenge, &bases, &proofs, proof.PprimeIsPrimeProof)
	list = s.qprimeIsPrime.commitmentsFromProof(g, list, proof.Challenge, &bases, &proofs, proof.QprimeIsPrimeProof)
	list = quasiSafePrimeProductExtractCommitments(list, proof.QSPPproof)
	list = s.basesValid.commitmentsFromProof(g, list, proof.Challenge, proof.BasesValidProof)
	return list
}

func TestVerifC17Forgery(t *testing.T) {
	r := vkit.Start(t, "C17", "whole-proof-forgery", 400*time.Second, 1500*time.Second)
	defer r.Finish()
	r.Rule = "moduli N = (2 r^3 + 1) * q (first factor prime but not a safe prime, q a safe prime; both orders of the factors) with 2 bases; forger = honest prover for everything that is true + Gennaro subproofs with its own square roots modulo r^3 q' + an unrelated prime committed as p' + the commitment to p replaced by each of {0, P, 2P, 1, P-1} (P = group prime), challenge computed over what the verifier reconstructs; control: the same replica of BuildProof with two safe primes and nothing degenerate; on the control proof the almost-safe-prime-product part is rebuilt (fresh commitments, honest responses) after the challenge is known; non-trivial = distinct (modulus, degenerate value); oracle: control accepted, every forgery rejected"
	if r.Shard != 0 {
		return
	}
	common.VerifSeedCPRNG([32]byte{17, 4})
	rd := c17Seeded("forge")
	var Q *big.Int
	for {
		Q = c17SafePrime(rd, 48)
		qp := new(big.Int).Rsh(Q, 1)
		if new(big.Int).Mod(qp, big.NewInt(8)).Int64() == 5 && new(big.Int).Mod(qp, big.NewInt(3)).Int64() == 2 {
			break
		}
	}
	bases := []*big.Int{big.NewInt(36), big.NewInt(49)}
	// control
	{
		var P *big.Int
		for {
			P = c17SafePrime(rd, 48)
			if CanProve(new(big.Int).Rsh(P, 1), new(big.Int).Rsh(Q, 1)) {
				break
			}
		}
		N := new(big.Int).Mul(P, Q)
		s := NewValidKeyProofStructure(N, bases)
		g, _ := zkproof.BuildGroup(findSafePrime(N.BitLen() + 2*rangeProofEpsilon + 10))
		proof := c17ForgeKeyProof(&s, g, P, Q, new(big.Int).Rsh(P, 1), P, nil, "", nil)
		r.Eval()
		r.Nontrivial("control")
		ok := s.VerifyProof(proof)
		r.Outcome(fmt.Sprintf("control:accepted=%v", ok))
		if !ok {
			r.HarnessError("the harness's replica of BuildProof does not produce an accepted proof for a good key")
			return
		}
		// a sub-proof rebuilt AFTER the challenge is known: the almost-safe-prime-product part is the one
		// Gennaro-style part with commitments of its own; fresh commitments with honest responses for the
		// old challenge must not be accepted (they were not what the challenge was computed over)
		{
			r.Eval()
			r.Nontrivial("ASPP part rebuilt after the challenge")
			Pp, Qp := new(big.Int).Rsh(P, 1), new(big.Int).Rsh(Q, 1)
			_, commit2 := almostSafePrimeProductBuildCommitments(nil, Pp, Qp)
			alt := proof
			alt.QSPPproof.ASPPproof = almostSafePrimeProductBuildProof(Pp, Qp, proof.Challenge, big.NewInt(3), commit2)
			var ok2 bool
			if pan, _ := vkit.Guard(func() { ok2 = s.VerifyProof(alt) }); pan {
				ok2 = false
			}
			r.Outcome(fmt.Sprintf("rebuilt-after-challenge:ASPP:accepted=%v", ok2))
			if ok2 {
				r.Violate("C17|sub-proof-rebuilt-after-the-challenge-accepted|almost-safe-prime-product", "fresh ASPP commitments with responses computed for the old challenge were accepted: these commitments are not bound into the challenge", nil)
			}
		}
	}
	star := new(big.Int).Lsh(big.NewInt(1), 43) // the unrelated prime committed as p'
	for !star.ProbablyPrime(30) {
		star.Add(star, big.NewInt(1))
	}
	starts := []int64{50003}
	if vkit.Thorough() {
		starts = append(starts, 60011, 45003)
	}
	for _, st := range starts {
		var P, rr *big.Int
		for x := st; ; x += 8 { // r = 3 mod 8, r = 2 mod 3: the Gennaro subproofs then go through for 2r^3+1
			if x%8 != 3 || x%3 != 2 || !big.NewInt(x).ProbablyPrime(30) {
				continue
			}
			rr = big.NewInt(x)
			P = new(big.Int).Add(new(big.Int).Lsh(new(big.Int).Mul(rr, new(big.Int).Mul(rr, rr)), 1), big.NewInt(1))
			if P.ProbablyPrime(30) {
				break
			}
		}
		N := new(big.Int).Mul(P, Q)
		s := NewValidKeyProofStructure(N, bases)
		g, _ := zkproof.BuildGroup(findSafePrime(N.BitLen() + 2*rangeProofEpsilon + 10))
		for _, dv := range []struct {
			name string
			v    *big.Int
		}{{"0", big.NewInt(0)}, {"P", new(big.Int).Set(g.P)}, {"2P", new(big.Int).Lsh(g.P, 1)}, {"1", big.NewInt(1)}, {"P-1", new(big.Int).Sub(g.P, big.NewInt(1))}} {
			if r.Expired() {
				return
			}
			desc := fmt.Sprintf("N = (2*%v^3+1) * %v, commitment to p = %s", rr, Q, dv.name)
			r.Eval()
			r.Nontrivial(desc)
			var ok, pan bool
			var msg string
			for attempt := byte(0); attempt < 8; attempt++ {
				// (the prime-proof builder panics by design when its random witness is 0 modulo the prime)
				common.VerifSeedCPRNG([32]byte{17, 5, attempt})
				pan, msg = vkit.Guard(func() {
					proof := c17ForgeKeyProof(&s, g, P, Q, star, big.NewInt(227), rr, "p", dv.v)
					ok = s.VerifyProof(proof)
				})
				if !pan {
					break
				}
			}
			r.Outcome(fmt.Sprintf("forgery(%s):accepted=%v panic=%v", dv.name, ok, pan))
			if pan {
				r.Count("forger or verifier panicked (not accepted): "+msg, 1)
			}
			if ok {
				r.Violate("C17|key-proof-forged-for-non-safe-prime-factor|commitment="+dv.name, desc+": VerifyProof accepted", map[string]any{"r": rr.String(), "q": Q.String(), "commitment": dv.name})
			}
		}
		r.Sample(map[string]any{"N": N.String(), "factor_not_safe": P.String(), "r": rr.String()})
	}
}

// sqrt modulo r^3 * q (r, q odd primes) by Hensel lifting and CRT; ok=false if x is not a square
func c17ForgeSqrt(x, r, q *big.Int) (*big.Int, bool) {
	r3 := new(big.Int).Mul(r, new(big.Int).Mul(r, r))
	xr := new(big.Int).Mod(x, r)
	if xr.Sign() == 0 {
		return nil, false
	}
	y, ok := common.PrimeSqrt(xr, r)
	if !ok {
		return nil, false
	}
	mod := new(big.Int).Set(r)
	for k := 0; k < 2; k++ {
		mod.Mul(mod, r)
		// y <- y - (y^2 - x) / (2y) mod r^(k+2)
		t := new(big.Int).Sub(new(big.Int).Mul(y, y), x)
		inv := new(big.Int).ModInverse(new(big.Int).Lsh(y, 1), mod)
		y = new(big.Int).Mod(new(big.Int).Sub(y, new(big.Int).Mul(t, inv)), mod)
	}
	xq := new(big.Int).Mod(x, q)
	z, ok := common.PrimeSqrt(xq, q)
	if !ok {
		return nil, false
	}
	return common.Crt(y, r3, z, q), true
}

func c17ForgeQSPP(r, Pprime, Qprime, challenge *big.Int, commit quasiSafePrimeProductCommit) QuasiSafePrimeProductProof {
	P := new(big.Int).Add(new(big.Int).Lsh(Pprime, 1), big.NewInt(1))
	Q := new(big.Int).Add(new(big.Int).Lsh(Qprime, 1), big.NewInt(1))
	N := new(big.Int).Mul(P, Q)
	phiN := new(big.Int).Lsh(new(big.Int).Mul(Pprime, Qprime), 2)
	var proof QuasiSafePrimeProductProof
	proof.SFproof = squareFreeBuildProof(N, phiN, challenge, big.NewInt(0))
	proof.PPPproof = primePowerProductBuildProof(P, Q, challenge, big.NewInt(1))
	proof.DPPproof = disjointPrimeProductBuildProof(P, Q, challenge, big.NewInt(2))
	// ASPP with square roots modulo r^3 * q'
	c := commit.asppCommit
	ap := AlmostSafePrimeProductProof{Nonce: c.nonce, Commitments: c.commitments}
	oddPhiN := new(big.Int).Mul(Pprime, Qprime)
	index := big.NewInt(3)
	for i := range almostSafePrimeProductIters {
		curc := common.GetHashNumber(challenge, index, i, uint(2*N.BitLen()))
		log := new(big.Int).Mod(new(big.Int).Add(c.logs[i], curc), phiN)
		x1 := new(big.Int).Mod(log, oddPhiN)
		x2 := new(big.Int).Sub(oddPhiN, x1)
		x3 := new(big.Int).Mod(new(big.Int).Mul(new(big.Int).ModInverse(big.NewInt(2), oddPhiN), x1), oddPhiN)
		x4 := new(big.Int).Sub(oddPhiN, x3)
		found := false
		for _, x := range []*big.Int{x1, x2, x3, x4} {
			if rt, ok := c17ForgeSqrt(x, r, Qprime); ok {
				ap.Responses = append(ap.Responses, rt)
				found = true
				break
			}
		}
		if !found {
			panic("forger: no square among +-x, +-x/2")
		}
	}
	proof.ASPPproof = ap
	return proof
}

// TestVerifC17ZeroCommitments: a good key, the faithful replica of the prover, and ONE Pedersen commitment
// somewhere inside the proof - in the prime proofs, in the bases-valid proof - replaced by 0 or the group
// prime before the challenge is fixed (everything that depends on it then reconstructs to 0 whatever the
// responses are; the challenge is computed over exactly that).  Such a proof must be refused wherever
// the commitment sits: statements about the committed value are no longer checked.
func TestVerifC17ZeroCommitments(t *testing.T) {
	r := vkit.Start(t, "C17", "zero-commitments-anywhere", 400*time.Second, 1500*time.Second)
	defer r.Finish()
	r.Rule = "toy key (48-bit safe primes), replica of BuildProof; commitment leaves (fields named Commit; not the branch-local copies inside exponentiation steps, which nothing is opened against) of PprimeIsPrimeProof, QprimeIsPrimeProof and BasesValidProof: first, middle and last of each (thorough: every 7th) x value {0, group prime}; alteration made before the challenge is fixed, challenge = hash of what the verifier reconstructs, proof rebuilt for it; non-trivial = distinct (leaf, value); oracle: control (no alteration) accepted; every altered proof rejected"
	common.VerifSeedCPRNG([32]byte{17, 9})
	rd := c17Seeded("zero-anywhere")
	var P, Q *big.Int
	for {
		P, Q = c17SafePrime(rd, 48), c17SafePrime(rd, 48)
		if P.Cmp(Q) != 0 && CanProve(new(big.Int).Rsh(P, 1), new(big.Int).Rsh(Q, 1)) {
			break
		}
	}
	N := new(big.Int).Mul(P, Q)
	s := NewValidKeyProofStructure(N, []*big.Int{big.NewInt(36), big.NewInt(49)})
	g, _ := zkproof.BuildGroup(findSafePrime(N.BitLen() + 2*rangeProofEpsilon + 10))
	c17Alter = nil
	control := c17ForgeKeyProof(&s, g, P, Q, new(big.Int).Rsh(P, 1), P, nil, "", nil)
	if !s.VerifyProof(control) {
		r.HarnessError("the replica of BuildProof does not produce an accepted proof for a good key")
		return
	}
	var leaves []c17Leaf
	c17Leaves(reflect.ValueOf(&control).Elem(), "", &leaves)
	groups := map[string][]string{}
	var order []string
	for _, lf := range leaves {
		if !strings.HasSuffix(lf.path, ".Commit") {
			continue
		}
		if strings.HasSuffix(lf.path, ".Bproof.Mul.Commit") {
			// the copy of the base-power commitment inside a step's "bit = 1" branch is not a commitment
			// anything is opened against (since F42 the opening is checked against the surrounding proof's
			// commitment; the copy only enters the challenge): any value the prover fixes before the challenge
			// leaves the statement fully checked
			continue
		}
		for _, top := range []string{".PprimeIsPrimeProof", ".QprimeIsPrimeProof", ".BasesValidProof"} {
			if strings.HasPrefix(lf.path, top) {
				if groups[top] == nil {
					order = append(order, top)
				}
				groups[top] = append(groups[top], lf.path)
			}
		}
	}
	var picks []string
	for _, top := range order {
		l := groups[top]
		if vkit.Thorough() {
			for i := 0; i < len(l); i += 7 {
				picks = append(picks, l[i])
			}
		} else {
			picks = append(picks, l[0], l[len(l)/2], l[len(l)-1])
		}
	}
	r.Bounds["commitment_leaves"] = len(leaves)
	r.Bounds["leaves_attacked"] = len(picks)
	defer func() { c17Alter = nil }()
	for _, path := range picks {
		for _, val := range []struct {
			name string
			v    *big.Int
		}{{"0", big.NewInt(0)}, {"group prime", g.P}} {
			if _, mine := r.Next(); !mine {
				continue
			}
			if r.Expired() {
				return
			}
			desc := fmt.Sprintf("commitment %s = %s", path, val.name)
			r.Eval()
			r.Nontrivial(desc)
			c17Alter = func(p *ValidKeyProof) {
				var ls []c17Leaf
				c17Leaves(reflect.ValueOf(p).Elem(), "", &ls)
				for _, lf := range ls {
					if lf.path == path {
						lf.set(new(big.Int).Set(val.v))
					}
				}
			}
			var forged ValidKeyProof
			var ok bool
			common.VerifSeedCPRNG([32]byte{17, 9, 1})
			pan, _ := vkit.Guard(func() {
				forged = c17ForgeKeyProof(&s, g, P, Q, new(big.Int).Rsh(P, 1), P, nil, "", nil)
				ok = s.VerifyProof(forged)
			})
			c17Alter = nil
			r.Outcome(fmt.Sprintf("zero-commitment:%s:panic=%v:accepted=%v", val.name, pan, ok))
			if !pan && ok {
				r.Violate("C17|proof-with-a-zero-commitment-accepted|"+strings.SplitN(strings.TrimPrefix(path, "."), ".", 2)[0], desc+": accepted - whatever is stated about the committed value is not checked any more", desc)
			}
		}
	}
}
