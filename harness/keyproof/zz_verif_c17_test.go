//go:build verif

package keyproof

// C17 — key-correctness proofs accept good keys and reject bad ones.
//
// The full proof costs seconds per verification, so the tree is decomposed:
//  (1) Gennaro-style component proofs (square-free, prime-power product, disjoint prime product,
//      almost-safe prime product) on toy moduli: honest accept; a proof valid everywhere but at one
//      iteration is rejected, for EVERY iteration index; wrong challenge / index rejected; bad
//      moduli catalogue with a best-effort cheating prover whose answers are found by exhaustive
//      search over Z_N with an independently written relation: verdict == "every iteration is
//      answerable".
//  (2) zero-knowledge building blocks (pedersen, addition, multiplication, exp incl. its
//      exp-step OR-compositions, prime, is-square): honest => commitments from proof equal
//      commitments from secrets; EVERY big-integer leaf of the proof x {+1, =0, =nil, swap with
//      next leaf} => structure check fails or the reconstructed commitment list changes.
//  (3) top level: one toy key; a handful of full verifications (foreign modulus, base list,
//      swapped top-level fields, JSON round trip).

import (
	"encoding/json"
	"fmt"
	"reflect"
	"sort"
	"strings"
	"testing"
	"time"

	"github.com/privacybydesign/gabi/big"
	"github.com/privacybydesign/gabi/internal/common"
	"github.com/privacybydesign/gabi/internal/verif/vkit"
	"github.com/privacybydesign/gabi/zkproof"
)

var bigIntPtrType = reflect.TypeOf((*big.Int)(nil))

// c17Order: order of the group the component tests run in (for order-preserving shifts of sub-challenges).
var c17Order *big.Int

type c17Leaf struct {
	path string
	get  func() *big.Int
	set  func(*big.Int)
}

// c17Leaves collects every transmitted big integer of a proof: exported struct fields, slices, arrays
// and maps (of integers, of slices of integers, of structs), with a setter for each.
func c17Leaves(v reflect.Value, path string, out *[]c17Leaf) {
	switch v.Kind() {
	case reflect.Ptr:
		if v.Type() == bigIntPtrType {
			if v.CanSet() {
				v := v
				*out = append(*out, c17Leaf{path, func() *big.Int { return v.Interface().(*big.Int) }, func(x *big.Int) {
					if x == nil {
						v.Set(reflect.Zero(bigIntPtrType))
					} else {
						v.Set(reflect.ValueOf(x))
					}
				}})
			}
			return
		}
		if !v.IsNil() {
			c17Leaves(v.Elem(), path, out)
		}
	case reflect.Struct:
		for i := 0; i < v.NumField(); i++ {
			f := v.Type().Field(i)
			if f.PkgPath != "" {
				continue // unexported: not part of the transmitted proof
			}
			c17Leaves(v.Field(i), path+"."+f.Name, out)
		}
	case reflect.Slice, reflect.Array:
		for i := 0; i < v.Len(); i++ {
			c17Leaves(v.Index(i), fmt.Sprintf("%s[%d]", path, i), out)
		}
	case reflect.Map:
		keys := v.MapKeys()
		sort.Slice(keys, func(i, j int) bool { return fmt.Sprint(keys[i].Interface()) < fmt.Sprint(keys[j].Interface()) })
		for _, k := range keys {
			k := k
			kp := fmt.Sprintf("%s{%v}", path, k.Interface())
			el := v.MapIndex(k)
			if el.Type() == bigIntPtrType {
				m := v
				*out = append(*out, c17Leaf{kp, func() *big.Int { return m.MapIndex(k).Interface().(*big.Int) }, func(x *big.Int) {
					if x == nil {
						m.SetMapIndex(k, reflect.Zero(bigIntPtrType))
					} else {
						m.SetMapIndex(k, reflect.ValueOf(x))
					}
				}})
				continue
			}
			switch el.Kind() {
			case reflect.Slice, reflect.Ptr:
				c17Leaves(el, kp, out) // elements of a slice / pointee are addressable
			default:
				// map of structs: work on an addressable copy and store it back through the setter
				cp := reflect.New(el.Type()).Elem()
				cp.Set(el)
				var inner []c17Leaf
				c17Leaves(cp, kp, &inner)
				m := v
				for _, lf := range inner {
					lf := lf
					*out = append(*out, c17Leaf{lf.path, lf.get, func(x *big.Int) { lf.set(x); m.SetMapIndex(k, cp) }})
				}
			}
		}
	}
}

func c17SameList(a, b []*big.Int) bool {
	if len(a) != len(b) {
		return false
	}
	for i := range a {
		if (a[i] == nil) != (b[i] == nil) || a[i] != nil && a[i].Cmp(b[i]) != 0 {
			return false
		}
	}
	return true
}

// c17Component runs the leaf-alteration menu on one component proof.  verify reports (structure ok,
// reconstructed commitment list) for the current contents of *proofPtr.
func c17Component(r *vkit.Report, name string, proofPtr any, honest []*big.Int, verify func() (bool, []*big.Int)) {
	ok, list := verify()
	r.Eval()
	if !ok || !c17SameList(list, honest) {
		r.Violate("C17|component-honest-proof-rejected|"+name, fmt.Sprintf("structure ok=%v, lists equal=%v", ok, c17SameList(list, honest)), name)
		return
	}
	var leaves []c17Leaf
	c17Leaves(reflect.ValueOf(proofPtr).Elem(), "", &leaves)
	r.Sample(map[string]any{"component": name, "leaves": len(leaves), "commitments": len(honest)})
	for li, lf := range leaves {
		orig := lf.get()
		if orig == nil {
			continue
		}
		if _, mine := r.Next(); !mine {
			continue
		}
		if r.Expired() {
			return
		}
		type mut struct {
			class string
			val   *big.Int
		}
		muts := []mut{{"+1", new(big.Int).Add(orig, big.NewInt(1))}, {"=0", big.NewInt(0)}, {"=nil", nil}, {"-1", new(big.Int).Sub(orig, big.NewInt(1))}}
		if strings.Contains(lf.path, "hallenge") && c17Order != nil {
			// sub-challenges of OR-compositions act modulo the group order in the reconstruction but are tied
			// to the Fiat-Shamir challenge as integers: shifts that keep the residue (and, for the second,
			// also the low 256 bits) must break that tie
			muts = append(muts, mut{"+order", new(big.Int).Add(orig, c17Order)},
				mut{"+order<<256", new(big.Int).Add(orig, new(big.Int).Lsh(c17Order, 256))},
				mut{"+2^256", new(big.Int).Add(orig, new(big.Int).Lsh(big.NewInt(1), 256))})
		}
		if strings.Contains(lf.path, "RangeProof") && !strings.Contains(lf.path, "hider") && c17Order != nil {
			// responses for the range-limited secret of a range proof (not its hider, which is unbounded): a shift by the group order leaves every reconstructed commitment as
			// it was, so the size bound on the response - what makes it a range proof - must be what rejects it
			// (the bound is a bit length a little above that of honest responses: shift far beyond it)
			muts = append(muts, mut{"+order<<(len+64)", new(big.Int).Add(orig, new(big.Int).Lsh(c17Order, uint(orig.BitLen())+64))},
				mut{"-order<<(len+64)", new(big.Int).Sub(orig, new(big.Int).Lsh(c17Order, uint(orig.BitLen())+64))})
		}
		if li+1 < len(leaves) {
			if nx := leaves[li+1].get(); nx != nil && nx.Cmp(orig) != 0 {
				muts = append(muts, mut{"=next-leaf", new(big.Int).Set(nx)})
			}
		}
		for _, m := range muts {
			if m.val != nil && m.val.Cmp(orig) == 0 {
				continue
			}
			lf.set(m.val)
			r.Eval()
			r.Nontrivial(name + lf.path + m.class)
			var ok bool
			var list []*big.Int
			pan, msg := vkit.Guard(func() { ok, list = verify() })
			lf.set(orig)
			switch {
			case pan:
				r.Count("panic while verifying an altered component proof (not accepted)", 1)
				r.Outcome(name + ":" + m.class + ":panic")
				_ = msg
			case ok && c17SameList(list, honest):
				r.Violate("C17|altered-component-accepted|"+name+"|"+m.class, fmt.Sprintf("%s: leaf %s %s: structure accepted and reconstructed commitments unchanged", name, lf.path, m.class), map[string]any{"component": name, "leaf": lf.path, "alteration": m.class})
			default:
				r.Outcome(name + ":" + m.class + ":rejected")
			}
		}
	}
}

// c17Transplant: sub-proofs made under another challenge.  other is a proof built from the SAME
// commitments as *proofPtr but for a different challenge.  Every subtree of the proof (every prefix of
// every leaf path) is replaced by the corresponding subtree of other and the result verified under the
// original challenge.  Parts whose reconstruction uses challenges they carry themselves (the branches
// of an OR-composition) reconstruct to the same commitments wherever they are put: only the
// verifier's tie between those challenges and the Fiat-Shamir challenge rejects them.
func c17Transplant(r *vkit.Report, name string, proofPtr, otherPtr any, honest []*big.Int, verify func() (bool, []*big.Int)) {
	var leaves, others []c17Leaf
	c17Leaves(reflect.ValueOf(proofPtr).Elem(), "", &leaves)
	c17Leaves(reflect.ValueOf(otherPtr).Elem(), "", &others)
	if len(leaves) != len(others) {
		r.HarnessError("%s: proofs for two challenges differ in shape (%d / %d leaves)", name, len(leaves), len(others))
		return
	}
	seen := map[string]bool{}
	var prefixes []string
	for _, lf := range leaves {
		p := lf.path
		for i := 1; i <= len(p); i++ {
			if i == len(p) || p[i] == '.' || p[i] == '[' || p[i] == '{' {
				if pre := p[:i]; !seen[pre] {
					seen[pre] = true
					prefixes = append(prefixes, pre)
				}
			}
		}
	}
	same := func(a, b *big.Int) bool { return (a == nil) == (b == nil) && (a == nil || a.Cmp(b) == 0) }
	for _, pre := range prefixes {
		if _, mine := r.Next(); !mine {
			continue
		}
		if r.Expired() {
			return
		}
		var idx []int
		var origs []*big.Int
		changed := 0
		for i, lf := range leaves {
			if !strings.HasPrefix(lf.path, pre) || len(lf.path) > len(pre) && !strings.ContainsRune(".[{", rune(lf.path[len(pre)])) {
				continue
			}
			o, n := lf.get(), others[i].get()
			idx, origs = append(idx, i), append(origs, o)
			if !same(o, n) {
				changed++
				if n != nil {
					n = new(big.Int).Set(n)
				}
				lf.set(n)
			}
		}
		if changed == 0 {
			continue
		}
		r.Eval()
		r.Nontrivial(name + "|transplant|" + pre)
		var ok bool
		var list []*big.Int
		pan, _ := vkit.Guard(func() { ok, list = verify() })
		for j, i := range idx {
			leaves[i].set(origs[j])
		}
		switch {
		case pan:
			r.Outcome(name + ":transplant-from-other-challenge:panic")
		case ok && c17SameList(list, honest):
			r.Violate("C17|sub-proof-made-for-another-challenge-accepted|"+name, fmt.Sprintf("%s: subtree %s (%d of its %d integers differ) taken from a proof of the same commitments under another challenge: structure accepted and reconstructed commitments unchanged", name, pre, changed, len(idx)), map[string]any{"component": name, "subtree": pre})
		default:
			r.Outcome(name + ":transplant-from-other-challenge:rejected")
		}
	}
}

// c17Degenerate: Fiat-Shamir forgery handles.  All big-integer leaves of the component proof and of
// the proofs it takes its bases from are grouped by field name; every assignment of {keep, 0, P, 2P}
// to the groups is applied (all of them for <= 6 groups, else every assignment with <= 2 groups changed
// plus the uniform ones) and the verifier's reconstruction is run under three different challenges.
// A proof object that passes the structure check and reconstructs to the SAME commitment list (without a
// zero entry, which the top-level verifier refuses) whatever
// the challenge is verifies under the challenge its sender computes from that list: whoever can write
// it down proves the component's statement without knowing any witness.
func c17Degenerate(r *vkit.Report, name string, P *big.Int, ptrs []any, verify func(c *big.Int) (bool, []*big.Int)) {
	var leaves []c17Leaf
	for _, ptr := range ptrs {
		c17Leaves(reflect.ValueOf(ptr).Elem(), "", &leaves)
	}
	classOf := func(path string) string {
		// last field name, array indices dropped
		out := path
		if i := strings.LastIndex(out, "."); i >= 0 {
			out = out[i+1:]
		}
		if i := strings.Index(out, "["); i >= 0 {
			out = out[:i]
		}
		return out // a map key stays part of the group name: Results{x} and Results{y} are set independently
	}
	byClass := map[string][]c17Leaf{}
	var classes []string
	for _, lf := range leaves {
		if lf.get() == nil {
			continue
		}
		c := classOf(lf.path)
		if _, ok := byClass[c]; !ok {
			classes = append(classes, c)
		}
		byClass[c] = append(byClass[c], lf)
	}
	sort.Strings(classes)
	orig := map[string][]*big.Int{}
	for c, ls := range byClass {
		for _, lf := range ls {
			orig[c] = append(orig[c], lf.get())
		}
	}
	// only values that are not elements of the group: with the identity 1 = g^0 h^0 the sender does know an
	// opening, so a challenge-independent transcript is then no forgery (the whole-proof forgery sub-check,
	// whose oracle is exact, tries 1 and P-1 as well)
	values := []*big.Int{nil, big.NewInt(0), new(big.Int).Set(P), new(big.Int).Lsh(P, 1)}
	vname := []string{"keep", "0", "P", "2P"}
	n := len(classes)
	var assigns [][]int
	if n <= 6 {
		total := 1
		for i := 0; i < n; i++ {
			total *= len(values)
		}
		for code := 1; code < total; code++ {
			a := make([]int, n)
			for i, c := 0, code; i < n; i++ {
				a[i], c = c%len(values), c/len(values)
			}
			assigns = append(assigns, a)
		}
	} else {
		for v := 1; v < len(values); v++ {
			a := make([]int, n)
			for i := range a {
				a[i] = v
			}
			assigns = append(assigns, a)
		}
		for i := 0; i < n; i++ {
			for vi := 1; vi < len(values); vi++ {
				a := make([]int, n)
				a[i] = vi
				assigns = append(assigns, a)
				for j := i + 1; j < n; j++ {
					for vj := 1; vj < len(values); vj++ {
						b := append([]int{}, a...)
						b[j] = vj
						assigns = append(assigns, b)
					}
				}
			}
		}
	}
	c1, c2, c3 := big.NewInt(12345), big.NewInt(12346), big.NewInt(99991)
	r.Sample(map[string]any{"component": name, "degenerate_field_groups": classes, "assignments": len(assigns)})
	for _, a := range assigns {
		if _, mine := r.Next(); !mine {
			continue
		}
		if r.Expired() {
			return
		}
		desc := ""
		for i, c := range classes {
			if a[i] != 0 {
				desc += fmt.Sprintf("%s=%s ", c, vname[a[i]])
				for _, lf := range byClass[c] {
					lf.set(new(big.Int).Set(values[a[i]]))
				}
			}
		}
		r.Eval()
		r.Nontrivial(name + "|degenerate|" + desc)
		var ok1, ok2, ok3 bool
		var l1, l2, l3 []*big.Int
		pan, _ := vkit.Guard(func() {
			if ok1, l1 = verify(c1); ok1 {
				if ok2, l2 = verify(c2); ok2 {
					ok3, l3 = verify(c3)
				}
			}
		})
		for _, c := range classes {
			for i, lf := range byClass[c] {
				lf.set(orig[c][i])
			}
		}
		switch {
		case pan:
			r.Outcome(name + ":degenerate:panic")
		case ok1 && ok2 && ok3 && len(l1) > 0 && hasZeroCommitment(l1):
			// VerifyProof refuses a reconstructed list with a zero entry
			r.Outcome(name + ":degenerate:refused-zero-commitment")
		case ok1 && ok2 && ok3 && len(l1) > 0 && c17SameList(l1, l2) && c17SameList(l1, l3):
			r.Outcome(name + ":degenerate:challenge-independent")
			r.Violate("C17|challenge-independent-transcript-accepted|"+name, fmt.Sprintf("%s with %s: structure accepted and the reconstructed commitments do not depend on the challenge (forgeable without a witness)", name, desc), map[string]any{"component": name, "assignment": desc})
		default:
			r.Outcome(name + ":degenerate:challenge-dependent-or-refused")
		}
	}
}

func TestVerifC17Components(t *testing.T) {
	r := vkit.Start(t, "C17", "zk-components", 600*time.Second, 1200*time.Second)
	defer r.Finish()
	r.Rule = "components {pedersen, addition, multiplication, exp (with its exp-step OR-compositions, both bit values), prime, is-square} on toy groups: honest instance, then EVERY exported big-integer leaf of the proof x {+1, -1, =0, =nil, =next leaf; for sub-challenges of OR-compositions also +order, +order*2^256, +2^256; for exp and prime every subtree of the proof replaced by the same subtree of a proof built from the same commitments for another challenge; for range-proof responses of the range-limited secret also +-order*2^(len+64), far beyond the size bound on either side}; non-trivial = distinct (component, leaf, alteration) that changes the value; oracle: honest => structure ok and commitments-from-proof == commitments-from-secrets; altered => structure check fails or the reconstructed list differs"
	ch := big.NewInt(12345)
	common.VerifSeedCPRNG([32]byte{17, 17, 17})
	// a 40-bit safe-prime group: with the 23-element group of the package's own tests a changed
	// exponent coincides with the original one far too often for a leaf-by-leaf oracle
	g47, gok := zkproof.BuildGroup(c17SafePrime(c17Seeded("group"), 40))
	if !gok {
		r.HarnessError("toy group")
		return
	}
	c17Order = g47.Order
	// pedersen
	{
		s := newPedersenStructure("x")
		ls, commit := s.commitmentsFromSecrets(g47, nil, big.NewInt(15))
		proof := s.buildProof(g47, ch, commit)
		proof.setName("x")
		c17Component(r, "pedersen", &proof, ls, func() (bool, []*big.Int) {
			if !s.verifyProofStructure(proof) {
				return false, nil
			}
			return true, s.commitmentsFromProof(g47, nil, ch, proof)
		})
		c17Degenerate(r, "pedersen", g47.P, []any{&proof}, func(c *big.Int) (bool, []*big.Int) {
			if !s.verifyProofStructure(proof) {
				return false, nil
			}
			return true, s.commitmentsFromProof(g47, nil, c, proof)
		})
	}
	// addition and multiplication (a op b = d mod n)
	for _, op := range []string{"addition", "multiplication"} {
		a1s, a2s, mods, results := newPedersenStructure("a1"), newPedersenStructure("a2"), newPedersenStructure("mod"), newPedersenStructure("result")
		res := int64(2) // 4+3 mod 5
		if op == "multiplication" {
			res = 2 // 4*3 mod 5
		}
		_, a1 := a1s.commitmentsFromSecrets(g47, nil, big.NewInt(4))
		_, a2 := a2s.commitmentsFromSecrets(g47, nil, big.NewInt(3))
		_, mod := mods.commitmentsFromSecrets(g47, nil, big.NewInt(5))
		_, result := results.commitmentsFromSecrets(g47, nil, big.NewInt(res))
		bases := zkproof.NewBaseMerge(&g47, &a1, &a2, &mod, &result)
		secrets := zkproof.NewSecretMerge(&a1, &a2, &mod, &result)
		a1p, a2p, mp, rp := a1s.buildProof(g47, ch, a1), a2s.buildProof(g47, ch, a2), mods.buildProof(g47, ch, mod), results.buildProof(g47, ch, result)
		a1p.setName("a1")
		a2p.setName("a2")
		mp.setName("mod")
		rp.setName("result")
		bp := zkproof.NewBaseMerge(&g47, &a1p, &a2p, &mp, &rp)
		pd := zkproof.NewProofMerge(&a1p, &a2p, &mp, &rp)
		if op == "addition" {
			s := newAdditionProofStructure("a1", "a2", "mod", "result", 3)
			ls, commit := s.commitmentsFromSecrets(g47, nil, &bases, &secrets)
			proof := s.buildProof(g47, ch, commit, &secrets)
			c17Component(r, op, &proof, ls, func() (bool, []*big.Int) {
				if !s.verifyProofStructure(proof) {
					return false, nil
				}
				return true, s.commitmentsFromProof(g47, nil, ch, &bp, &pd, proof)
			})
			c17Degenerate(r, op, g47.P, []any{&proof, &a1p, &a2p, &mp, &rp}, func(c *big.Int) (bool, []*big.Int) {
				if !s.verifyProofStructure(proof) || !a1s.verifyProofStructure(a1p) || !a2s.verifyProofStructure(a2p) || !mods.verifyProofStructure(mp) || !results.verifyProofStructure(rp) {
					return false, nil
				}
				l := a1s.commitmentsFromProof(g47, nil, c, a1p)
				l = a2s.commitmentsFromProof(g47, l, c, a2p)
				l = mods.commitmentsFromProof(g47, l, c, mp)
				l = results.commitmentsFromProof(g47, l, c, rp)
				return true, s.commitmentsFromProof(g47, l, c, &bp, &pd, proof)
			})
		} else {
			s := newMultiplicationProofStructure("a1", "a2", "mod", "result", 3)
			ls, commit := s.commitmentsFromSecrets(g47, nil, &bases, &secrets)
			proof := s.buildProof(g47, ch, commit, &secrets)
			c17Component(r, op, &proof, ls, func() (bool, []*big.Int) {
				if !s.verifyProofStructure(proof) {
					return false, nil
				}
				return true, s.commitmentsFromProof(g47, nil, ch, &bp, &pd, proof)
			})
			c17Degenerate(r, op, g47.P, []any{&proof, &a1p, &a2p, &mp, &rp}, func(c *big.Int) (bool, []*big.Int) {
				if !s.verifyProofStructure(proof) || !a1s.verifyProofStructure(a1p) || !a2s.verifyProofStructure(a2p) || !mods.verifyProofStructure(mp) || !results.verifyProofStructure(rp) {
					return false, nil
				}
				l := a1s.commitmentsFromProof(g47, nil, c, a1p)
				l = a2s.commitmentsFromProof(g47, l, c, a2p)
				l = mods.commitmentsFromProof(g47, l, c, mp)
				l = results.commitmentsFromProof(g47, l, c, rp)
				return true, s.commitmentsFromProof(g47, l, c, &bp, &pd, proof)
			})
		}
	}
	// exp: a^b = r mod n, exponents with both bit values (b=5=101b, b=2=010b)
	for _, tc := range [][4]int64{{2, 5, 11, -1}, {3, 2, 7, 2}} {
		as, bs, ns, rs := newPedersenStructure("a"), newPedersenStructure("b"), newPedersenStructure("n"), newPedersenStructure("r")
		_, ap := as.commitmentsFromSecrets(g47, nil, big.NewInt(tc[0]))
		_, bp_ := bs.commitmentsFromSecrets(g47, nil, big.NewInt(tc[1]))
		_, np := ns.commitmentsFromSecrets(g47, nil, big.NewInt(tc[2]))
		_, rp := rs.commitmentsFromSecrets(g47, nil, big.NewInt(tc[3]))
		bases := zkproof.NewBaseMerge(&g47, &ap, &bp_, &np, &rp)
		secrets := zkproof.NewSecretMerge(&ap, &bp_, &np, &rp)
		s := newExpProofStructure("a", "b", "n", "r", 4)
		if !s.isTrue(&secrets) {
			r.HarnessError("exp instance %v is not true", tc)
			continue
		}
		ls, commit := s.commitmentsFromSecrets(g47, nil, &bases, &secrets)
		proof := s.buildProof(g47, ch, commit, &secrets)
		aP, bP, nP, rP := as.buildProof(g47, ch, ap), bs.buildProof(g47, ch, bp_), ns.buildProof(g47, ch, np), rs.buildProof(g47, ch, rp)
		aP.setName("a")
		bP.setName("b")
		nP.setName("n")
		rP.setName("r")
		pb := zkproof.NewBaseMerge(&g47, &aP, &bP, &nP, &rP)
		pp := zkproof.NewProofMerge(&aP, &bP, &nP, &rP)
		{
			other := s.buildProof(g47, new(big.Int).Xor(ch, big.NewInt(0x5a5a5)), commit, &secrets)
			c17Transplant(r, fmt.Sprintf("exp(%d^%d mod %d)", tc[0], tc[1], tc[2]), &proof, &other, ls, func() (bool, []*big.Int) {
				if !s.verifyProofStructure(ch, proof) {
					return false, nil
				}
				return true, s.commitmentsFromProof(g47, nil, ch, &pb, &pp, proof)
			})
		}
		c17Component(r, fmt.Sprintf("exp(%d^%d mod %d)", tc[0], tc[1], tc[2]), &proof, ls, func() (bool, []*big.Int) {
			if !s.verifyProofStructure(ch, proof) {
				return false, nil
			}
			return true, s.commitmentsFromProof(g47, nil, ch, &pb, &pp, proof)
		})
		c17Degenerate(r, fmt.Sprintf("exp(%d^%d mod %d)", tc[0], tc[1], tc[2]), g47.P, []any{&proof, &aP, &bP, &nP, &rP}, func(c *big.Int) (bool, []*big.Int) {
			if !s.verifyProofStructure(c, proof) || !as.verifyProofStructure(aP) || !bs.verifyProofStructure(bP) || !ns.verifyProofStructure(nP) || !rs.verifyProofStructure(rP) {
				return false, nil
			}
			l := as.commitmentsFromProof(g47, nil, c, aP)
			l = bs.commitmentsFromProof(g47, l, c, bP)
			l = ns.commitmentsFromProof(g47, l, c, nP)
			l = rs.commitmentsFromProof(g47, l, c, rP)
			return true, s.commitmentsFromProof(g47, l, c, &pb, &pp, proof)
		})
	}
	// prime
	{
		g := g47
		s := newPrimeProofStructure("p", 4)
		ps := newPedersenStructure("p")
		_, pc := ps.commitmentsFromSecrets(g, nil, big.NewInt(11))
		bases := zkproof.NewBaseMerge(&g, &pc)
		var ls []*big.Int
		var commit primeProofCommit
		built := false
		for attempt := byte(0); attempt < 50 && !built; attempt++ {
			// the builder panics by design when its random witness a is 0 mod p (p = 11 here)
			common.VerifSeedCPRNG([32]byte{43, attempt})
			if pan, _ := vkit.Guard(func() { ls, commit = s.commitmentsFromSecrets(g, nil, &bases, &pc) }); !pan {
				built = true
			}
		}
		if !built {
			r.HarnessError("prime proof instance could not be built")
		} else {
			proof := s.buildProof(g, ch, commit, &pc)
			pP := ps.buildProof(g, ch, pc)
			pP.setName("p")
			bp := zkproof.NewBaseMerge(&g, &pP)
			{
				other := s.buildProof(g, new(big.Int).Xor(ch, big.NewInt(0x5a5a5)), commit, &pc)
				c17Transplant(r, "prime(11)", &proof, &other, ls, func() (bool, []*big.Int) {
					if !s.verifyProofStructure(ch, proof) {
						return false, nil
					}
					return true, s.commitmentsFromProof(g, nil, ch, &bp, &pP, proof)
				})
			}
			c17Component(r, "prime(11)", &proof, ls, func() (bool, []*big.Int) {
				if !s.verifyProofStructure(ch, proof) {
					return false, nil
				}
				return true, s.commitmentsFromProof(g, nil, ch, &bp, &pP, proof)
			})
			c17Degenerate(r, "prime(11)", g.P, []any{&proof, &pP}, func(c *big.Int) (bool, []*big.Int) {
				if !s.verifyProofStructure(c, proof) || !ps.verifyProofStructure(pP) {
					return false, nil
				}
				l := ps.commitmentsFromProof(g, nil, c, pP)
				return true, s.commitmentsFromProof(g, l, c, &bp, &pP, proof)
			})
		}
	}
	// is-square
	{
		g := g47
		s := newIsSquareProofStructure(big.NewInt(77), []*big.Int{big.NewInt(36), big.NewInt(49)})
		ls, commit := s.commitmentsFromSecrets(g, nil, big.NewInt(7), big.NewInt(11))
		proof := s.buildProof(g, ch, commit)
		c17Component(r, "is-square(36,49 mod 77)", &proof, ls, func() (bool, []*big.Int) {
			if !s.verifyProofStructure(proof) {
				return false, nil
			}
			return true, s.commitmentsFromProof(g, nil, ch, proof)
		})
		c17Degenerate(r, "is-square(36,49 mod 77)", g.P, []any{&proof}, func(c *big.Int) (bool, []*big.Int) {
			if !s.verifyProofStructure(proof) {
				return false, nil
			}
			return true, s.commitmentsFromProof(g, nil, c, proof)
		})
	}
}

// ---- (1) Gennaro component proofs ---------------------------------------------------------------------

// reference relations, written independently of the verify functions
func c17Chal(challenge, index *big.Int, i int, bits uint, N *big.Int) *big.Int {
	c := common.GetHashNumber(challenge, index, i, bits)
	return c.Mod(c, N)
}

func c17OddPart(n *big.Int) *big.Int {
	o := new(big.Int).Sub(n, big.NewInt(1))
	for o.Bit(0) == 0 {
		o.Rsh(o, 1)
	}
	return o
}

// answerable: does ANY r in Z_N satisfy the relation for challenge value c?
func c17Answer(kind string, N, c *big.Int) *big.Int {
	n := N.Int64()
	cv := c.Int64()
	for x := int64(0); x < n; x++ {
		X := big.NewInt(x)
		switch kind {
		case "squarefree":
			if new(big.Int).Exp(X, N, N).Cmp(c) == 0 {
				return X
			}
		case "disjoint":
			if new(big.Int).Exp(X, c17OddPart(N), N).Cmp(c) == 0 {
				return X
			}
		case "primepower":
			sq := x * x % n
			if sq == cv || sq == (n-cv)%n || sq == 2*cv%n || sq == (2*n-2*cv%n)%n {
				return X
			}
		}
	}
	return nil
}

func TestVerifC17Gennaro(t *testing.T) {
	r := vkit.Start(t, "C17", "gennaro-components", 600*time.Second, 1200*time.Second)
	defer r.Finish()
	r.Rule = "square-free / prime-power-product / disjoint-prime-product / almost-safe-prime-product proofs: honest on a good toy modulus; for EVERY iteration index a proof valid everywhere but there (response +1; ASPP also commitment and nonce); wrong challenge and wrong index; bad moduli {p^2 q, p q r, p q^3, p q with gcd(N,phi)>1, prime N} with a best-effort cheating prover whose per-iteration answers are found by exhaustive search over Z_N using an independently written relation; non-trivial = distinct (proof kind, modulus, iteration / challenge); oracle: verify accepts iff every iteration is answerable per the reference relation"
	// good toy modulus: safe primes with CanProve
	var P, Q *big.Int
	for _, pq := range [][2]int64{{1019, 1187}, {1187, 1283}, {1283, 1307}, {1019, 1283}, {2027, 2039}, {1823, 2063}, {1907, 2027}} {
		p, q := big.NewInt(pq[0]), big.NewInt(pq[1])
		if CanProve(new(big.Int).Rsh(p, 1), new(big.Int).Rsh(q, 1)) {
			P, Q = p, q
			break
		}
	}
	if P == nil {
		// search
		var sps []int64
		for x := int64(1031); x < 6000 && len(sps) < 40; x += 2 {
			if big.NewInt(x).ProbablyPrime(20) && big.NewInt((x-1)/2).ProbablyPrime(20) {
				sps = append(sps, x)
			}
		}
	search:
		for _, a := range sps {
			for _, b := range sps {
				if a < b && CanProve(big.NewInt((a-1)/2), big.NewInt((b-1)/2)) && (a*b)%8 == 5 && (a*b)%3 == 1 {
					P, Q = big.NewInt(a), big.NewInt(b)
					break search
				}
			}
		}
	}
	if P == nil {
		r.HarnessError("no toy safe-prime pair found")
		return
	}
	N := new(big.Int).Mul(P, Q)
	Pp, Qp := new(big.Int).Rsh(P, 1), new(big.Int).Rsh(Q, 1)
	phi := new(big.Int).Lsh(new(big.Int).Mul(Pp, Qp), 2)
	ch := big.NewInt(987654321)
	r.Bounds["good_modulus"] = N.String()
	inc := func(v *big.Int) *big.Int { return new(big.Int).Add(v, big.NewInt(1)) }
	judge := func(kind, what string, accepted, wantAccept bool) {
		r.Eval()
		r.Nontrivial(kind + "|" + what)
		r.Outcome(fmt.Sprintf("%s:want=%v:got=%v", kind, wantAccept, accepted))
		if accepted != wantAccept {
			cls := "accepted-although-invalid"
			if wantAccept {
				cls = "honest-rejected"
			}
			r.Violate("C17|"+kind+"|"+cls, fmt.Sprintf("%s: %s (accepted=%v, expected %v)", kind, what, accepted, wantAccept), map[string]any{"kind": kind, "case": what})
		}
	}
	guard := func(f func() bool) bool {
		var ok bool
		if pan, _ := vkit.Guard(func() { ok = f() }); pan {
			r.Count("panic while verifying (not accepted)", 1)
			return false
		}
		return ok
	}
	// square free
	{
		sf := squareFreeBuildProof(N, phi, ch, big.NewInt(0))
		judge("squarefree", "honest", guard(func() bool { return squareFreeVerifyStructure(sf) && squareFreeVerifyProof(N, ch, big.NewInt(0), sf) }), true)
		judge("squarefree", "wrong challenge", guard(func() bool { return squareFreeVerifyProof(N, inc(ch), big.NewInt(0), sf) }), false)
		judge("squarefree", "wrong index", guard(func() bool { return squareFreeVerifyProof(N, ch, big.NewInt(1), sf) }), false)
		for i := range sf.Responses {
			alt := SquareFreeProof{Responses: append([]*big.Int{}, sf.Responses...)}
			alt.Responses[i] = inc(alt.Responses[i])
			judge("squarefree", fmt.Sprintf("response %d +1", i), guard(func() bool { return squareFreeVerifyStructure(alt) && squareFreeVerifyProof(N, ch, big.NewInt(0), alt) }), false)
		}
		short := SquareFreeProof{Responses: sf.Responses[:len(sf.Responses)-1]}
		judge("squarefree", "last response dropped", guard(func() bool {
			return squareFreeVerifyStructure(short) && squareFreeVerifyProof(N, ch, big.NewInt(0), short)
		}), false)
	}
	// prime power product
	{
		pp := primePowerProductBuildProof(P, Q, ch, big.NewInt(1))
		judge("primepower", "honest", guard(func() bool {
			return primePowerProductVerifyStructure(pp) && primePowerProductVerifyProof(N, ch, big.NewInt(1), pp)
		}), true)
		judge("primepower", "wrong challenge", guard(func() bool { return primePowerProductVerifyProof(N, inc(ch), big.NewInt(1), pp) }), false)
		judge("primepower", "wrong index", guard(func() bool { return primePowerProductVerifyProof(N, ch, big.NewInt(2), pp) }), false)
		for i := range pp.Responses {
			alt := PrimePowerProductProof{Responses: append([]*big.Int{}, pp.Responses...)}
			// choose a replacement that is not a valid answer: search r+k until the reference relation fails
			c := c17Chal(ch, big.NewInt(1), i, uint(N.BitLen()), N)
			cand := inc(alt.Responses[i])
			for k := 0; k < 50; k++ {
				sq := new(big.Int).Exp(cand, big.NewInt(2), N)
				valid := false
				for _, m := range []int64{1, -1, 2, -2} {
					if sq.Cmp(new(big.Int).Mod(new(big.Int).Mul(c, big.NewInt(m)), N)) == 0 {
						valid = true
					}
				}
				if !valid {
					break
				}
				cand = inc(cand)
			}
			alt.Responses[i] = cand
			judge("primepower", fmt.Sprintf("response %d replaced by a non-root", i), guard(func() bool {
				return primePowerProductVerifyStructure(alt) && primePowerProductVerifyProof(N, ch, big.NewInt(1), alt)
			}), false)
		}
	}
	// disjoint prime product
	{
		dp := disjointPrimeProductBuildProof(P, Q, ch, big.NewInt(2))
		judge("disjoint", "honest", guard(func() bool {
			return disjointPrimeProductVerifyStructure(dp) && disjointPrimeProductVerifyProof(N, ch, big.NewInt(2), dp)
		}), true)
		judge("disjoint", "wrong challenge", guard(func() bool { return disjointPrimeProductVerifyProof(N, inc(ch), big.NewInt(2), dp) }), false)
		judge("disjoint", "wrong index", guard(func() bool { return disjointPrimeProductVerifyProof(N, ch, big.NewInt(0), dp) }), false)
		for i := range dp.Responses {
			alt := DisjointPrimeProductProof{Responses: append([]*big.Int{}, dp.Responses...)}
			alt.Responses[i] = inc(alt.Responses[i])
			judge("disjoint", fmt.Sprintf("response %d +1", i), guard(func() bool {
				return disjointPrimeProductVerifyStructure(alt) && disjointPrimeProductVerifyProof(N, ch, big.NewInt(2), alt)
			}), false)
		}
	}
	// almost safe prime product
	{
		// on a toy modulus a derived base falls outside Z_N* for some nonces (the builder panics by
		// design): take the first seeded nonce for which all 250 bases are units
		var commit almostSafePrimeProductCommit
		for attempt := byte(0); ; attempt++ {
			common.VerifSeedCPRNG([32]byte{42, attempt})
			if pan, _ := vkit.Guard(func() { _, commit = almostSafePrimeProductBuildCommitments(nil, Pp, Qp) }); !pan {
				break
			}
			if attempt == 200 {
				r.HarnessError("no usable nonce for the toy modulus")
				return
			}
		}
		ap := almostSafePrimeProductBuildProof(Pp, Qp, ch, big.NewInt(3), commit)
		verify := func(p AlmostSafePrimeProductProof, c, idx *big.Int) bool {
			return guard(func() bool {
				return almostSafePrimeProductVerifyStructure(p) && almostSafePrimeProductVerifyProof(N, c, idx, p)
			})
		}
		judge("almostsafe", "honest", verify(ap, ch, big.NewInt(3)), true)
		judge("almostsafe", "wrong challenge", verify(ap, inc(ch), big.NewInt(3)), false)
		judge("almostsafe", "wrong index", verify(ap, ch, big.NewInt(0)), false)
		cp := func() AlmostSafePrimeProductProof {
			return AlmostSafePrimeProductProof{Nonce: new(big.Int).Set(ap.Nonce), Commitments: append([]*big.Int{}, ap.Commitments...), Responses: append([]*big.Int{}, ap.Responses...)}
		}
		// the acceptance relation of one iteration, written independently; on a toy modulus an altered
		// commitment or response can satisfy it by chance (the raised values live in a subgroup of a
		// few hundred thousand elements), so the oracle is agreement with the reference, not rejection
		ref := func(p AlmostSafePrimeProductProof, c, idx *big.Int) bool {
			if new(big.Int).Mod(N, big.NewInt(3)).Int64() != 1 {
				return false
			}
			gamma := new(big.Int).Lsh(big.NewInt(1), uint(N.BitLen()))
			for i := range p.Responses {
				base := c17Chal(p.Nonce, nil, i, uint(N.BitLen()), N)
				x := common.GetHashNumber(c, idx, i, uint(2*N.BitLen()))
				y := new(big.Int).Mul(p.Commitments[i], new(big.Int).Exp(base, x, N))
				y.Mod(y, N).Exp(y, gamma, N)
				e := new(big.Int).Mul(gamma, new(big.Int).Mul(p.Responses[i], p.Responses[i]))
				t := new(big.Int).Exp(base, e, N)
				ti := new(big.Int).ModInverse(t, N)
				t2 := new(big.Int).Exp(t, big.NewInt(2), N)
				t2i := new(big.Int).ModInverse(t2, N)
				ok := false
				for _, cand := range []*big.Int{t, ti, t2, t2i} {
					if cand != nil && cand.Cmp(y) == 0 {
						ok = true
					}
				}
				if !ok {
					return false
				}
			}
			return true
		}
		a := cp()
		a.Nonce = inc(a.Nonce)
		judge("almostsafe", "nonce +1", verify(a, ch, big.NewInt(3)), ref(a, ch, big.NewInt(3)))
		chance := 0
		for i := range ap.Responses {
			a := cp()
			a.Responses[i] = inc(a.Responses[i])
			want := ref(a, ch, big.NewInt(3))
			if want {
				chance++
			}
			judge("almostsafe", fmt.Sprintf("response %d +1", i), verify(a, ch, big.NewInt(3)), want)
			b := cp()
			b.Commitments[i] = inc(b.Commitments[i])
			want = ref(b, ch, big.NewInt(3))
			if want {
				chance++
			}
			judge("almostsafe", fmt.Sprintf("commitment %d +1", i), verify(b, ch, big.NewInt(3)), want)
		}
		r.Count("almostsafe alterations that satisfy the relation by chance on the toy modulus", int64(chance))
		if chance > 20 {
			r.Violate("C17|almostsafe|alterations-mostly-accepted", fmt.Sprintf("%d of 500 single alterations still satisfy the relation", chance), nil)
		}
	}
	// bad moduli with a best-effort cheating prover (exhaustive search per iteration)
	type bad struct {
		name string
		n    int64
	}
	bads := []bad{{"p^2*q (7^2*11)", 539}, {"p*q*r (7*11*13)", 1001}, {"p*q^3 (5*7^3)", 1715}, {"p*q with q | p-1 (7*29)", 203}, {"prime (1019)", 1019}, {"p^2 (31^2)", 961}, {"p*q*r (3*5*7)", 105}}
	for _, b := range bads {
		if _, mine := r.Next(); !mine {
			continue
		}
		BN := big.NewInt(b.n)
		for ci := 0; ci < vkit.Pick(3, 12); ci++ {
			c := new(big.Int).Add(ch, big.NewInt(int64(ci)))
			for _, kind := range []string{"squarefree", "primepower", "disjoint"} {
				iters := map[string]int{"squarefree": squareFreeIters, "primepower": primePowerProductIters, "disjoint": disjointPrimeProductIters}[kind]
				index := map[string]*big.Int{"squarefree": big.NewInt(0), "primepower": big.NewInt(1), "disjoint": big.NewInt(2)}[kind]
				resp := make([]*big.Int, iters)
				all := true
				answerable := 0
				for i := 0; i < iters; i++ {
					cv := c17Chal(c, index, i, uint(BN.BitLen()), BN)
					resp[i] = c17Answer(kind, BN, cv)
					if resp[i] == nil {
						all = false
						resp[i] = big.NewInt(1)
					} else {
						answerable++
					}
				}
				want := all
				if kind == "disjoint" && BN.ProbablyPrime(20) {
					want = false // the verifier must refuse prime N outright
				}
				var got bool
				switch kind {
				case "squarefree":
					got = guard(func() bool { return squareFreeVerifyProof(BN, c, index, SquareFreeProof{Responses: resp}) })
				case "primepower":
					got = guard(func() bool {
						return primePowerProductVerifyProof(BN, c, index, PrimePowerProductProof{Responses: resp})
					})
				case "disjoint":
					got = guard(func() bool {
						return disjointPrimeProductVerifyProof(BN, c, index, DisjointPrimeProductProof{Responses: resp})
					})
				}
				judge(kind, fmt.Sprintf("bad modulus %s, challenge #%d, cheating prover answers %d/%d iterations", b.name, ci, answerable, iters), got, want)
			}
		}
		r.Sample(map[string]any{"bad_modulus": b.name, "N": b.n})
	}
}

func TestVerifC17TopLevel(t *testing.T) {
	r := vkit.Start(t, "C17", "top-level", 400*time.Second, 1800*time.Second)
	defer r.Finish()
	r.Rule = "one toy key (48-bit safe primes, CanProve) with 2 bases: BuildProof, VerifyProof, JSON round trip; a second honest proof (own group prime) and an altered one on structures that already built / verified another proof; verification against N+2k, a foreign modulus, an altered / reordered / shortened base list; each top-level field replaced by the corresponding field of a valid proof for another key (thorough); non-trivial = distinct full verification; oracle: unaltered => accepted, anything else => rejected"
	if r.Shard != 0 {
		return
	}
	mk := func(label string) (*big.Int, *big.Int, *big.Int) {
		rd := c17Seeded(label)
		for {
			p := c17SafePrime(rd, 48)
			q := c17SafePrime(rd, 48)
			if p.Cmp(q) != 0 && CanProve(new(big.Int).Rsh(p, 1), new(big.Int).Rsh(q, 1)) {
				return new(big.Int).Mul(p, q), new(big.Int).Rsh(p, 1), new(big.Int).Rsh(q, 1)
			}
		}
	}
	N, pp, qp := mk("key1")
	bases := []*big.Int{big.NewInt(36), big.NewInt(49)}
	s := NewValidKeyProofStructure(N, bases)
	proof := s.BuildProof(pp, qp)
	verify := func(what string, st ValidKeyProofStructure, p ValidKeyProof, want bool) {
		if r.Expired() {
			return
		}
		r.Eval()
		r.Nontrivial(what)
		var ok bool
		if pan, msg := vkit.Guard(func() { ok = st.VerifyProof(p) }); pan {
			r.Count("panic during VerifyProof (not accepted)", 1)
			_ = msg
			ok = false
		}
		r.Outcome(fmt.Sprintf("%s:accepted=%v", what, ok))
		if ok != want {
			cls := "accepted-although-altered"
			if want {
				cls = "honest-proof-rejected"
			}
			r.Violate("C17|top-level|"+cls+"|"+what, what, what)
		}
	}
	verify("honest", s, proof, true)
	js, err := json.Marshal(proof)
	if err != nil {
		r.Violate("C17|top-level|proof-not-serialisable", err.Error(), nil)
	} else {
		var back ValidKeyProof
		if err := json.Unmarshal(js, &back); err != nil {
			r.Violate("C17|top-level|proof-not-deserialisable", err.Error(), nil)
		} else {
			verify("after JSON round trip", s, back, true)
		}
	}
	// object reuse: a structure that has built or verified one proof must treat the next one (which has
	// its own, different group prime) like a fresh structure does
	{
		sB := NewValidKeyProofStructure(N, bases)
		proofB := sB.BuildProof(pp, qp)
		if proofB.GroupPrime.Cmp(proof.GroupPrime) == 0 {
			r.Count("second proof drew the same group prime (reuse cases trivial)", 1)
		}
		verify("second honest proof on the structure that built the first", s, proofB, true)
		verify("first honest proof on the structure that built the second", sB, proof, true)
		sV := NewValidKeyProofStructure(N, bases)
		for i, p := range []ValidKeyProof{proof, proofB, proof} {
			r.Eval()
			what := fmt.Sprintf("verification %d of 3 (proofs with different group primes) on one verifier structure", i+1)
			r.Nontrivial(what)
			var ok bool
			if pan, _ := vkit.Guard(func() { ok = sV.VerifyProof(p) }); pan {
				ok = false
			}
			r.Outcome(fmt.Sprintf("reuse:accepted=%v", ok))
			if !ok {
				r.Violate("C17|top-level|honest-proof-rejected|structure reused", what, what)
			}
		}
		// and an altered proof stays rejected on a structure that has just accepted the honest one
		bad := proofB
		bad.GroupPrime = proof.GroupPrime
		r.Eval()
		r.Nontrivial("reuse: proof B with the group prime of proof A on the reused verifier")
		var ok bool
		if pan, _ := vkit.Guard(func() { ok = sV.VerifyProof(bad) }); !pan && ok {
			r.Violate("C17|top-level|accepted-although-altered|group prime replaced, structure reused", "", nil)
		}
	}
	verify("modulus N+8", NewValidKeyProofStructure(new(big.Int).Add(N, big.NewInt(8)), bases), proof, false)
	verify("base list altered", NewValidKeyProofStructure(N, []*big.Int{big.NewInt(36), big.NewInt(64)}), proof, false)
	if vkit.Thorough() {
		verify("base list reordered", NewValidKeyProofStructure(N, []*big.Int{big.NewInt(49), big.NewInt(36)}), proof, false)
		verify("base list shortened", NewValidKeyProofStructure(N, []*big.Int{big.NewInt(36)}), proof, false)
		N2, pp2, qp2 := mk("key2")
		s2 := NewValidKeyProofStructure(N2, bases)
		proof2 := s2.BuildProof(pp2, qp2)
		verify("proof of another key against this modulus", s, proof2, false)
		// field transplants
		v1, v2 := reflect.ValueOf(&proof).Elem(), reflect.ValueOf(&proof2).Elem()
		for i := 0; i < v1.NumField(); i++ {
			alt := proof
			reflect.ValueOf(&alt).Elem().Field(i).Set(v2.Field(i))
			verify("field "+v1.Type().Field(i).Name+" from a valid proof for another key", s, alt, false)
		}
	}
	r.Sample(map[string]any{"N_bits": N.BitLen(), "bases": 2})
}

// TestVerifC17StepDuplicates: inside the "bit = 1" branch of an exponentiation step the prover sends a
// second copy of the commitment to the base power (it needs responses under the branch's own challenge).
// The multiplication post = pre * mul mod m that the branch proves must be about the value the
// SURROUNDING proof committed to, not about whatever the copy commits to: a prover who commits to mul
// outside and multiplies with another value inside proves nothing about the exponentiation.
func TestVerifC17StepDuplicates(t *testing.T) {
	r := vkit.Start(t, "C17", "exp-step-duplicate-commitment", 120*time.Second, 600*time.Second)
	defer r.Finish()
	r.Rule = "exponentiation step (bit = 1) in a 700-bit group: surrounding commitments to (pre, mul, mod, post) with post = pre*cheat mod m for cheat != mul, the prover answering with cheat in the branch's copy; (pre, mul, cheat, mod) over {2,3,7} x {3,4} x {5,6,9} x {11,13}; control: cheat = mul (honest); non-trivial = distinct tuple; oracle: honest => the verifier rebuilds the prover's commitment list; cheating (statement false for the committed values) => it does not"
	g, gok := zkproof.BuildGroup(findConvenientPrime(700))
	if !gok {
		r.HarnessError("group")
		return
	}
	challenge := big.NewInt(123456789)
	for _, pre := range []int64{2, 3, 7} {
		for _, mul := range []int64{3, 4} {
			for _, cheat := range []int64{3, 4, 5, 6, 9} {
				for _, mod := range []int64{11, 13} {
					if _, mine := r.Next(); !mine {
						continue
					}
					post := pre * cheat % mod
					honest := pre*mul%mod == post
					desc := fmt.Sprintf("pre=%d committed mul=%d, multiplied with %d, mod=%d, post=%d", pre, mul, cheat, mod, post)
					r.Eval()
					r.Nontrivial(desc)
					bitS, preS, postS, mulS, modS := newPedersenStructure("bit"), newPedersenStructure("pre"), newPedersenStructure("post"), newPedersenStructure("mul"), newPedersenStructure("mod")
					_, bitC := bitS.commitmentsFromSecrets(g, nil, big.NewInt(1))
					_, preC := preS.commitmentsFromSecrets(g, nil, big.NewInt(pre))
					_, postC := postS.commitmentsFromSecrets(g, nil, big.NewInt(post))
					_, mulC := mulS.commitmentsFromSecrets(g, nil, big.NewInt(mul))
					_, modC := modS.commitmentsFromSecrets(g, nil, big.NewInt(mod))
					_, cheatC := mulS.commitmentsFromSecrets(g, nil, big.NewInt(cheat))
					if cheat == mul {
						cheatC = mulC
					}
					bases := zkproof.NewBaseMerge(&g, &bitC, &preC, &postC, &mulC, &modC)
					cheatSecrets := zkproof.NewSecretMerge(&bitC, &preC, &postC, &cheatC, &modC)
					s := newExpStepBStructure("bit", "pre", "post", "mul", "mod", 4)
					var same, structOK bool
					pan, msg := vkit.Guard(func() {
						listSecrets, commit := s.commitmentsFromSecrets(g, []*big.Int{}, &bases, &cheatSecrets)
						proof := s.buildProof(g, challenge, commit, &cheatSecrets)
						structOK = s.verifyProofStructure(proof)
						bitP, preP, postP, mulP, modP := bitS.buildProof(g, challenge, bitC), preS.buildProof(g, challenge, preC), postS.buildProof(g, challenge, postC), mulS.buildProof(g, challenge, mulC), modS.buildProof(g, challenge, modC)
						bitP.setName("bit")
						preP.setName("pre")
						postP.setName("post")
						mulP.setName("mul")
						modP.setName("mod")
						pb := zkproof.NewBaseMerge(&g, &bitP, &preP, &postP, &mulP, &modP)
						same = c17SameList(listSecrets, s.commitmentsFromProof(g, []*big.Int{}, challenge, &pb, proof))
					})
					accepted := !pan && structOK && same
					r.Outcome(fmt.Sprintf("honest=%v:accepted=%v", honest, accepted))
					switch {
					case pan && honest:
						r.Violate("C17|exp-step|honest-step-panicked", desc+": "+msg, desc)
					case honest && !accepted:
						r.Violate("C17|exp-step|honest-step-rejected", desc, desc)
					case !honest && accepted:
						r.Violate("C17|exp-step|multiplication-with-a-value-other-than-the-committed-one-accepted", desc+": the verifier rebuilds exactly the prover's commitments although post != pre*mul mod m for the committed values", desc)
					}
				}
			}
		}
	}
}

// TestVerifC17GennaroSizes: the Gennaro-style part (square-free, prime-power, disjoint, almost-safe-prime
// product; run as a whole through the quasi-safe-prime-product proof) for good keys of MANY sizes, in
// particular every size at which the number of 256-bit blocks of a derived hash number changes between
// neighbouring lengths (|N| around multiples of 128): prover and verifier derive their challenges from
// lengths computed separately and have to agree at every size.
func TestVerifC17GennaroSizes(t *testing.T) {
	r := vkit.Start(t, "C17", "gennaro-part-per-size", 300*time.Second, 900*time.Second)
	defer r.Finish()
	sizes := []uint{48, 56, 62, 63, 64, 65, 66, 67, 96, 127, 128, 129, 130}
	if vkit.Thorough() {
		sizes = nil
		for b := uint(40); b <= 136; b++ {
			sizes = append(sizes, b)
		}
	}
	r.Rule = fmt.Sprintf("safe primes p, q of b bits each for b in %v (two keys per size, CanProve), 3 nonces each; honest quasi-safe-prime-product proof (all four Gennaro-style parts) built and verified; non-trivial = distinct (size, key, nonce); oracle: accepted", sizes)
	for _, bits := range sizes {
		if _, mine := r.Next(); !mine {
			continue
		}
		if r.Expired() {
			return
		}
		rd := c17Seeded(fmt.Sprintf("gennaro-size-%d", bits))
		for key := 0; key < 2; key++ {
			var P, Q *big.Int
			for tries := 0; tries < 400; tries++ {
				P, Q = c17SafePrime(rd, int(bits)), c17SafePrime(rd, int(bits))
				if P.Cmp(Q) != 0 && CanProve(new(big.Int).Rsh(P, 1), new(big.Int).Rsh(Q, 1)) {
					break
				}
				P = nil
			}
			if P == nil {
				r.Count(fmt.Sprintf("no provable pair of %d-bit safe primes found", bits), 1)
				continue
			}
			N := new(big.Int).Mul(P, Q)
			Pp, Qp := new(big.Int).Rsh(P, 1), new(big.Int).Rsh(Q, 1)
			for nonce := byte(0); nonce < 3; nonce++ {
				desc := fmt.Sprintf("%d-bit primes (|N|=%d), key %d, nonce %d", bits, N.BitLen(), key, nonce)
				r.Eval()
				r.Nontrivial(desc)
				ch := common.HashCommit([]*big.Int{N, big.NewInt(int64(nonce))}, false)
				var ok, built bool
				for attempt := byte(0); attempt < 100 && !built; attempt++ {
					// (on small moduli a derived base falls outside Z_N* for some nonces: the builder panics by design)
					common.VerifSeedCPRNG([32]byte{44, byte(bits), nonce, attempt})
					pan, _ := vkit.Guard(func() {
						_, qc := quasiSafePrimeProductBuildCommitments(nil, Pp, Qp)
						proof := quasiSafePrimeProductBuildProof(Pp, Qp, ch, qc)
						ok = quasiSafePrimeProductVerifyStructure(proof) && quasiSafePrimeProductVerifyProof(N, ch, proof)
					})
					built = !pan
				}
				r.Outcome(fmt.Sprintf("|N| mod 128 in [0,3]=%v:built=%v:accepted=%v", N.BitLen()%128 <= 3, built, ok))
				if !built {
					r.Count("no usable nonce for "+desc, 1)
					continue
				}
				if !ok {
					r.Violate("C17|gennaro-part|honest-proof-of-a-good-key-rejected", desc, desc)
				}
			}
		}
	}
}
