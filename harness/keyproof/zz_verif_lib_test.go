//go:build verif

package keyproof

import (
	"crypto/sha256"
	"encoding/binary"

	"github.com/privacybydesign/gabi/big"
)

type c17Rand struct {
	seed [32]byte
	ctr  uint64
}

func c17Seeded(label string) *c17Rand { return &c17Rand{seed: sha256.Sum256([]byte("c17:" + label))} }

func (r *c17Rand) next(bits int) *big.Int {
	var out []byte
	for len(out)*8 < bits {
		var in [40]byte
		copy(in[:], r.seed[:])
		binary.BigEndian.PutUint64(in[32:], r.ctr)
		r.ctr++
		h := sha256.Sum256(in[:])
		out = append(out, h[:]...)
	}
	v := new(big.Int).SetBytes(out)
	return v.Rsh(v, uint(len(out)*8-bits))
}

// c17SafePrime: deterministic safe prime of exactly `bits` bits.
func c17SafePrime(r *c17Rand, bits int) *big.Int {
	for {
		q := r.next(bits - 1)
		q.SetBit(q, bits-2, 1)
		q.SetBit(q, 0, 1)
		if !q.ProbablyPrime(20) {
			continue
		}
		p := new(big.Int).Lsh(q, 1)
		p.Add(p, big.NewInt(1))
		if p.ProbablyPrime(20) {
			return p
		}
	}
}
