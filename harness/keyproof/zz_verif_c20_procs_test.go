//go:build verif

package keyproof

// C20 — the exp proof's worker pool under processor settings other than the default: the pool sizes
// its WaitGroup and its workers from the runtime, and the two must agree whatever GOMAXPROCS is.

import (
	"fmt"
	"runtime"
	"testing"
	"time"

	"github.com/privacybydesign/gabi/big"
	"github.com/privacybydesign/gabi/internal/common"
	"github.com/privacybydesign/gabi/internal/verif/vkit"
	"github.com/privacybydesign/gabi/zkproof"
)

func TestVerifC20Procs(t *testing.T) {
	r := vkit.Start(t, "C20", "processor-settings", 200*time.Second, 600*time.Second)
	defer r.Finish()
	n := runtime.NumCPU()
	r.Rule = fmt.Sprintf("exp proof (2^5 = -1 mod 11) built from secrets and reconstructed from the proof, free-running, 3 times per setting, with GOMAXPROCS in {NumCPU+2, NumCPU+1, 2*NumCPU, 1, 2, NumCPU-1, NumCPU} (NumCPU = %d under the runner's affinity mask), settings above NumCPU first; non-trivial = distinct (setting, repetition); oracle: returns (no evaluation completed for 120 s => non-termination), no nil slot in the commitment list, reconstruction equals construction", n)
	cur := ""
	defer r.Watch(120*time.Second, func() string { return cur })()
	old := runtime.GOMAXPROCS(0)
	defer runtime.GOMAXPROCS(old)
	g, _ := zkproof.BuildGroup(c17SafePrime(c17Seeded("group-procs"), 40))
	ch := big.NewInt(77)
	seen := map[int]bool{}
	for _, procs := range []int{n + 2, n + 1, 2 * n, 1, 2, n - 1, n} {
		if procs < 1 || seen[procs] {
			continue
		}
		seen[procs] = true
		runtime.GOMAXPROCS(procs)
		for rep := 0; rep < 3; rep++ {
			cur = fmt.Sprintf("exp proof with GOMAXPROCS=%d (NumCPU=%d)", procs, n)
			common.VerifSeedCPRNG([32]byte{9, byte(procs), byte(rep)})
			as, bs, ns, rs := newPedersenStructure("a"), newPedersenStructure("b"), newPedersenStructure("n"), newPedersenStructure("r")
			_, ap := as.commitmentsFromSecrets(g, nil, big.NewInt(2))
			_, bp := bs.commitmentsFromSecrets(g, nil, big.NewInt(5))
			_, np := ns.commitmentsFromSecrets(g, nil, big.NewInt(11))
			_, rp := rs.commitmentsFromSecrets(g, nil, big.NewInt(-1))
			bases := zkproof.NewBaseMerge(&g, &ap, &bp, &np, &rp)
			secrets := zkproof.NewSecretMerge(&ap, &bp, &np, &rp)
			s := newExpProofStructure("a", "b", "n", "r", 3)
			var ls, lp []*big.Int
			pan, msg := vkit.Guard(func() {
				var commit expProofCommit
				ls, commit = s.commitmentsFromSecrets(g, nil, &bases, &secrets)
				proof := s.buildProof(g, ch, commit, &secrets)
				aP, bP, nP, rP := as.buildProof(g, ch, ap), bs.buildProof(g, ch, bp), ns.buildProof(g, ch, np), rs.buildProof(g, ch, rp)
				aP.setName("a")
				bP.setName("b")
				nP.setName("n")
				rP.setName("r")
				pb := zkproof.NewBaseMerge(&g, &aP, &bP, &nP, &rP)
				pp := zkproof.NewProofMerge(&aP, &bP, &nP, &rP)
				lp = s.commitmentsFromProof(g, nil, ch, &pb, &pp, proof)
			})
			r.Eval()
			r.Nontrivial(fmt.Sprintf("procs|%d|%d", procs, rep))
			sig := ""
			switch {
			case pan:
				sig = "panic: " + msg
			default:
				for _, v := range ls {
					if v == nil {
						sig = "commitment-list-incomplete"
					}
				}
				if sig == "" && !c17SameList(ls, lp) {
					sig = "reconstructed-commitments-differ"
				}
			}
			r.Outcome(fmt.Sprintf("GOMAXPROCS %s NumCPU:%s", map[bool]string{true: ">", false: "<="}[procs > n], map[bool]string{true: "ok", false: sig}[sig == ""]))
			if sig != "" {
				r.Violate("C20|exp-worker-pool|processor-setting|"+sig, cur, map[string]any{"gomaxprocs": procs, "numcpu": n})
			}
		}
	}
}
