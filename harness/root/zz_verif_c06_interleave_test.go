//go:build verif

package gabi

// C06 — two honest issuance runs served by ONE Issuer object, with the issuer's two internal steps
// (sign the commitment and attributes; prove the signature correct) interleaved in every order that keeps
// each run's own order: whatever the issuer keeps between its steps must belong to the run, not to the
// Issuer.  (Kept in a unit of its own: it calls the two unexported steps directly.)

import (
	"fmt"
	"testing"
	"time"

	"github.com/privacybydesign/gabi/big"
	"github.com/privacybydesign/gabi/internal/verif/vkit"
)

func TestVerifC06Interleaved(t *testing.T) {
	r := vkit.Start(t, "C06", "interleaved-runs-on-one-issuer", 120*time.Second, 600*time.Second)
	defer r.Finish()
	r.Rule = "two (and three) honest runs A, B(, C) against one Issuer object, steps sign(X) and prove(X) of each run in every interleaving that preserves sign(X) before prove(X) (6 orders for two runs, 90 for three), toy and 1024-bit keys, with and without a random-blind attribute; non-trivial = distinct (key, blind, order); oracle: every holder's ConstructCredential succeeds and its signature verifies over (secret, attributes)"
	vfInstallEnv(t, "C06/interleave", r.Seed)
	var orders func(rem []int, done []int, cur []string, out *[][]string)
	// rem[x]: steps left for run x (2 = sign and prove, 1 = prove)
	orders = func(rem []int, done []int, cur []string, out *[][]string) {
		all := true
		for x, n := range rem {
			if n > 0 {
				all = false
				step := "sign"
				if n == 1 {
					step = "prove"
				}
				rem[x]--
				orders(rem, done, append(cur, fmt.Sprintf("%s:%d", step, x)), out)
				rem[x]++
			}
		}
		if all {
			*out = append(*out, append([]string{}, cur...))
		}
	}
	for _, keyName := range []string{"toyA", "k1024a"} {
		for _, nruns := range []int{2, 3} {
			if nruns == 3 && keyName != "toyA" {
				continue
			}
			for _, blind := range [][]int{nil, {1}} {
				var ords [][]string
				rem := make([]int, nruns)
				for i := range rem {
					rem[i] = 2
				}
				orders(rem, nil, nil, &ords)
				for _, ord := range ords {
					if _, mine := r.Next(); !mine {
						continue
					}
					if r.Expired() {
						return
					}
					r.Eval()
					desc := fmt.Sprintf("%s blind=%v order=%v", keyName, blind, ord)
					r.Nontrivial(desc)
					k := vfK(keyName)
					issuer := NewIssuer(k.Sk, k.Pk, vfContext)
					type run struct {
						cb    *CredentialBuilder
						msg   *IssueCommitmentMessage
						attrs []*big.Int
						sig   *CLSignature
						mI    map[int]*big.Int
						ism   *IssueSignatureMessage
					}
					runs := make([]*run, nruns)
					bad := ""
					for x := range runs {
						ru := &run{attrs: []*big.Int{vfTag(fmt.Sprint("c06i-a", x)), vfTag(fmt.Sprint("c06i-b", x)), vfInt(int64(40 + x))}}
						for _, b := range blind {
							ru.attrs[b] = nil
						}
						var err error
						ru.cb, err = NewCredentialBuilder(k.Pk, vfContext, vfTag(fmt.Sprint("c06i-secret", x)), vfInt(int64(0x2220+x)), nil, blind)
						if err == nil {
							ru.msg, err = ru.cb.CommitToSecretAndProve(vfInt(int64(0x1110 + x)))
						}
						if err != nil {
							r.HarnessError("holder %d: %v", x, err)
							return
						}
						runs[x] = ru
					}
					pan, msg := vkit.Guard(func() {
						for _, st := range ord {
							var step string
							var x int
							fmt.Sscanf(st, "%5s", &step)
							if st[:4] == "sign" {
								fmt.Sscanf(st, "sign:%d", &x)
								ru := runs[x]
								var err error
								ru.sig, ru.mI, err = issuer.signCommitmentAndAttributes(ru.msg.U, append([]*big.Int{}, ru.attrs...), blind)
								if err != nil {
									bad = fmt.Sprintf("sign(%d): %v", x, err)
									return
								}
							} else {
								fmt.Sscanf(st, "prove:%d", &x)
								ru := runs[x]
								proof, err := issuer.proveSignature(ru.sig, ru.msg.Nonce2)
								if err != nil {
									bad = fmt.Sprintf("prove(%d): %v", x, err)
									return
								}
								ru.ism = &IssueSignatureMessage{Signature: ru.sig, Proof: proof, MIssuer: ru.mI}
							}
						}
					})
					if pan {
						bad = "panic: " + msg
					}
					for x, ru := range runs {
						if bad != "" {
							break
						}
						attrs := append([]*big.Int{}, ru.attrs...)
						cred, err := ru.cb.ConstructCredential(ru.ism, attrs)
						if err != nil {
							bad = fmt.Sprintf("holder of run %d: %v", x, err)
						} else if !cred.Signature.Verify(k.Pk, cred.Attributes) {
							bad = fmt.Sprintf("credential of run %d does not verify", x)
						}
					}
					r.Outcome(fmt.Sprintf("runs=%d:blind=%d:all credentials constructed=%v", nruns, len(blind), bad == ""))
					if bad != "" {
						r.Violate("C06|honest-run-failed|runs-interleaved-on-one-issuer", desc+": "+bad, desc)
					}
				}
			}
		}
	}
}
