//go:build verif

package gabi

// C04 — selective disclosure is complete and minimal.
//
// All 2^k disclosure subsets (k non-secret attributes) x value rotations over the boundary
// alphabet x {disclosure, signature} sessions x {plain, non-revocation} credentials.  Oracle:
// proof verifies; a_disclosed = chosen set with true values; a_responses = complement incl. 0;
// timestamp contribution = true values at chosen indices and 0 elsewhere; leaf scan: no
// big-integer leaf and no textual form of a hidden value (or of its hash) occurs in the proof
// JSON or in the timestamp contribution.

import (
	"encoding/base64"
	"encoding/json"
	"fmt"
	"strings"
	"testing"
	"time"

	"github.com/privacybydesign/gabi/big"
	"github.com/privacybydesign/gabi/gabikeys"
	"github.com/privacybydesign/gabi/internal/common"
	"github.com/privacybydesign/gabi/internal/verif/vkit"
)

// c04Leaves returns every integer that can be decoded from a string/number leaf of the JSON.
func c04Leaves(js []byte) []*big.Int {
	var tree any
	dec := json.NewDecoder(strings.NewReader(string(js)))
	dec.UseNumber()
	if err := dec.Decode(&tree); err != nil {
		return nil
	}
	var out []*big.Int
	var walk func(v any)
	walk = func(v any) {
		switch x := v.(type) {
		case map[string]any:
			for _, c := range x {
				walk(c)
			}
		case []any:
			for _, c := range x {
				walk(c)
			}
		case string:
			if b, err := base64.StdEncoding.DecodeString(x); err == nil {
				out = append(out, new(big.Int).SetBytes(b))
			}
			if b, err := base64.URLEncoding.DecodeString(x); err == nil {
				out = append(out, new(big.Int).SetBytes(b))
			}
			if n, ok := new(big.Int).SetString(x, 10); ok {
				out = append(out, n)
			}
		case json.Number:
			if n, ok := new(big.Int).SetString(x.String(), 10); ok {
				out = append(out, n)
			}
		}
	}
	walk(tree)
	return out
}

// c04Distinctive: the value has no long run of equal bytes (so an accidental textual hit is impossible).
func c04Distinctive(v *big.Int) bool {
	b := v.Bytes()
	run := 1
	for i := 1; i < len(b); i++ {
		if b[i] == b[i-1] {
			run++
			if run >= 4 {
				return false
			}
		} else {
			run = 1
		}
	}
	return len(b) >= 8
}

// c04Forms: textual forms under which a value could leak.
func c04Forms(v *big.Int) []string {
	b := v.Bytes()
	return []string{v.Text(10), v.Text(16), strings.ToUpper(v.Text(16)), base64.StdEncoding.EncodeToString(b), base64.RawStdEncoding.EncodeToString(b), base64.URLEncoding.EncodeToString(b)}
}

func c04Run(t *testing.T, sub, keyName string, maxK int, nonrev bool, qb, tb time.Duration) {
	r := vkit.Start(t, "C04", sub, qb, tb)
	defer r.Finish()
	r.Rule = "k=1..K attributes and k = every base of the key used, values = rotation of {tag,0,1,2^Lm-1,2^Lm,2^(Lm+200)+c} over positions, every subset of {1..k} disclosed (index list ascending, descending or rotated by one, by rotation number), both session kinds, via CreateDisclosureProof and via builder+BuildProofList (every third builder after an abandoned first attempt with other randomisers); non-trivial = distinct (k,rotation,subset,session,path); oracle: verifies; key sets exact and values true; timestamp contribution exact; no hidden value (>=64 bits) nor its SHA-256 exponent appears as a JSON leaf or substring"
	k := vfK(keyName)
	pk := k.Pk
	vfInstallEnv(t, "C04/"+sub, r.Seed)
	secret := vfTag("c04-secret-" + keyName)
	al := vfValueAlphabet(pk.Params.Lm)
	r.Bounds["max_k"] = maxK
	r.Bounds["nonrev"] = nonrev
	// attribute counts 1..K and the count that uses every base of the key (its last base included)
	var kks []int
	for kk := 1; kk <= maxK; kk++ {
		kks = append(kks, kk)
	}
	full := len(pk.R) - 1
	if nonrev {
		full--
	}
	if full > maxK {
		kks = append(kks, full)
	}
	r.Bounds["attribute_counts"] = kks
	for _, kk := range kks {
		rots := 6
		if kk > maxK {
			rots = 2
		}
		for rot := 0; rot < rots; rot++ {
			vals := make([]*big.Int, kk)
			for i := range vals {
				switch (i + rot) % 6 {
				case 0:
					vals[i] = vfTag(fmt.Sprintf("c04-%d-%d-%d", kk, rot, i))
				default:
					vals[i] = al[((i+rot)%6+5)%6] // 0,1,50 skipped below; see mapping
				}
			}
			// explicit mapping so that every alphabet value (0,1,2^Lm-1,2^Lm,large) occurs
			for i := range vals {
				switch (i + rot) % 6 {
				case 1:
					vals[i] = al[0]
				case 2:
					vals[i] = al[1]
				case 3:
					vals[i] = al[3]
				case 4:
					vals[i] = al[4]
				case 5:
					vals[i] = new(big.Int).Add(al[5], vfInt(int64(i)))
				}
			}
			for _, Dsorted := range vfSubsets(1, kk) {
				// the caller may list the chosen indices in any order: ascending, descending, rotated by one
				D := append([]int{}, Dsorted...)
				switch rot % 3 {
				case 1:
					for i, j := 0, len(D)-1; i < j; i, j = i+1, j-1 {
						D[i], D[j] = D[j], D[i]
					}
				case 2:
					if len(D) > 1 {
						D = append(D[1:], D[0])
					}
				}
				for _, issig := range []bool{false, true} {
					_, mine := r.Next()
					if !mine {
						continue
					}
					if r.Expired() {
						return
					}
					var cred *Credential
					if nonrev {
						cred = vfMintRev(k, secret, vals, kk+rot)
					} else {
						cred = vfMint(k, secret, vals, kk+rot)
					}
					attrs := cred.Attributes
					caseID := map[string]any{"key": keyName, "k": kk, "rotation": rot, "disclosed": D, "issig": issig, "nonrev": nonrev}
					r.Sample(caseID)
					inD := map[int]bool{}
					for _, i := range D {
						inD[i] = true
					}
					judge := func(path string, p *ProofD, tsA *big.Int, ts []*big.Int, ok bool) {
						r.Eval()
						r.Nontrivial(fmt.Sprintf("%s|%d|%d|%v|%v|%s", keyName, kk, rot, D, issig, path))
						r.Outcome(fmt.Sprintf("%s:attributes=%d:disclosed=%d:issig=%v:verified=%v", path, kk, len(D), issig, ok))
						if !ok {
							r.Violate("C04|honest-proof-rejected|"+path, fmt.Sprintf("proof for %v does not verify", caseID), caseID)
						}
						// key sets
						for i := range attrs {
							_, dis := p.ADisclosed[i]
							_, hid := p.AResponses[i]
							if inD[i] && (!dis || hid) || !inD[i] && (dis || !hid) {
								r.Violate("C04|index-sets-not-exact|"+path, fmt.Sprintf("index %d: chosen=%v disclosed=%v hidden=%v", i, inD[i], dis, hid), caseID)
							}
							if dis && (p.ADisclosed[i] == nil || p.ADisclosed[i].Cmp(attrs[i]) != 0) {
								r.Violate("C04|disclosed-value-not-true|"+path, fmt.Sprintf("a_disclosed[%d]=%s, attribute=%s", i, vfShort(p.ADisclosed[i]), vfShort(attrs[i])), caseID)
							}
						}
						if len(p.ADisclosed)+len(p.AResponses) != len(attrs) {
							r.Violate("C04|index-sets-not-exact|"+path, "extra indices in the proof", caseID)
						}
						if ts != nil {
							if len(ts) != len(attrs) {
								r.Violate("C04|timestamp-contribution-wrong|"+path, "wrong length", caseID)
							}
							for i := range ts {
								want := vfInt(0)
								if inD[i] {
									want = attrs[i]
								}
								if i < len(attrs) && ts[i].Cmp(want) != 0 {
									cls := "wrong-disclosed-value"
									if !inD[i] {
										cls = "leaks-hidden-value"
									}
									r.Violate("C04|timestamp-contribution-"+cls+"|"+path, fmt.Sprintf("contribution[%d]=%s want %s", i, vfShort(ts[i]), vfShort(want)), caseID)
								}
							}
							if tsA.Cmp(p.A) != 0 {
								r.Violate("C04|timestamp-contribution-wrong|"+path, "A differs from the proof's A", caseID)
							}
						}
						// leaf scan
						js, err := json.Marshal(p)
						if err != nil {
							r.Violate("C04|proof-not-serialisable|"+path, err.Error(), caseID)
							return
						}
						leaves := c04Leaves(js)
						text := string(js)
						for i, v := range attrs {
							if inD[i] || v.BitLen() < 64 {
								continue
							}
							cands := []*big.Int{v}
							if v.BitLen() > int(pk.Params.Lm) {
								cands = append(cands, common.IntHashSha256(v.Bytes()))
							}
							for ci, c := range cands {
								what := "value"
								if ci == 1 {
									what = "hash-of-value"
								}
								for _, l := range leaves {
									if l.Cmp(c) == 0 {
										r.Violate("C04|hidden-"+what+"-is-a-leaf-of-the-proof|"+path, fmt.Sprintf("hidden attribute %d occurs as a leaf of the proof JSON", i), caseID)
									}
								}
								// the substring scan is only meaningful for distinctive values (tags, hashes):
								// 2^Lm is a textual prefix of 2^(Lm+200)+c in base64
								if ci == 0 && !c04Distinctive(c) {
									continue
								}
								for _, f := range c04Forms(c) {
									if len(f) >= 16 && strings.Contains(text, f) {
										r.Violate("C04|hidden-"+what+"-occurs-in-proof-json|"+path, fmt.Sprintf("hidden attribute %d occurs textually in the proof JSON (form %q…, value %s)", i, f[:16], vfShort(c)), caseID)
									}
								}
							}
						}
					}
					// the caller's own objects (index list, context, nonce) must come back unchanged from both paths
					dText, cText, nText := fmt.Sprint(D), vfContext.String(), vfNonce.String()
					defer func() {
						if fmt.Sprint(D) != dText || vfContext.String() != cText || vfNonce.String() != nText {
							r.Violate("C04|callers-arguments-changed", fmt.Sprintf("%v: index list %s -> %v, context/nonce changed: %v", caseID, dText, D, vfContext.String() != cText || vfNonce.String() != nText), caseID)
							vfContext.SetString(cText, 10)
							vfNonce.SetString(nText, 10)
						}
					}()
					// path 1: CreateDisclosureProof (disclosure sessions only: it has no flag)
					if !issig {
						var p *ProofD
						var err error
						if pan, msg := vkit.Guard(func() { p, err = cred.CreateDisclosureProof(D, nil, nonrev, vfContext, vfNonce) }); pan || err != nil {
							r.Violate("C04|proof-not-created|CreateDisclosureProof", fmt.Sprintf("%v %s %v", caseID, msg, err), caseID)
						} else {
							ok := vsCloneProof(p).(*ProofD).Verify(pk, vfContext, vfNonce, false)
							judge("CreateDisclosureProof", p, nil, nil, ok)
						}
					}
					// path 2: builder + BuildProofList + timestamp contributions
					var b *DisclosureProofBuilder
					var err error
					if pan, msg := vkit.Guard(func() { b, err = cred.CreateDisclosureProofBuilder(D, nil, nonrev) }); pan || err != nil {
						r.Violate("C04|proof-not-created|builder", fmt.Sprintf("%v %s %v", caseID, msg, err), caseID)
						continue
					}
					// every third case: the builder went through an abandoned first attempt (commitments made with other
					// randomisers, for another nonce) before the session that counts
					if r.Evaluations%3 == 0 {
						if _, err := (ProofBuilderList{b}).Challenge(vfContext, new(big.Int).Add(vfNonce, vfInt(99)), issig); err != nil {
							r.Violate("C04|proof-not-created|Challenge", fmt.Sprint(err), caseID)
							continue
						}
					}
					// the order a signature session uses: commit + challenge, timestamp contributions, then the proof
					chal, err := ProofBuilderList{b}.Challenge(vfContext, vfNonce, issig)
					if err != nil {
						r.Violate("C04|proof-not-created|Challenge", fmt.Sprint(err), caseID)
						continue
					}
					tsA, ts := b.TimestampRequestContributions()
					L, err := ProofBuilderList{b}.BuildDistributedProofList(chal, nil)
					if err != nil {
						r.Violate("C04|proof-not-created|BuildProofList", fmt.Sprint(err), caseID)
						continue
					}
					ok := vsCloneList(L).Verify([]*gabikeys.PublicKey{pk}, vfContext, vfNonce, issig, nil)
					judge("builder", L[0].(*ProofD), tsA, ts, ok)
					// the credential must be unchanged by the session, and a second session on it (the
					// complementary subset) must work as well
					for i, v := range vals {
						if cred.Attributes[i+1] == nil || cred.Attributes[i+1].Cmp(v) != 0 {
							r.Violate("C04|credential-changed-by-a-disclosure-session", fmt.Sprintf("%v: attribute %d of the credential is %s after the session, it was %s", caseID, i+1, vfShort(cred.Attributes[i+1]), vfShort(v)), caseID)
						}
					}
					if cred.Attributes[0].Cmp(secret) != 0 {
						r.Violate("C04|credential-changed-by-a-disclosure-session", fmt.Sprintf("%v: the secret key attribute changed", caseID), caseID)
					}
					var D2 []int
					for i := 1; i <= kk; i++ {
						if !inD[i] {
							D2 = append(D2, i)
						}
					}
					if p2, err := cred.CreateDisclosureProof(D2, nil, nonrev, vfContext, vfNonce); err != nil {
						r.Violate("C04|proof-not-created|second-session", fmt.Sprint(caseID, err), caseID)
					} else {
						r.Eval()
						ok2 := vsCloneProof(p2).(*ProofD).Verify(pk, vfContext, vfNonce, false)
						r.Outcome(fmt.Sprintf("second-session:disclosed=%d:verified=%v", len(D2), ok2))
						good := ok2
						for _, i := range D2 {
							if p2.ADisclosed[i] == nil || p2.ADisclosed[i].Cmp(vals[i-1]) != 0 {
								good = false
							}
						}
						if !good {
							r.Violate("C04|second-session-on-the-same-credential-wrong", fmt.Sprintf("%v: second proof disclosing %v: verifies=%v", caseID, D2, ok2), caseID)
						}
					}
				}
			}
		}
	}
}

func TestVerifC04Toy(t *testing.T) {
	c04Run(t, "toy", "toyA", vkit.Pick(4, 6), false, 240*time.Second, 1200*time.Second)
}

func TestVerifC04ToyNonrev(t *testing.T) {
	c04Run(t, "toy-nonrev", "toyB", vkit.Pick(3, 5), true, 240*time.Second, 1200*time.Second)
}

func TestVerifC04K1024(t *testing.T) {
	c04Run(t, "k1024", "k1024a", vkit.Pick(3, 5), false, 240*time.Second, 1200*time.Second)
}

func TestVerifC04K2048(t *testing.T) {
	c04Run(t, "k2048", "k2048", vkit.Pick(2, 3), vkit.Thorough(), 240*time.Second, 1200*time.Second)
}

// TestVerifC04MixedKeyLists: several credentials under keys of different sizes shown in ONE list (one
// shared secret-key randomiser and response): whatever the order of the keys, every member must verify -
// the shared response has to fit the bounds of the smallest key.
func TestVerifC04MixedKeyLists(t *testing.T) {
	r := vkit.Start(t, "C04", "lists-over-keys-of-different-sizes", 120*time.Second, 400*time.Second)
	defer r.Finish()
	r.Rule = "every ordered pair and triple of distinct keys out of {toy, 1024-bit, 2048-bit, 4096-bit}, one credential each with the same secret, disclosure of attribute 1 (or none) in both session kinds through BuildProofList; non-trivial = distinct (key order, disclosure, session); oracle: the list verifies and every member reports exactly the chosen indices"
	vfInstallEnv(t, "C04/mixed", r.Seed)
	keys := []string{"toyA", "k1024a", "k2048", "k4096w"}
	var orders [][]string
	for _, a := range keys {
		for _, b := range keys {
			if a == b {
				continue
			}
			orders = append(orders, []string{a, b})
			for _, c := range keys {
				if c != a && c != b {
					orders = append(orders, []string{a, b, c})
				}
			}
		}
	}
	secret := vfTag("c04-mixed-secret")
	for _, ord := range orders {
		for _, issig := range []bool{false, true} {
			for _, D := range [][]int{{1}, {}} {
				if _, mine := r.Next(); !mine {
					continue
				}
				if r.Expired() {
					return
				}
				desc := fmt.Sprintf("keys %v disclosed %v issig=%v", ord, D, issig)
				r.Eval()
				r.Nontrivial(desc)
				var bl ProofBuilderList
				var pks []*gabikeys.PublicKey
				bad := false
				for i, kn := range ord {
					k := vfK(kn)
					b, err := vfMint(k, secret, []*big.Int{vfTag("c04-mixed-a1"), vfInt(int64(7 + i))}, 2+i).CreateDisclosureProofBuilder(D, nil, false)
					if err != nil {
						r.Violate("C04|proof-not-created|builder", fmt.Sprintf("%s: %v", desc, err), desc)
						bad = true
						break
					}
					bl, pks = append(bl, b), append(pks, k.Pk)
				}
				if bad {
					continue
				}
				var L ProofList
				var err error
				if pan, msg := vkit.Guard(func() { L, err = bl.BuildProofList(vfContext, vfNonce, issig) }); pan || err != nil {
					r.Violate("C04|proof-not-created|BuildProofList", fmt.Sprintf("%s: %v %s", desc, err, msg), desc)
					continue
				}
				ok := vsCloneList(L).Verify(pks, vfContext, vfNonce, issig, nil)
				r.Outcome(fmt.Sprintf("mixed-key-list:len=%d:verifies=%v", len(ord), ok))
				if !ok {
					r.Violate("C04|honest-proof-rejected|list-over-keys-of-different-sizes", desc, desc)
					continue
				}
				for mi, p := range L {
					pd := p.(*ProofD)
					if len(pd.ADisclosed) != len(D) || len(pd.AResponses) != 3-len(D) {
						r.Violate("C04|index-sets-not-exact|list-over-keys-of-different-sizes", fmt.Sprintf("%s member %d", desc, mi), desc)
					}
				}
			}
		}
	}
}
