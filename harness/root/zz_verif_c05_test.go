//go:build verif

package gabi

// C05 — CL signatures: valid ones verify, invalid ones never do.
//
// (a) honest: message blocks of every length 1..len(R) over the boundary alphabet are signed by
//     the real SignMessageBlock; the result must verify, also after 1..4 randomisations.
// (b) forged with the trapdoor so that the signature equation holds: every exponent e of a
//     boundary catalogue (just inside/outside the interval, neighbouring primes on both sides,
//     small primes, in-range composites); must verify exactly when e is an in-range prime.
// (c) every single-component alteration (A, e, v, KeyshareP, each message, message count, key).
// Reference: the three-line CL predicate with math/big's ProbablyPrime.

import (
	"fmt"
	"testing"
	"time"

	"github.com/privacybydesign/gabi/big"
	"github.com/privacybydesign/gabi/gabikeys"
	"github.com/privacybydesign/gabi/internal/common"
	"github.com/privacybydesign/gabi/internal/verif/venv"
	"github.com/privacybydesign/gabi/internal/verif/vkit"
)

func c05RefVerify(pk *gabikeys.PublicKey, s *CLSignature, ms []*big.Int) bool {
	start := vfPow2(pk.Params.Le - 1)
	end := new(big.Int).Add(start, vfPow2(pk.Params.LePrime-1))
	if s.E.Cmp(start) < 0 || s.E.Cmp(end) > 0 || !s.E.Go().ProbablyPrime(64) {
		return false
	}
	q := new(big.Int).Exp(s.A, s.E, pk.N)
	for i, m := range ms {
		q.Mul(q, new(big.Int).Exp(pk.R[i], vfMsgExp(pk, m), pk.N)).Mod(q, pk.N)
	}
	if s.KeyshareP != nil {
		q.Mul(q, s.KeyshareP).Mod(q, pk.N)
	}
	sv := refExp(pk.S, s.V, pk.N)
	if sv == nil {
		return false
	}
	q.Mul(q, sv).Mod(q, pk.N)
	return q.Cmp(pk.Z) == 0
}

// c05Forge: signature with chosen exponent e satisfying the equation (needs gcd(e, order)=1).
func c05Forge(k *vfKey, ms []*big.Int, e *big.Int, keyshareP *big.Int) *CLSignature {
	pk := k.Pk
	v := new(big.Int).Add(vfPow2(pk.Params.Lv-1), vfTag("c05-v"))
	num := new(big.Int).Exp(pk.S, v, pk.N)
	num.Mul(num, common.RepresentToBases(pk.R, ms, pk.N, pk.Params.Lm)).Mod(num, pk.N)
	if keyshareP != nil {
		num.Mul(num, keyshareP).Mod(num, pk.N)
	}
	q := new(big.Int).Mul(pk.Z, new(big.Int).ModInverse(num, pk.N))
	q.Mod(q, pk.N)
	d := new(big.Int).ModInverse(e, k.Order)
	if d == nil {
		return nil
	}
	return &CLSignature{A: new(big.Int).Exp(q, d, pk.N), E: new(big.Int).Set(e), V: v, KeyshareP: keyshareP}
}

func c05NextPrime(from *big.Int, dir int64) *big.Int {
	v := new(big.Int).Set(from)
	for {
		if v.Go().ProbablyPrime(32) {
			return v
		}
		v.Add(v, vfInt(dir))
	}
}

type c05E struct {
	name string
	e    *big.Int
}

func c05Exponents(pk *gabikeys.PublicKey) []c05E {
	start := vfPow2(pk.Params.Le - 1)
	end := new(big.Int).Add(start, vfPow2(pk.Params.LePrime-1))
	add := func(v *big.Int, d int64) *big.Int { return new(big.Int).Add(v, vfInt(d)) }
	pIn := c05NextPrime(start, 1)
	pLast := c05NextPrime(end, -1)
	pBelow := c05NextPrime(add(start, -1), -1)
	pAbove := c05NextPrime(add(end, 1), 1)
	mid := c05NextPrime(add(start, 1<<40), 1)
	out := []c05E{
		{"start-1", add(start, -1)}, {"start (even)", start}, {"start+1", add(start, 1)},
		{"first prime >= start", pIn}, {"last prime <= end", pLast}, {"prime inside", mid},
		{"largest prime below start", pBelow}, {"smallest prime above end", pAbove},
		{"end", end}, {"end+1", add(end, 1)}, {"end-1", add(end, -1)},
		{"prime below start by ~2^100", c05NextPrime(new(big.Int).Sub(start, vfPow2(100)), -1)},
		{"prime above end by ~2^100", c05NextPrime(new(big.Int).Add(end, vfPow2(100)), 1)},
		{"prime of le-1 bits", c05NextPrime(vfPow2(pk.Params.Le-2), 1)},
		{"prime of le+1 bits", c05NextPrime(vfPow2(pk.Params.Le), 1)},
		{"in-range composite: prime+2k", nil},
	}
	// in-range composites: product of two primes landing in the interval, square-ish, prime*3
	half := c05NextPrime(vfPow2((pk.Params.Le-1)/2), 1)
	cof := new(big.Int).Div(add(start, 1<<50), half)
	cof = c05NextPrime(cof, 1)
	out[len(out)-1] = c05E{"in-range semiprime", new(big.Int).Mul(half, cof)}
	three := new(big.Int).Div(add(start, 1<<60), vfInt(3))
	three = c05NextPrime(three, 1)
	out = append(out, c05E{"in-range 3*prime", new(big.Int).Mul(three, vfInt(3))})
	// in-range Carmichael-style composite of the form (6k+1)(12k+1)(18k+1) is far too sparse to hit the interval; use a strong-pseudoprime-shaped p*(2p-1)
	pp := c05NextPrime(new(big.Int).Sqrt(new(big.Int).Rsh(add(start, 1<<61), 1)), 1)
	out = append(out, c05E{"composite p*(2p-1)", new(big.Int).Mul(pp, new(big.Int).Sub(new(big.Int).Lsh(pp, 1), vfInt(1)))})
	for _, sp := range []int64{3, 5, 7, 11, 13, 17, 19, 23, 29, 31, 37, 41, 43, 47, 53, 65537} {
		out = append(out, c05E{fmt.Sprintf("small prime %d", sp), vfInt(sp)})
	}
	return out
}

func c05Run(t *testing.T, sub, keyName string, honestBlocks int, qb, tb time.Duration) {
	r := vkit.Start(t, "C05", sub, qb, tb)
	defer r.Finish()
	r.Rule = "honest signing + randomisation with each random draw forced to min/max/short (<=1 deviation); honest: message blocks of every length 1..len(R) (values rotate through {0,1,50,2^Lm-1,2^Lm,2^(Lm+200)+c}) signed by SignMessageBlock, verified, randomised 1..4 times (also a signature carrying a keyshare contribution); forged (trapdoor, equation holds): exponent catalogue of ~35 boundary primes/composites x 2 message blocks; alterations: every component +-1/0/swap, every message negated, message count (also beyond the number of bases), other key, KeyshareP, each also on a struct copy of a previously verified signature object; non-trivial = distinct (block,e) or (block,alteration); oracle: reference CL predicate"
	k := vfK(keyName)
	pk := k.Pk
	env := vfInstallEnv(t, "C05/"+sub, r.Seed)
	al := vfValueAlphabet(pk.Params.Lm)
	other := vfK("toyB")
	if keyName == "toyB" || pk.N.BitLen() != other.Pk.N.BitLen() {
		other = vfK(map[bool]string{true: "k1024b", false: "toyA"}[pk.N.BitLen() == 1024])
	}
	blocks := [][]*big.Int{}
	for n := 1; n <= len(pk.R); n++ {
		for rot := 0; rot < honestBlocks; rot++ {
			ms := make([]*big.Int, n)
			for i := range ms {
				ms[i] = al[(i+rot*5+n)%len(al)]
			}
			blocks = append(blocks, ms)
		}
	}
	desc := func(ms []*big.Int) []string {
		var o []string
		for _, m := range ms {
			o = append(o, vfShort(m))
		}
		return o
	}
	// (a') honest signing and randomisation with every random draw forced to an extreme answer (all
	// zero, all ones, short): the interval of e and the size of v are exact contracts, not statistical
	if _, mine := r.Next(); mine && (keyName != "k2048" || vkit.Thorough()) {
		ms := blocks[len(blocks)/2]
		env.Explore(1, []venv.Answer{venv.Min, venv.Max, venv.Short}, func(devs []venv.Deviation) bool {
			r.Eval()
			r.Nontrivial(fmt.Sprintf("env|%v", devs))
			var sig, rnd *CLSignature
			var err, err2 error
			if pan, msg := vkit.Guard(func() {
				sig, err = SignMessageBlock(k.Sk, pk, ms)
				if err == nil {
					rnd, err2 = sig.Randomize(pk)
				}
			}); pan || err != nil || err2 != nil {
				r.Violate("C05|honest-signing-failed|env="+vfDevClass(devs), fmt.Sprintf("%v: %s %v %v", devs, msg, err, err2), fmt.Sprint(devs))
				return true
			}
			ok, okr, okref := sig.Verify(pk, ms), rnd.Verify(pk, ms), c05RefVerify(pk, sig, ms)
			r.Outcome(fmt.Sprintf("env=%s:verifies=%v:randomised verifies=%v:reference=%v", vfDevClass(devs), ok, okr, okref))
			if !ok || !okref {
				r.Violate("C05|honest-signature-rejected|env="+vfDevClass(devs), fmt.Sprintf("signature made under %v: Verify=%v reference predicate=%v, e=%s", devs, ok, okref, vfShort(sig.E)), fmt.Sprint(devs))
			}
			if !okr {
				r.Violate("C05|randomised-signature-rejected|env="+vfDevClass(devs), fmt.Sprintf("%v", devs), fmt.Sprint(devs))
			}
			return !r.Expired()
		})
		env.Reset()
	}
	// (a) honest
	for bi, ms := range blocks {
		if _, mine := r.Next(); !mine {
			continue
		}
		if r.Expired() {
			return
		}
		var sig *CLSignature
		var err error
		if pan, msg := vkit.Guard(func() { sig, err = SignMessageBlock(k.Sk, pk, ms) }); pan || err != nil {
			r.Violate("C05|honest-signing-failed", fmt.Sprintf("block %v: %s %v", desc(ms), msg, err), desc(ms))
			continue
		}
		r.Eval()
		r.Nontrivial(fmt.Sprintf("honest|%d", bi))
		r.Sample(map[string]any{"kind": "honest", "block": desc(ms)})
		if !sig.Verify(pk, ms) {
			r.Violate("C05|honest-signature-rejected", fmt.Sprintf("block %v", desc(ms)), desc(ms))
		}
		if !c05RefVerify(pk, sig, ms) {
			r.Violate("C05|honest-signature-fails-reference-predicate", fmt.Sprintf("block %v e=%s", desc(ms), vfShort(sig.E)), desc(ms))
		}
		cur := sig
		for i := 1; i <= 4; i++ {
			nx, err := cur.Randomize(pk)
			r.Eval()
			if err != nil || !nx.Verify(pk, ms) {
				r.Violate("C05|randomised-signature-rejected", fmt.Sprintf("block %v after %d randomisations (err=%v)", desc(ms), i, err), desc(ms))
				break
			}
			if nx.A.Cmp(cur.A) == 0 {
				r.Violate("C05|randomisation-did-not-change-A", "", desc(ms))
			}
			cur = nx
		}
		// a signature that carries a keyshare contribution stays valid under randomisation as well
		if kpSig := c05Forge(k, ms, sig.E, new(big.Int).Exp(pk.R[0], vfTag("kss-secret"), pk.N)); kpSig != nil && kpSig.Verify(pk, ms) {
			cur := kpSig
			for i := 1; i <= 2; i++ {
				nx, err := cur.Randomize(pk)
				r.Eval()
				if err != nil || !nx.Verify(pk, ms) {
					r.Violate("C05|randomised-signature-rejected|with-keyshare-contribution", fmt.Sprintf("block %v: a valid signature with a keyshare contribution does not verify after %d randomisation(s) (err=%v, contribution kept: %v)", desc(ms), i, err, nx != nil && nx.KeyshareP != nil), desc(ms))
					break
				}
				cur = nx
			}
		}
		// (c) alterations of an honest signature
		type alt struct {
			name string
			f    func(s *CLSignature, m []*big.Int, key **gabikeys.PublicKey) []*big.Int
		}
		pm := func(v *big.Int, d int64) *big.Int { return new(big.Int).Add(v, vfInt(d)) }
		alts := []alt{
			{"A+1", func(s *CLSignature, m []*big.Int, _ **gabikeys.PublicKey) []*big.Int { s.A = pm(s.A, 1); return m }},
			{"A=1", func(s *CLSignature, m []*big.Int, _ **gabikeys.PublicKey) []*big.Int { s.A = vfInt(1); return m }},
			{"A=-A mod N", func(s *CLSignature, m []*big.Int, _ **gabikeys.PublicKey) []*big.Int {
				s.A = new(big.Int).Sub(pk.N, s.A)
				return m
			}},
			{"e+2", func(s *CLSignature, m []*big.Int, _ **gabikeys.PublicKey) []*big.Int { s.E = pm(s.E, 2); return m }},
			{"e=next prime", func(s *CLSignature, m []*big.Int, _ **gabikeys.PublicKey) []*big.Int {
				s.E = c05NextPrime(pm(s.E, 2), 2)
				return m
			}},
			{"v+1", func(s *CLSignature, m []*big.Int, _ **gabikeys.PublicKey) []*big.Int { s.V = pm(s.V, 1); return m }},
			{"v-1", func(s *CLSignature, m []*big.Int, _ **gabikeys.PublicKey) []*big.Int { s.V = pm(s.V, -1); return m }},
			{"v=0", func(s *CLSignature, m []*big.Int, _ **gabikeys.PublicKey) []*big.Int { s.V = vfInt(0); return m }},
			{"KeyshareP=R0", func(s *CLSignature, m []*big.Int, _ **gabikeys.PublicKey) []*big.Int {
				s.KeyshareP = vfCopy(pk.R[0])
				return m
			}},
			{"KeyshareP=2", func(s *CLSignature, m []*big.Int, _ **gabikeys.PublicKey) []*big.Int {
				s.KeyshareP = vfInt(2)
				return m
			}},
			{"other public key", func(s *CLSignature, m []*big.Int, key **gabikeys.PublicKey) []*big.Int { *key = other.Pk; return m }},
			{"message dropped", func(s *CLSignature, m []*big.Int, _ **gabikeys.PublicKey) []*big.Int {
				// a trailing message 0 has exponent 0: the blocks (.., 0) and (..) are the same exponent vector, not a change
				if m[len(m)-1].Sign() == 0 {
					return nil
				}
				return m[:len(m)-1]
			}},
			{"block extended beyond the number of bases", func(s *CLSignature, m []*big.Int, _ **gabikeys.PublicKey) []*big.Int {
				o := append([]*big.Int{}, m...)
				for len(o) <= len(pk.R) {
					o = append(o, vfInt(7))
				}
				return o
			}},
			{"message 0 appended", func(s *CLSignature, m []*big.Int, _ **gabikeys.PublicKey) []*big.Int {
				if len(m) >= len(pk.R) {
					return nil
				}
				return append(append([]*big.Int{}, m...), vfInt(7))
			}},
		}
		for i := range ms {
			i := i
			alts = append(alts,
				alt{fmt.Sprintf("m[%d]+1", i), func(s *CLSignature, m []*big.Int, _ **gabikeys.PublicKey) []*big.Int {
					o := append([]*big.Int{}, m...)
					o[i] = pm(o[i], 1)
					return o
				}},
				alt{fmt.Sprintf("m[%d] swapped with next", i), func(s *CLSignature, m []*big.Int, _ **gabikeys.PublicKey) []*big.Int {
					if i+1 >= len(m) || m[i].Cmp(m[i+1]) == 0 {
						return nil
					}
					o := append([]*big.Int{}, m...)
					o[i], o[i+1] = o[i+1], o[i]
					return o
				}},
				alt{fmt.Sprintf("m[%d] negated", i), func(s *CLSignature, m []*big.Int, _ **gabikeys.PublicKey) []*big.Int {
					// (for messages longer than l_m the exponent is a hash of the message: of the message, not of its
					// absolute value)
					if m[i].Sign() == 0 {
						return nil
					}
					o := append([]*big.Int{}, m...)
					o[i] = new(big.Int).Neg(o[i])
					return o
				}},
				alt{fmt.Sprintf("m[%d] replaced by its hash exponent", i), func(s *CLSignature, m []*big.Int, _ **gabikeys.PublicKey) []*big.Int {
					if m[i].BitLen() <= int(pk.Params.Lm) {
						return nil
					}
					// same exponent, different message: by design both verify (collision of hash domain), not an alteration of meaning the scheme can detect
					return nil
				}})
		}
		for _, a := range alts {
			s2 := &CLSignature{A: vfCopy(sig.A), E: vfCopy(sig.E), V: vfCopy(sig.V), KeyshareP: vfCopy(sig.KeyshareP)}
			key := pk
			m2 := a.f(s2, ms, &key)
			if m2 == nil {
				continue
			}
			r.Eval()
			r.Nontrivial(fmt.Sprintf("alt|%d|%s", bi, a.name))
			var ok bool
			if pan, _ := vkit.Guard(func() {
				ok = s2.Verify(key, m2)
				// the same alteration on a struct copy of the signature object that was verified above
				// (whatever Verify keeps inside the object travels with the copy)
				s3 := *sig
				s3.A, s3.E, s3.V, s3.KeyshareP = vfCopy(sig.A), vfCopy(sig.E), vfCopy(sig.V), vfCopy(sig.KeyshareP)
				key3 := pk
				if m3 := a.f(&s3, ms, &key3); m3 != nil {
					ok = s3.Verify(key3, m3) || ok
				}
			}); pan {
				if a.name == "block extended beyond the number of bases" {
					r.Violate("C05|verification-panicked|block longer than the number of bases", fmt.Sprintf("block %v: Verify against a block of %d messages under a key with %d bases panics instead of returning false", desc(ms), len(pk.R)+1, len(pk.R)), desc(ms))
				}
				r.Count("panic (not accepted)", 1)
				continue
			}
			cls := a.name
			if len(cls) > 2 && cls[0] == 'm' && cls[1] == '[' {
				cls = "message altered"
			}
			r.Outcome(cls + fmt.Sprintf(":%v", ok))
			if ok {
				r.Violate("C05|altered-signature-accepted|"+cls, fmt.Sprintf("block %v, alteration %s accepted", desc(ms), a.name), map[string]any{"block": desc(ms), "alteration": a.name})
			}
		}
	}
	// (b) forged exponents
	exps := c05Exponents(pk)
	validE := exps[0].e
	for _, ce := range exps {
		if ce.name == "prime inside" {
			validE = ce.e
		}
	}
	r.Bounds["exponent_catalogue"] = len(exps)
	kp := new(big.Int).Exp(pk.R[0], vfTag("kss-secret"), pk.N)
	for _, ms := range [][]*big.Int{{vfTag("m0"), vfInt(50)}, blocks[len(blocks)-1]} {
		for _, withKP := range []bool{false, true} {
			for _, ce := range exps {
				if _, mine := r.Next(); !mine {
					continue
				}
				var kpp *big.Int
				if withKP {
					kpp = kp
				}
				sig := c05Forge(k, ms, ce.e, kpp)
				if sig == nil {
					r.Count("exponent not invertible mod order (skipped)", 1)
					continue
				}
				r.Eval()
				r.Nontrivial(fmt.Sprintf("forged|%d|%v|%s", len(ms), withKP, ce.name))
				want := c05RefVerify(pk, sig, ms)
				var got bool
				if pan, msg := vkit.Guard(func() {
					got = sig.Verify(pk, ms)
					// the forged values written into a struct copy of a valid signature object that was verified before
					if valid := c05Forge(k, ms, validE, kpp); valid != nil && valid.Verify(pk, ms) {
						cp := *valid
						cp.A, cp.E, cp.V, cp.KeyshareP = vfCopy(sig.A), vfCopy(sig.E), vfCopy(sig.V), vfCopy(sig.KeyshareP)
						if cp.Verify(pk, ms) && !got {
							got = true
							r.Count("accepted only on a previously verified object", 1)
						}
					}
				}); pan {
					r.Count("panic (not accepted)", 1)
					_ = msg
				}
				r.Outcome(fmt.Sprintf("forged:%s:%v", ce.name, got))
				r.Sample(map[string]any{"kind": "forged", "e": ce.name, "block_len": len(ms), "keyshareP": withKP})
				rep := map[string]any{"e": ce.name, "e_value": ce.e.String(), "block": desc(ms), "keyshareP": withKP}
				if got && !want {
					r.Violate("C05|invalid-exponent-accepted|"+ce.name, fmt.Sprintf("signature with e=%s (%s) satisfies the equation and was accepted", vfShort(ce.e), ce.name), rep)
				}
				if !got && want {
					r.Violate("C05|valid-signature-rejected|"+ce.name, fmt.Sprintf("in-range prime e=%s (%s) rejected", vfShort(ce.e), ce.name), rep)
				}
				// without the keyshare contribution / with it although absent
				if got {
					s3 := &CLSignature{A: sig.A, E: sig.E, V: sig.V}
					if withKP {
						if s3.Verify(pk, ms) {
							r.Violate("C05|altered-signature-accepted|KeyshareP dropped", "verifies without its keyshare contribution", rep)
						}
					} else {
						s3.KeyshareP = kp
						if s3.Verify(pk, ms) {
							r.Violate("C05|altered-signature-accepted|KeyshareP added", "verifies with a foreign keyshare contribution", rep)
						}
					}
				}
			}
		}
	}
}

func TestVerifC05Toy(t *testing.T) {
	c05Run(t, "toy", "toyA", vkit.Pick(2, 6), 240*time.Second, 1200*time.Second)
}
func TestVerifC05K1024(t *testing.T) {
	c05Run(t, "k1024", "k1024a", vkit.Pick(1, 3), 240*time.Second, 1200*time.Second)
}
func TestVerifC05K2048(t *testing.T) {
	c05Run(t, "k2048", "k2048", vkit.Pick(1, 2), 240*time.Second, 1200*time.Second)
}
