//go:build verif

package gabi

// Shared harness library for the in-package checks of package gabi: key fixtures (generated once
// by the real gabikeys.GenerateKeyPair and committed under /verif/fixtures), a deterministic
// environment, a fast trapdoor credential minter and small enumeration helpers.

import (
	crand "crypto/rand"
	"crypto/sha256"
	"encoding/json"
	"fmt"
	mbig "math/big"
	"os"
	"path/filepath"
	"sort"
	"strings"
	"testing"
	"time"

	"github.com/privacybydesign/gabi/big"
	"github.com/privacybydesign/gabi/gabikeys"
	"github.com/privacybydesign/gabi/internal/common"
	"github.com/privacybydesign/gabi/internal/verif/venv"
)

type vfKeyJSON struct {
	Name      string   `json:"name"`
	Ln        uint     `json:"ln"`
	Lstatzk   uint     `json:"lstatzk"`
	P         string   `json:"p"`
	Q         string   `json:"q"`
	Z         string   `json:"Z"`
	S         string   `json:"S"`
	G         string   `json:"G"`
	H         string   `json:"H"`
	R         []string `json:"R"`
	ECDSAPriv string   `json:"ecdsa_priv"`
	ECDSAPub  string   `json:"ecdsa_pub"`
	Counter   uint     `json:"counter"`
	PrimesE   []string `json:"primes_e"`
}

type vfKey struct {
	Name    string
	Sk      *gabikeys.PrivateKey
	Pk      *gabikeys.PublicKey
	PrimesE []*big.Int
	Order   *big.Int // p'q' = order of QR_n
}

var vfKeyCache map[string]*vfKey

func vfDir() string {
	if d := os.Getenv("VERIF_DIR"); d != "" {
		return d
	}
	return "/verif"
}

func vfParams(ln, lstatzk uint) *gabikeys.SystemParameters {
	if p, ok := gabikeys.DefaultSystemParameters[int(ln)]; ok {
		return p
	}
	base := gabikeys.BaseParameters{LePrime: 120, Lh: 256, Lm: 256, Ln: ln, Lstatzk: lstatzk}
	return &gabikeys.SystemParameters{BaseParameters: base, DerivedParameters: gabikeys.MakeDerivedParameters(base)}
}

func vfDec(s string) *big.Int {
	v, ok := new(big.Int).SetString(s, 10)
	if !ok {
		panic("bad decimal in fixture: " + s)
	}
	return v
}

func vfLoadKeys() map[string]*vfKey {
	if vfKeyCache != nil {
		return vfKeyCache
	}
	b, err := os.ReadFile(filepath.Join(vfDir(), "fixtures", "keys.json"))
	if err != nil {
		panic(err)
	}
	var raw []vfKeyJSON
	if err := json.Unmarshal(b, &raw); err != nil {
		panic(err)
	}
	out := map[string]*vfKey{}
	for _, k := range raw {
		sk, err := gabikeys.NewPrivateKey(vfDec(k.P), vfDec(k.Q), k.ECDSAPriv, k.Counter, time.Unix(4102444800, 0))
		if err != nil {
			panic(err)
		}
		R := make([]*big.Int, len(k.R))
		for i := range R {
			R[i] = vfDec(k.R[i])
		}
		pk, err := gabikeys.NewPublicKey(sk.N, vfDec(k.Z), vfDec(k.S), vfDec(k.G), vfDec(k.H), R, k.ECDSAPub, k.Counter, time.Unix(4102444800, 0))
		if err != nil {
			panic(err)
		}
		pk.Params = vfParams(k.Ln, k.Lstatzk)
		// all fixture keys belong to one issuer and differ in their counter (as successive keys of a real
		// issuer do): anything that identifies a key by its issuer name alone confuses them
		pk.Issuer = "verif.issuer"
		key := &vfKey{Name: k.Name, Sk: sk, Pk: pk, Order: sk.Order}
		for _, e := range k.PrimesE {
			key.PrimesE = append(key.PrimesE, vfDec(e))
		}
		out[k.Name] = key
	}
	vfKeyCache = out
	return out
}

// vfFreshPk builds a new public-key object with the values of k's key: an object no library function
// has touched yet (whatever a function caches inside the key on first use is not there).
func vfFreshPk(k *vfKey) *gabikeys.PublicKey {
	o := k.Pk
	R := make([]*big.Int, len(o.R))
	for i := range R {
		R[i] = new(big.Int).Set(o.R[i])
	}
	cp := func(v *big.Int) *big.Int {
		if v == nil {
			return nil
		}
		return new(big.Int).Set(v)
	}
	pk, err := gabikeys.NewPublicKey(cp(o.N), cp(o.Z), cp(o.S), cp(o.G), cp(o.H), R, o.ECDSAString, o.Counter, time.Unix(o.ExpiryDate, 0))
	if err != nil {
		panic(err)
	}
	pk.Params = o.Params
	pk.Issuer = o.Issuer
	return pk
}

// vfKeyID is the identifier under which protocols (keyshare) know a key: issuer name and counter.
func vfKeyID(pk *gabikeys.PublicKey) string { return fmt.Sprintf("%s-%d", pk.Issuer, pk.Counter) }

func vfK(name string) *vfKey {
	k := vfLoadKeys()[name]
	if k == nil {
		panic("no fixture key " + name)
	}
	return k
}

// TestVerifGenFixtures regenerates /verif/fixtures/keys.json (manual: VERIF_GENFIX=1).
func TestVerifGenFixtures(t *testing.T) {
	if os.Getenv("VERIF_GENFIX") == "" {
		t.Skip("set VERIF_GENFIX=1 to regenerate fixtures")
	}
	type spec struct {
		name    string
		ln, lsz uint
		bases   int
		counter uint
	}
	specs := []spec{{"toyA", 256, 80, 8, 0}, {"toyB", 256, 80, 8, 1}, {"t512", 512, 80, 6, 2}, {"k1024a", 1024, 80, 8, 3}, {"k1024b", 1024, 80, 6, 4}, {"k2048", 2048, 128, 6, 5}}
	var out []vfKeyJSON
	for _, s := range specs {
		params := vfParams(s.ln, s.lsz)
		t0 := time.Now()
		sk, pk, err := gabikeys.GenerateKeyPair(params, s.bases, s.counter, time.Unix(4102444800, 0))
		if err != nil {
			t.Fatal(err)
		}
		t.Logf("%s generated in %v", s.name, time.Since(t0))
		k := vfKeyJSON{Name: s.name, Ln: s.ln, Lstatzk: s.lsz, P: sk.P.String(), Q: sk.Q.String(), Z: pk.Z.String(), S: pk.S.String(),
			G: pk.G.String(), H: pk.H.String(), ECDSAPriv: sk.ECDSAString, ECDSAPub: pk.ECDSAString, Counter: s.counter}
		for _, r := range pk.R {
			k.R = append(k.R, r.String())
		}
		for len(k.PrimesE) < 12 {
			e, err := common.RandomPrimeInRange(crand.Reader, params.Le-1, params.LePrime-1)
			if err != nil {
				t.Fatal(err)
			}
			if e.ProbablyPrime(64) {
				k.PrimesE = append(k.PrimesE, e.String())
			}
		}
		out = append(out, k)
	}
	b, _ := json.MarshalIndent(out, "", " ")
	if err := os.WriteFile(filepath.Join(vfDir(), "fixtures", "keys.json"), b, 0o644); err != nil {
		t.Fatal(err)
	}
}

// ---- deterministic environment ----------------------------------------------------------

// vfInstallEnv makes crypto/rand.Reader and the global CPRNG deterministic for this test.
func vfInstallEnv(t testing.TB, label string, seed int64) *venv.Env {
	e := venv.Install(seed, label)
	common.VerifSeedCPRNG(sha256.Sum256([]byte(fmt.Sprintf("cprng:%d:%s", seed, label))))
	t.Cleanup(e.Restore)
	return e
}

// ---- values -----------------------------------------------------------------------------

func vfPow2(k uint) *big.Int { return new(big.Int).Lsh(big.NewInt(1), k) }

func vfInt(x int64) *big.Int { return big.NewInt(x) }

// vfTag returns a distinctive 120-bit value derived from a label (recognisable in leaf scans).
func vfTag(label string) *big.Int {
	h := sha256.Sum256([]byte("tag:" + label))
	v := new(big.Int).SetBytes(h[:15])
	return v.SetBit(v, 119, 1)
}

// vfValueAlphabet: boundary sizes of attribute values for a key with message length lm.
func vfValueAlphabet(lm uint) []*big.Int {
	return []*big.Int{
		vfInt(0), vfInt(1), vfInt(50),
		new(big.Int).Sub(vfPow2(lm), vfInt(1)), // largest unhashed
		vfPow2(lm),                             // smallest hashed
		new(big.Int).Add(vfPow2(lm+200), vfInt(12345)),
	}
}

// vfMsgExp returns the exponent actually signed for attribute value v (hash if oversized).
func vfMsgExp(pk *gabikeys.PublicKey, v *big.Int) *big.Int {
	if v.BitLen() > int(pk.Params.Lm) {
		return common.IntHashSha256(v.Bytes())
	}
	return v
}

// ---- trapdoor minter --------------------------------------------------------------------

// vfSign produces a CL signature over ms using the trapdoor and a pre-computed prime e (the real
// SignMessageBlock spends 25-60 ms searching for e; properties about signing itself (C05, C06)
// use the real function).  v is drawn from crypto/rand.Reader (the scripted one in checks).
func vfSign(k *vfKey, ms []*big.Int, eIdx int) *CLSignature {
	pk, sk := k.Pk, k.Sk
	R := common.RepresentToBases(pk.R, ms, pk.N, pk.Params.Lm)
	vTilde, err := common.RandomBigInt(pk.Params.Lv - 1)
	if err != nil {
		panic(err)
	}
	v := new(big.Int).Add(vfPow2(pk.Params.Lv-1), vTilde)
	num := new(big.Int).Exp(pk.S, v, pk.N)
	num.Mul(num, R).Mod(num, pk.N)
	inv := new(big.Int).ModInverse(num, pk.N)
	Q := new(big.Int).Mul(pk.Z, inv)
	Q.Mod(Q, pk.N)
	e := k.PrimesE[eIdx%len(k.PrimesE)]
	d := new(big.Int).ModInverse(e, sk.Order)
	A := new(big.Int).Exp(Q, d, pk.N)
	return &CLSignature{A: A, E: new(big.Int).Set(e), V: v}
}

// vfMint returns a credential over (secret, attrs...) under key k.
func vfMint(k *vfKey, secret *big.Int, attrs []*big.Int, eIdx int) *Credential {
	ms := append([]*big.Int{secret}, attrs...)
	sig := vfSign(k, ms, eIdx)
	return &Credential{Signature: sig, Pk: k.Pk, Attributes: ms}
}

// ---- enumeration helpers ------------------------------------------------------------------

// vfSubsets enumerates all subsets of {lo..hi} as sorted int slices.
func vfSubsets(lo, hi int) [][]int {
	n := hi - lo + 1
	if n <= 0 {
		return [][]int{{}}
	}
	var out [][]int
	for m := 0; m < 1<<n; m++ {
		var s []int
		for i := 0; i < n; i++ {
			if m&(1<<i) != 0 {
				s = append(s, lo+i)
			}
		}
		if s == nil {
			s = []int{}
		}
		out = append(out, s)
	}
	return out
}

func vfPerms(n int) [][]int {
	var out [][]int
	p := make([]int, n)
	for i := range p {
		p[i] = i
	}
	var rec func(i int)
	rec = func(i int) {
		if i == n {
			out = append(out, append([]int{}, p...))
			return
		}
		for j := i; j < n; j++ {
			p[i], p[j] = p[j], p[i]
			rec(i + 1)
			p[i], p[j] = p[j], p[i]
		}
	}
	rec(0)
	return out
}

func vfKeysOf(m map[int]*big.Int) []int {
	var ks []int
	for k := range m {
		ks = append(ks, k)
	}
	sort.Ints(ks)
	return ks
}

func vfShort(v *big.Int) string {
	if v == nil {
		return "nil"
	}
	s := v.Text(16)
	if len(s) > 24 {
		return fmt.Sprintf("%s…(%db)", s[:12], v.BitLen())
	}
	return s
}

func vfInts(xs []int) string {
	ss := make([]string, len(xs))
	for i, x := range xs {
		ss[i] = fmt.Sprint(x)
	}
	return "[" + strings.Join(ss, ",") + "]"
}

func vfCopy(v *big.Int) *big.Int {
	if v == nil {
		return nil
	}
	return new(big.Int).Set(v)
}

func vfCopyMap(m map[int]*big.Int) map[int]*big.Int {
	if m == nil {
		return nil
	}
	out := make(map[int]*big.Int, len(m))
	for k, v := range m {
		out[k] = vfCopy(v)
	}
	return out
}

func vfGo(v *big.Int) *mbig.Int { return v.Go() }

var (
	vfContext = vfTag("context").SetBit(vfTag("context"), 200, 1)
	vfNonce   = big.NewInt(0x5eed1234abcd)
)

func vfJSONCopy(src, dst any) {
	b, err := json.Marshal(src)
	if err != nil {
		panic(err)
	}
	if err := json.Unmarshal(b, dst); err != nil {
		panic(err)
	}
}

func vfReseedCPRNG(label string) {
	common.VerifSeedCPRNG(sha256.Sum256([]byte("cprng:" + label)))
}

// vfDevClass names the environment deviations of a run ("default" if none) for violation signatures.
func vfDevClass(devs []venv.Deviation) string {
	if len(devs) == 0 {
		return "default"
	}
	s := ""
	for _, d := range devs {
		s += d.Ans.String()
	}
	return s
}
