//go:build verif

package gabi

// C08 — verifying untrusted proofs never panics.
//
// Seeds: JSON of proof lists covering ProofD (plain, non-revocation, range 3/4 squares, both),
// ProofU (plain, random-blind) and mixed lists.  EVERY node of each JSON tree x the structural
// mutation menu (and, thorough tier, pairs of structural mutations on distinct nodes) is decoded
// and fed to ProofList.Verify, ProofD.Verify and ProofU.Verify inside a recover wrapper.
// Oracle: no panic; verdict is rejection unless the decoded list equals the seed by value.

import (
	"bytes"
	"encoding/json"
	"fmt"
	"sort"
	"strconv"
	"strings"
	"testing"
	"time"

	"github.com/privacybydesign/gabi/big"
	"github.com/privacybydesign/gabi/gabikeys"
	"github.com/privacybydesign/gabi/internal/verif/vkit"
	"github.com/privacybydesign/gabi/rangeproof"
)

// ---- ordered JSON tree -----------------------------------------------------------------------------

type jn struct {
	kind  byte // 'o' object, 'a' array, 'v' scalar token (raw)
	keys  []string
	vals  []*jn
	items []*jn
	raw   string
}

func jParse(b []byte) *jn {
	dec := json.NewDecoder(bytes.NewReader(b))
	dec.UseNumber()
	var rd func() *jn
	rd = func() *jn {
		t, err := dec.Token()
		if err != nil {
			panic(err)
		}
		switch v := t.(type) {
		case json.Delim:
			if v == '{' {
				n := &jn{kind: 'o'}
				for dec.More() {
					kt, _ := dec.Token()
					n.keys = append(n.keys, kt.(string))
					n.vals = append(n.vals, rd())
				}
				dec.Token()
				return n
			}
			n := &jn{kind: 'a'}
			for dec.More() {
				n.items = append(n.items, rd())
			}
			dec.Token()
			return n
		case string:
			q, _ := json.Marshal(v)
			return &jn{kind: 'v', raw: string(q)}
		case json.Number:
			return &jn{kind: 'v', raw: v.String()}
		case bool:
			return &jn{kind: 'v', raw: strconv.FormatBool(v)}
		case nil:
			return &jn{kind: 'v', raw: "null"}
		}
		panic("token")
	}
	return rd()
}

func (n *jn) write(sb *strings.Builder) {
	switch n.kind {
	case 'o':
		sb.WriteByte('{')
		for i, k := range n.keys {
			if i > 0 {
				sb.WriteByte(',')
			}
			q, _ := json.Marshal(k)
			sb.Write(q)
			sb.WriteByte(':')
			n.vals[i].write(sb)
		}
		sb.WriteByte('}')
	case 'a':
		sb.WriteByte('[')
		for i, it := range n.items {
			if i > 0 {
				sb.WriteByte(',')
			}
			it.write(sb)
		}
		sb.WriteByte(']')
	default:
		sb.WriteString(n.raw)
	}
}

func (n *jn) String() string { var sb strings.Builder; n.write(&sb); return sb.String() }

func (n *jn) clone() *jn {
	c := &jn{kind: n.kind, raw: n.raw, keys: append([]string{}, n.keys...)}
	for _, v := range n.vals {
		c.vals = append(c.vals, v.clone())
	}
	for _, v := range n.items {
		c.items = append(c.items, v.clone())
	}
	return c
}

// path = sequence of child indices
func (n *jn) at(path []int) *jn {
	cur := n
	for _, i := range path {
		if cur.kind == 'o' {
			cur = cur.vals[i]
		} else {
			cur = cur.items[i]
		}
	}
	return cur
}

func (n *jn) pathName(path []int) string {
	cur := n
	s := ""
	for _, i := range path {
		if cur.kind == 'o' {
			s += "." + cur.keys[i]
			cur = cur.vals[i]
		} else {
			s += fmt.Sprintf("[%d]", i)
			cur = cur.items[i]
		}
	}
	if s == "" {
		return "$"
	}
	return s
}

func (n *jn) walk(prefix []int, f func(path []int, node *jn)) {
	f(prefix, n)
	if n.kind == 'o' {
		for i, v := range n.vals {
			v.walk(append(append([]int{}, prefix...), i), f)
		}
	} else if n.kind == 'a' {
		for i, v := range n.items {
			v.walk(append(append([]int{}, prefix...), i), f)
		}
	}
}

type jMut struct {
	class string
	desc  string
	apply func(root *jn) // on a clone
}

func isIntKey(k string) bool { _, err := strconv.Atoi(k); return err == nil }

// jMutations enumerates the single-node mutation menu for the whole tree.
func jMutations(root *jn, nBases int) []jMut {
	var out []jMut
	add := func(class, desc string, f func(r *jn)) { out = append(out, jMut{class, desc, f}) }
	root.walk(nil, func(path []int, node *jn) {
		name := root.pathName(path)
		p := append([]int{}, path...)
		if len(p) > 0 {
			parentPath, idx := p[:len(p)-1], p[len(p)-1]
			add("delete", "delete "+name, func(r *jn) {
				par := r.at(parentPath)
				if par.kind == 'o' {
					par.keys = append(par.keys[:idx:idx], par.keys[idx+1:]...)
					par.vals = append(par.vals[:idx:idx], par.vals[idx+1:]...)
				} else {
					par.items = append(par.items[:idx:idx], par.items[idx+1:]...)
				}
			})
			for _, rep := range []string{"null", `""`, `"AQ=="`, "0", "{}", "[]", `"-1"`, "-1"} {
				rep := rep
				if node.kind == 'v' && node.raw == rep {
					continue
				}
				add("replace:"+rep, name+" = "+rep, func(r *jn) {
					par := r.at(parentPath)
					nn := jParse([]byte(rep))
					if par.kind == 'o' {
						par.vals[idx] = nn
					} else {
						par.items[idx] = nn
					}
				})
			}
			par := root.at(parentPath)
			if par.kind == 'o' {
				add("duplicate-key", "duplicate key "+name+" with null", func(r *jn) {
					pp := r.at(parentPath)
					pp.keys = append(pp.keys, pp.keys[idx])
					pp.vals = append(pp.vals, &jn{kind: 'v', raw: "null"})
				})
				add("duplicate-key", "duplicate key "+name+" (same value twice)", func(r *jn) {
					pp := r.at(parentPath)
					pp.keys = append(pp.keys, pp.keys[idx])
					pp.vals = append(pp.vals, pp.vals[idx].clone())
				})
				// every map / object entry is re-keyed (integer-keyed attribute maps and name-keyed maps such
				// as the non-revocation responses alike)
				for _, nk := range []string{"-1", "0", strconv.Itoa(nBases), "2147483648", "99999999999999999999", "x"} {
					nk := nk
					if nk == par.keys[idx] || !isIntKey(par.keys[idx]) && (nk == "99999999999999999999" || nk == strconv.Itoa(nBases)) {
						continue
					}
					add("re-key:"+nk, "re-key "+name+" to "+nk, func(r *jn) { r.at(parentPath).keys[idx] = nk })
				}
				for j, ok := range par.keys {
					if j != idx {
						ok := ok
						add("re-key:collide", "re-key "+name+" to existing key "+ok, func(r *jn) { r.at(parentPath).keys[idx] = ok })
					}
				}
				// swap with every later sibling value
				for j := idx + 1; j < len(par.keys); j++ {
					j := j
					add("swap-siblings", fmt.Sprintf("swap %s with sibling %s", name, par.keys[j]), func(r *jn) {
						pp := r.at(parentPath)
						pp.vals[idx], pp.vals[j] = pp.vals[j], pp.vals[idx]
					})
				}
			}
		}
		if node.kind == 'a' {
			for l := 0; l < len(node.items); l++ {
				l := l
				add("array-truncate", fmt.Sprintf("truncate %s to %d", name, l), func(r *jn) { a := r.at(p); a.items = a.items[:l] })
			}
			add("array-extend", "extend "+name+" with null", func(r *jn) { a := r.at(p); a.items = append(a.items, &jn{kind: 'v', raw: "null"}) })
			if len(node.items) > 0 {
				add("array-extend", "extend "+name+" with a copy of its last element", func(r *jn) {
					a := r.at(p)
					a.items = append(a.items, a.items[len(a.items)-1].clone())
				})
				for i := 0; i+1 < len(node.items); i++ {
					i := i
					add("array-swap", fmt.Sprintf("swap %s[%d] and [%d]", name, i, i+1), func(r *jn) { a := r.at(p); a.items[i], a.items[i+1] = a.items[i+1], a.items[i] })
				}
			}
		}
		if node.kind == 'o' {
			add("add-key", "add unknown key to "+name, func(r *jn) {
				o := r.at(p)
				o.keys = append(o.keys, "zz")
				o.vals = append(o.vals, &jn{kind: 'v', raw: "1"})
			})
		}
	})
	// moves of optional sub-proofs between the proofs of the list
	if root.kind == 'a' {
		for i := range root.items {
			for _, part := range []string{"rangeproofs", "nonrev_proof", "m_user_responses", "a_disclosed", "a_responses"} {
				pi := -1
				for k, key := range root.items[i].keys {
					if key == part {
						pi = k
					}
				}
				if pi < 0 {
					continue
				}
				for j := range root.items {
					if j == i {
						continue
					}
					i, j, pi, part := i, j, pi, part
					add("move-part", fmt.Sprintf("move %s of proof %d to proof %d", part, i, j), func(r *jn) {
						src, dst := r.items[i], r.items[j]
						v := src.vals[pi]
						src.keys = append(src.keys[:pi:pi], src.keys[pi+1:]...)
						src.vals = append(src.vals[:pi:pi], src.vals[pi+1:]...)
						dst.keys = append(dst.keys, part)
						dst.vals = append(dst.vals, v)
					})
					add("copy-part", fmt.Sprintf("copy %s of proof %d into proof %d", part, i, j), func(r *jn) {
						dst := r.items[j]
						dst.keys = append(dst.keys, part)
						dst.vals = append(dst.vals, r.items[i].vals[pi].clone())
					})
				}
			}
		}
	}
	return out
}

// ---- canonical value of a decoded list --------------------------------------------------------------

func c08Canon(l ProofList) string {
	var sb strings.Builder
	mp := func(m map[int]*big.Int) {
		ks := vfKeysOf(m)
		for _, k := range ks {
			fmt.Fprintf(&sb, "%d=%v;", k, m[k])
		}
	}
	for _, p := range l {
		switch q := p.(type) {
		case *ProofD:
			fmt.Fprintf(&sb, "D|%v|%v|%v|%v|", q.C, q.A, q.EResponse, q.VResponse)
			mp(q.AResponses)
			sb.WriteString("|")
			mp(q.ADisclosed)
			if np := q.NonRevocationProof; np != nil {
				fmt.Fprintf(&sb, "|N|%v|%v|", np.Cr, np.Cu)
				var rk []string
				// only the response names the verifier reads: an extra, ignored map entry is not a change of value
				for _, k := range []string{"beta", "delta", "epsilon", "zeta"} {
					if _, ok := np.Responses[k]; ok {
						rk = append(rk, k)
					}
				}
				sort.Strings(rk)
				for _, k := range rk {
					fmt.Fprintf(&sb, "%s=%v;", k, np.Responses[k])
				}
				if np.SignedAccumulator != nil {
					fmt.Fprintf(&sb, "%x|%d", np.SignedAccumulator.Data, np.SignedAccumulator.PKCounter)
				}
			}
			var ri []int
			for k := range q.RangeProofs {
				ri = append(ri, k)
			}
			sort.Ints(ri)
			for _, k := range ri {
				for _, rp := range q.RangeProofs[k] {
					if rp == nil {
						fmt.Fprintf(&sb, "|R%d|nil", k)
						continue
					}
					fmt.Fprintf(&sb, "|R%d|%v|%v|%v|%v|%d|%d|%d|%v", k, rp.Cs, rp.DResponses, rp.VResponses, rp.V5Response, rp.Ld, rp.Sign, rp.A, rp.K)
				}
			}
		case *ProofU:
			fmt.Fprintf(&sb, "U|%v|%v|%v|%v|", q.U, q.C, q.VPrimeResponse, q.SResponse)
			mp(q.MUserResponses)
		}
		sb.WriteString("\n")
	}
	return sb.String()
}

func c08NoRev(pks []*gabikeys.PublicKey) []*gabikeys.PublicKey {
	out := make([]*gabikeys.PublicKey, len(pks))
	for i, pk := range pks {
		c := *pk
		c.G, c.H, c.ECDSA, c.ECDSAString = nil, nil, nil, ""
		out[i] = &c
	}
	return out
}

type c08Seed struct {
	name  string
	specs []vsSpec
	issig bool
}

func TestVerifC08(t *testing.T) {
	r := vkit.Start(t, "C08", "json-structural-mutations", 240*time.Second, 1500*time.Second)
	defer r.Finish()
	r.Rule = "seed proof lists (ProofD plain / non-revocation / range 4sq / range 3sq+4sq on two attributes, ProofU plain / random-blind, mixed lists of 2-3 in both orders of the two proof kinds) as JSON; EVERY node x {delete, null, \"\", \"AQ==\", 0, {}, [], \"-1\", -1, duplicate key, re-key integer keys to -1/0/len(R)/2^31/overflow/non-numeric/colliding, swap with each sibling, array truncate at every length / extend / swap, unknown key added} + moves/copies of optional sub-proofs between proofs; thorough: all pairs of structural mutations on the first seeds; each decodable mutant goes to ProofList.Verify (keys as in the seed and padded), ProofD.Verify / ProofU.Verify; also decoded as IssueCommitmentMessage; non-trivial = distinct mutant document; oracle: no panic, and accepted only if the decoded list equals the seed by value and every element decoded on its own gives the same value as in the list"
	vfInstallEnv(t, "C08", r.Seed)
	table := rangeproof.GenerateSquaresTable(256)
	secrets := []*big.Int{vfTag("c08-secret")}
	seeds := []c08Seed{
		{"D", []vsSpec{{vsDisc, "toyA", 0, []int{2}}}, false},
		{"D+nonrev", []vsSpec{{vsDiscNonrev, "toyB", 0, []int{1}}}, false},
		{"D+range4", []vsSpec{{vsDiscRange, "toyA", 0, []int{2}}}, true},
		{"U", []vsSpec{{vsIssue, "toyA", 0, nil}}, false},
		{"U+blind", []vsSpec{{vsIssueBlind, "toyA", 0, nil}}, false},
		{"D,U+blind", []vsSpec{{vsDisc, "toyA", 0, []int{1, 3}}, {vsIssueBlind, "toyB", 0, nil}}, false},
		{"D+nonrev,D+range4,U", []vsSpec{{vsDiscNonrev, "toyB", 0, []int{2}}, {vsDiscRange, "toyA", 0, []int{3}}, {vsIssue, "toyA", 0, nil}}, false},
		// issuance commitments BEFORE disclosure proofs (a decoder that tells the two kinds apart by trying
		// one after the other meets them in the other order)
		{"U,D", []vsSpec{{vsIssue, "toyA", 0, nil}, {vsDisc, "toyA", 0, []int{2}}}, false},
		{"U+blind,D,U", []vsSpec{{vsIssueBlind, "toyB", 0, nil}, {vsDisc, "toyA", 0, []int{1}}, {vsIssue, "toyA", 0, nil}}, false},
	}
	type built struct {
		name string
		js   []byte
		pks  []*gabikeys.PublicKey
		sig  bool
	}
	var docs []built
	for _, s := range seeds {
		_, bl, pks := vsBuildList(s.specs, secrets)
		L, err := bl.BuildProofList(vfContext, vfNonce, s.issig)
		if err != nil {
			r.HarnessError("seed %s: %v", s.name, err)
			return
		}
		js, _ := json.Marshal(L)
		docs = append(docs, built{s.name, js, pks, s.issig})
	}
	// a seed with 3-square and 4-square range proofs on two attributes
	{
		k := vfK("toyA")
		cred := vfMint(k, secrets[0], []*big.Int{vfInt(50), vfTag("c08-x"), vfInt(20)}, 5)
		p, err := cred.CreateDisclosureProof([]int{2}, map[int][]*rangeproof.Statement{
			1: {c12Stmt(1, 1, 40, table), c12Stmt(-1, 1, 60, nil)}, 3: {c12Stmt(-1, 1, 30, table)}}, false, vfContext, vfNonce)
		if err != nil {
			r.HarnessError("range seed: %v", err)
			return
		}
		js, _ := json.Marshal(ProofList{p})
		docs = append(docs, built{"D+range3+range4 on two attributes", js, []*gabikeys.PublicKey{k.Pk}, false})
	}
	// a seed whose secret key and secret-key randomiser are both 0 (an adversarial holder chooses its
	// own secret): a_responses[0] is then 0 and can be removed without invalidating the proof
	{
		kA, kB := vfK("toyA"), vfK("toyB")
		zero := []*big.Int{vfInt(0)}
		_, bl, pks := vsBuildList([]vsSpec{{vsDisc, "toyA", 0, []int{1}}, {vsDisc, "toyB", 0, []int{2}}}, zero)
		c, err := bl.ChallengeWithRandomizers(vfContext, vfNonce, map[string]*big.Int{"secretkey": vfInt(0)}, false)
		if err == nil {
			if L, err := bl.BuildDistributedProofList(c, nil); err == nil {
				js, _ := json.Marshal(L)
				docs = append(docs, built{"D,D with secret 0 and randomiser 0", js, pks, false})
			}
		}
		_, _ = kA, kB
	}
	run := func(d built, seedCanon string, doc string, class, desc string) {
		r.Eval()
		r.Nontrivial(d.name + "|" + doc)
		rep := map[string]any{"seed": d.name, "mutation": desc, "document": doc}
		if len(doc) > 1500 {
			rep["document"] = doc[:1500] + "…"
		}
		var l ProofList
		if pan, msg := vkit.Guard(func() {
			if err := json.Unmarshal([]byte(doc), &l); err != nil {
				l = nil
			}
		}); pan {
			r.Violate("C08|panic|json.Unmarshal(ProofList)|"+class, fmt.Sprintf("seed %s, %s: %s", d.name, desc, msg), rep)
			return
		}
		// the issuance message decoder shares the list decoder
		if pan, msg := vkit.Guard(func() {
			var m IssueCommitmentMessage
			_ = json.Unmarshal([]byte(`{"U":"AQ==","n_2":"AQ==","combinedProofs":`+doc+`}`), &m)
		}); pan {
			r.Violate("C08|panic|json.Unmarshal(IssueCommitmentMessage)|"+class, msg, rep)
		}
		if l == nil {
			r.Outcome(class + ":refused-by-decoder")
			return
		}
		same := c08Canon(l) == seedCanon
		if same {
			// ... and the list must say so itself: every element decoded on its own (as a one-element list)
			// must give the value the list decode gave - a decoder that carries values from one element to the
			// next makes a document look like the seed although it lacks what the seed has
			var elems []json.RawMessage
			if json.Unmarshal([]byte(doc), &elems) == nil && len(elems) == len(l) {
				for i, e := range elems {
					var one ProofList
					if json.Unmarshal([]byte("["+string(e)+"]"), &one) != nil || len(one) != 1 || c08Canon(one) != c08Canon(ProofList{l[i]}) {
						same = false
					}
				}
			}
		}
		verify := func(entry string, f func() bool) {
			var ok bool
			if pan, msg := vkit.Guard(func() { ok = f() }); pan {
				where := msg
				if i := strings.LastIndex(msg, "@ "); i >= 0 {
					where = msg[i+2:]
				}
				r.Violate("C08|panic|"+entry+"|"+class+"|"+where, fmt.Sprintf("seed %s, %s: %s", d.name, desc, msg), rep)
				return
			}
			r.Outcome(fmt.Sprintf("%s:%s:accepted=%v", entry, class, ok))
			if ok && !same {
				r.Violate("C08|malformed-list-accepted|"+entry+"|"+class, fmt.Sprintf("seed %s, %s: accepted although the decoded list differs from the seed", d.name, desc), rep)
			}
		}
		reparse := func() ProofList {
			var x ProofList
			_ = json.Unmarshal([]byte(doc), &x)
			return x
		}
		verify("ProofList.Verify", func() bool { return reparse().Verify(d.pks, vfContext, vfNonce, d.sig, nil) })
		// the same decoded objects verified twice (state cached in the proof by the first call)
		verify("ProofList.Verify(second call on the same objects)", func() bool {
			x := reparse()
			func() {
				defer func() { _ = recover() }()
				x.Verify(d.pks, vfContext, vfNonce, d.sig, nil)
			}()
			return x.Verify(d.pks, vfContext, vfNonce, d.sig, nil)
		})
		// well-formed keys without revocation support (no ECDSA key, no G/H)
		verify("ProofList.Verify(keys without revocation part)", func() bool { return reparse().Verify(c08NoRev(d.pks), vfContext, vfNonce, d.sig, nil) })
		if len(l) != len(d.pks) && len(l) > 0 {
			pks := make([]*gabikeys.PublicKey, len(l))
			for i := range pks {
				pks[i] = d.pks[i%len(d.pks)]
			}
			verify("ProofList.Verify(padded keys)", func() bool { return reparse().Verify(pks, vfContext, vfNonce, d.sig, nil) })
		}
		if len(l) > 0 {
			labels := make([]string, len(l))
			verify("ProofList.Verify(labels)", func() bool { return reparse().Verify(d.pks, vfContext, vfNonce, d.sig, labels) })
		}
		for i, p := range reparse() {
			pk := d.pks[i%len(d.pks)]
			switch q := p.(type) {
			case *ProofD:

				var ok bool
				if pan, msg := vkit.Guard(func() { ok = q.Verify(pk, vfContext, vfNonce, d.sig) }); pan {
					where := msg
					if j := strings.LastIndex(msg, "@ "); j >= 0 {
						where = msg[j+2:]
					}
					r.Violate("C08|panic|ProofD.Verify|"+class+"|"+where, fmt.Sprintf("seed %s, %s: %s", d.name, desc, msg), rep)
				} else if ok && len(d.pks) == 1 && len(l) == 1 && !same {
					r.Violate("C08|malformed-list-accepted|ProofD.Verify|"+class, desc, rep)
				}
			case *ProofU:

				if pan, msg := vkit.Guard(func() { q.Verify(pk, vfContext, vfNonce) }); pan {
					where := msg
					if j := strings.LastIndex(msg, "@ "); j >= 0 {
						where = msg[j+2:]
					}
					r.Violate("C08|panic|ProofU.Verify|"+class+"|"+where, fmt.Sprintf("seed %s, %s: %s", d.name, desc, msg), rep)
				}
			}
		}
	}
	for di, d := range docs {
		root := jParse(d.js)
		var seedList ProofList
		if err := json.Unmarshal(d.js, &seedList); err != nil {
			r.HarnessError("seed %s does not decode: %v", d.name, err)
			return
		}
		seedCanon := c08Canon(seedList)
		if !seedList.Verify(d.pks, vfContext, vfNonce, d.sig, nil) {
			r.Violate("C08|seed-rejected", d.name, d.name)
			continue
		}
		muts := jMutations(root, len(d.pks[0].R))
		r.Sample(map[string]any{"seed": d.name, "json_bytes": len(d.js), "single_mutations": len(muts)})
		for _, m := range muts {
			if _, mine := r.Next(); !mine {
				continue
			}
			if r.Expired() {
				return
			}
			c := root.clone()
			if pan, _ := vkit.Guard(func() { m.apply(c) }); pan {
				continue
			}
			run(d, seedCanon, c.String(), m.class, m.desc)
		}
		// pairs of structural mutations (thorough; first three seeds and the mixed list)
		if vkit.Thorough() && (di < 3 || di == 5) {
			var st []jMut
			for _, m := range muts {
				switch {
				case m.class == "delete" || strings.HasPrefix(m.class, "re-key") || m.class == "duplicate-key" || m.class == "array-truncate" || m.class == "replace:null" || m.class == "move-part":
					st = append(st, m)
				}
			}
			for i := range st {
				for j := i + 1; j < len(st); j++ {
					if _, mine := r.Next(); !mine {
						continue
					}
					if r.Expired() {
						return
					}
					c := root.clone()
					// apply the later-path mutation first so that indices of the earlier one stay valid
					if pan, _ := vkit.Guard(func() { st[j].apply(c); st[i].apply(c) }); pan {
						continue
					}
					run(d, seedCanon, c.String(), st[i].class+"+"+st[j].class, st[i].desc+" & "+st[j].desc)
				}
			}
		}
	}
}
