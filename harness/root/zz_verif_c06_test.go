//go:build verif

package gabi

// C06 — issuance: honest runs succeed, deviations are rejected.
//
// Honest part: every attribute count 1..len(R)-1 (quick: a subset of counts), EVERY subset of
// random-blind indices, keyshare on/off, witness on/off, toy and 1024-bit keys, real protocol
// functions end to end.  Deviation part: every leaf of the two protocol messages altered with the
// menu {+1, =0, value of a parallel run with the same key, value of a run under another key,
// deleted}, nonces/context altered or replayed; oracle: a credential is produced only by the
// unaltered run; a panic is not a rejection.

import (
	"fmt"
	"testing"
	"time"

	"github.com/privacybydesign/gabi/big"
	"github.com/privacybydesign/gabi/gabikeys"
	"github.com/privacybydesign/gabi/internal/verif/vkit"
	"github.com/privacybydesign/gabi/revocation"
)

type c06Cfg struct {
	key      string
	n        int
	blind    []int // indices into the attribute list (0-based, as the API takes them)
	keyshare bool
	witness  bool
}

func (c c06Cfg) String() string {
	return fmt.Sprintf("%s n=%d blind=%v keyshare=%v witness=%v", c.key, c.n, c.blind, c.keyshare, c.witness)
}

type c06Run struct {
	cfg     c06Cfg
	k       *vfKey
	secret  *big.Int
	kssP    *big.Int
	attrs   []*big.Int // nil at blind positions
	nonce1  *big.Int
	nonce2  *big.Int
	context *big.Int
	cb      *CredentialBuilder
	commit  *IssueCommitmentMessage
	ism     *IssueSignatureMessage
	world   *c11World
}

var c06Worlds = map[string]*c11World{}

// c06Start performs the holder's first step.
func c06Start(cfg c06Cfg, label string) *c06Run {
	k := vfK(cfg.key)
	run := &c06Run{cfg: cfg, k: k, secret: vfTag("c06-secret-" + label), nonce1: vfInt(0x1111000 + int64(len(label))), nonce2: vfInt(0x2222000 + int64(len(label))), context: vfContext}
	if cfg.keyshare {
		run.kssP = new(big.Int).Exp(k.Pk.R[0], vfTag("c06-kss"), k.Pk.N)
	}
	al := vfValueAlphabet(k.Pk.Params.Lm)
	isBlind := map[int]bool{}
	for _, b := range cfg.blind {
		isBlind[b] = true
	}
	run.attrs = make([]*big.Int, cfg.n)
	for i := range run.attrs {
		if !isBlind[i] {
			run.attrs[i] = al[(i+cfg.n)%len(al)]
		}
	}
	var err error
	run.cb, err = NewCredentialBuilder(k.Pk, run.context, run.secret, run.nonce2, run.kssP, cfg.blind)
	if err != nil {
		panic(err)
	}
	if c06Retry {
		// the issuer asked again with another nonce: the first commitment message of this builder is abandoned
		if _, err := run.cb.CommitToSecretAndProve(new(big.Int).Add(run.nonce1, vfInt(77))); err != nil {
			panic(err)
		}
	}
	run.commit, err = run.cb.CommitToSecretAndProve(run.nonce1)
	if err != nil {
		panic(err)
	}
	return run
}

// c06Retry: runs whose builder already produced (and abandoned) a commitment message for another nonce.
var c06Retry bool

// c06Issue performs the issuer's step on a (possibly altered) commitment message; returns nil if
// the issuer rejects.
func (run *c06Run) issue(msg *IssueCommitmentMessage, nonce1 *big.Int, checkProof bool) (*IssueSignatureMessage, string) {
	k := run.k
	if checkProof && !run.cfg.keyshare {
		ok := false
		if pan, m := vkit.Guard(func() { ok = msg.Proofs.Verify([]*gabikeys.PublicKey{k.Pk}, run.context, nonce1, false, nil) }); pan {
			return nil, "issuer-panic: " + m
		}
		if !ok {
			return nil, "issuer rejected the commitment proof"
		}
	}
	attrs := append([]*big.Int{}, run.attrs...)
	var wit *revocation.Witness
	if run.cfg.witness {
		w := c06Worlds[k.Name]
		if w == nil {
			w = c11NewWorld(k)
			c06Worlds[k.Name] = w
		}
		run.world = w
		var err error
		wit, err = revocation.RandomWitness(k.Sk, w.accs[w.last()])
		if err != nil {
			panic(err)
		}
		acc := *w.accs[w.last()]
		sacc, _ := (&acc).Sign(k.Sk)
		wit.SignedAccumulator = sacc
		attrs = append(attrs, wit.E)
	}
	issuer := NewIssuer(k.Sk, k.Pk, run.context)
	var ism *IssueSignatureMessage
	var err error
	if pan, m := vkit.Guard(func() { ism, err = issuer.IssueSignature(msg.U, attrs, wit, msg.Nonce2, run.cfg.blind) }); pan {
		return nil, "issuer-panic: " + m
	}
	if err != nil {
		return nil, "issuer error: " + err.Error()
	}
	return ism, ""
}

func (run *c06Run) fullAttrs(ism *IssueSignatureMessage) []*big.Int {
	attrs := append([]*big.Int{}, run.attrs...)
	if run.cfg.witness && ism != nil && ism.NonRevocationWitness != nil {
		attrs = append(attrs, ism.NonRevocationWitness.E)
	} else if run.cfg.witness {
		attrs = append(attrs, vfInt(3))
	}
	return attrs
}

// c06Finish: the holder's last step. Returns (credential, error, panic message).
func (run *c06Run) finish(ism *IssueSignatureMessage) (*Credential, error, string) {
	var cred *Credential
	var err error
	pan, m := vkit.Guard(func() { cred, err = run.cb.ConstructCredential(ism, run.fullAttrs(ism)) })
	if pan {
		return nil, nil, m
	}
	return cred, err, ""
}

func c06CopyISM(m *IssueSignatureMessage) *IssueSignatureMessage {
	out := &IssueSignatureMessage{}
	vfJSONCopy(m, out)
	return out
}

func TestVerifC06Honest(t *testing.T) {
	r := vkit.Start(t, "C06", "honest-runs", 240*time.Second, 1500*time.Second)
	defer r.Finish()
	r.Rule = "attribute counts n (quick: 1,2,3,5 and len(R)-1 / thorough: every n) x EVERY subset of random-blind indices (listed ascending or descending) x keyshare on/off x witness on/off, toy and 1024-bit keys; every third run on a builder that already produced (and abandoned) a commitment message for another nonce; values rotate through the boundary alphabet (incl. hashed sizes); non-trivial = distinct configuration; oracle: issuer accepts the commitment proof, credential is produced, its signature verifies over exactly (secret, attributes), each random-blind attribute = holder share + issuer share, witness attribute present, a disclosure proof from the new credential verifies"
	vfInstallEnv(t, "C06/honest", r.Seed)
	for _, keyName := range []string{"toyA", "k1024a"} {
		k := vfK(keyName)
		maxN := len(k.Pk.R) - 1
		var ns []int
		for n := 1; n <= maxN; n++ {
			if vkit.Thorough() || n <= 3 || n == 5 || n == maxN {
				ns = append(ns, n)
			}
		}
		if keyName != "toyA" && !vkit.Thorough() {
			ns = []int{1, 3, maxN}
		}
		for _, n := range ns {
			for _, witness := range []bool{false, true} {
				nn := n
				if witness {
					nn = n - 1 // the witness value takes the last base
					if nn < 1 {
						continue
					}
				}
				for _, blind := range vfSubsets(0, nn-1) {
					if keyName != "toyA" && !vkit.Thorough() && len(blind) > 1 && len(blind) < nn {
						continue
					}
					for _, keyshare := range []bool{false, true} {
						if _, mine := r.Next(); !mine {
							continue
						}
						if r.Expired() {
							return
						}
						// the random-blind indices are listed ascending or descending (by parity of the case number):
						// neither party may rely on an order
						if r.Evaluations%2 == 1 {
							blind = append([]int{}, blind...)
							for i, j := 0, len(blind)-1; i < j; i, j = i+1, j-1 {
								blind[i], blind[j] = blind[j], blind[i]
							}
						}
						cfg := c06Cfg{keyName, nn, blind, keyshare, witness}
						r.Eval()
						r.Nontrivial(cfg.String())
						rep := cfg.String()
						c06Retry = r.Evaluations%3 == 0 // every third honest run is a retried session on the same builder
						run := c06Start(cfg, "h")
						c06Retry = false
						ism, why := run.issue(run.commit, run.nonce1, true)
						if ism == nil {
							r.Violate("C06|honest-run-failed|issuer", fmt.Sprintf("%s: %s", cfg, why), rep)
							continue
						}
						cred, err, pan := run.finish(ism)
						if pan != "" || err != nil || cred == nil {
							r.Violate("C06|honest-run-failed|holder", fmt.Sprintf("%s: err=%v panic=%s", cfg, err, pan), rep)
							continue
						}
						want := append([]*big.Int{run.secret}, run.fullAttrs(ism)...)
						if len(cred.Attributes) != len(want) {
							r.Violate("C06|credential-attributes-wrong", fmt.Sprintf("%s: %d attributes, want %d", cfg, len(cred.Attributes), len(want)), rep)
							continue
						}
						for i := range want {
							if want[i] == nil {
								// random blind: sum of the shares
								sum := new(big.Int).Add(run.cb.mUser[i], ism.MIssuer[i])
								if cred.Attributes[i] == nil || cred.Attributes[i].Cmp(sum) != 0 {
									r.Violate("C06|blind-attribute-not-sum-of-shares", fmt.Sprintf("%s: attribute %d", cfg, i), rep)
								}
							} else if cred.Attributes[i] == nil || cred.Attributes[i].Cmp(want[i]) != 0 {
								r.Violate("C06|credential-attributes-wrong", fmt.Sprintf("%s: attribute %d", cfg, i), rep)
							}
						}
						// nothing of the credential's signature may come from an unauthenticated part of the message
						if (cred.Signature.KeyshareP == nil) != (run.kssP == nil) || run.kssP != nil && cred.Signature.KeyshareP.Cmp(run.kssP) != 0 {
							r.Violate("C06|credential-carries-foreign-keyshare-contribution", cfg.String(), rep)
						}
						if !cred.Signature.Verify(k.Pk, cred.Attributes) {
							r.Violate("C06|credential-signature-invalid", cfg.String(), rep)
						}
						// the signature must not verify over anything else
						alt := append([]*big.Int{}, cred.Attributes...)
						alt[len(alt)-1] = new(big.Int).Add(alt[len(alt)-1], vfInt(1))
						if cred.Signature.Verify(k.Pk, alt) {
							r.Violate("C06|signature-verifies-over-other-attributes", cfg.String(), rep)
						}
						if witness && (cred.NonRevocationWitness == nil || cred.NonRevocationWitness.Verify(k.Pk) != nil) {
							r.Violate("C06|witness-missing-or-invalid", cfg.String(), rep)
						}
						if !keyshare {
							p, err := cred.CreateDisclosureProof([]int{1}, nil, witness, vfContext, vfNonce)
							if err != nil || !vsCloneProof(p).(*ProofD).Verify(k.Pk, vfContext, vfNonce, false) {
								r.Violate("C06|new-credential-cannot-be-shown", fmt.Sprintf("%s: %v", cfg, err), rep)
							}
						}
						r.Outcome(fmt.Sprintf("credential-issued:attributes=%d:blind=%d:keyshare=%v:witness=%v", nn, len(blind), keyshare, witness))
						r.Sample(map[string]any{"config": cfg.String()})
					}
				}
			}
		}
	}
}

type c06Alt struct {
	class, desc string
	f           func()
}

func TestVerifC06Deviations(t *testing.T) {
	r := vkit.Start(t, "C06", "deviations", 240*time.Second, 1500*time.Second)
	defer r.Finish()
	r.Rule = "configurations {n=3 blind={1}, n=2 blind={}, n=3 blind={0,2}} x keyshare x witness on toy (thorough: + 1024-bit); every leaf of IssueCommitmentMessage and IssueSignatureMessage altered by {+1, =0, value of a parallel run (same key), value of a run under another key, deleted}; witness u / e altered, alone and together with every value of the unsigned Updated field; an accepted message object altered in place and presented again; nonce1/nonce2/context altered and replayed across runs; non-trivial = alteration that changes the message by value; oracle: no credential is produced (issuer rejects the commitment proof or ConstructCredential returns an error); a panic is not a rejection"
	vfInstallEnv(t, "C06/dev", r.Seed)
	keys := vkit.Pick([]string{"toyA"}, []string{"toyA", "k1024a"})
	for _, keyName := range keys {
		otherKey := map[string]string{"toyA": "toyB", "k1024a": "k1024b"}[keyName]
		for _, base := range []c06Cfg{{keyName, 3, []int{1}, false, true}, {keyName, 2, []int{}, false, false}, {keyName, 3, []int{0, 2}, true, true}, {keyName, 3, []int{1}, true, false}} {
			if _, mine := r.Next(); !mine {
				continue
			}
			cfg := base
			// the parallel run (same key) and the foreign run (other key)
			par := c06Start(cfg, "parallel")
			parISM, why := par.issue(par.commit, par.nonce1, true)
			if parISM == nil {
				r.HarnessError("parallel run: %s", why)
				return
			}
			fcfg := cfg
			fcfg.key = otherKey
			if fcfg.n > len(vfK(otherKey).Pk.R)-2 {
				fcfg.n = len(vfK(otherKey).Pk.R) - 2
			}
			fo := c06Start(fcfg, "foreign")
			foISM, why := fo.issue(fo.commit, fo.nonce1, true)
			if foISM == nil {
				r.HarnessError("foreign run: %s", why)
				return
			}
			r.Sample(map[string]any{"config": cfg.String()})

			// ---- message 1: IssueCommitmentMessage (judged through the whole pipeline) ----
			type m1alt struct {
				class, desc string
				f           func(m *IssueCommitmentMessage, n1 **big.Int)
			}
			var m1 []m1alt
			pu := func(m *IssueCommitmentMessage) *ProofU { return m.Proofs[0].(*ProofU) }
			leaves1 := []struct {
				name string
				get  func(m *IssueCommitmentMessage) **big.Int
			}{
				{"U", func(m *IssueCommitmentMessage) **big.Int { return &m.U }},
				{"n_2", func(m *IssueCommitmentMessage) **big.Int { return &m.Nonce2 }},
				{"ProofU.U", func(m *IssueCommitmentMessage) **big.Int { return &pu(m).U }},
				{"ProofU.c", func(m *IssueCommitmentMessage) **big.Int { return &pu(m).C }},
				{"ProofU.v_prime_response", func(m *IssueCommitmentMessage) **big.Int { return &pu(m).VPrimeResponse }},
				{"ProofU.s_response", func(m *IssueCommitmentMessage) **big.Int { return &pu(m).SResponse }},
			}
			for _, lf := range leaves1 {
				lf := lf
				m1 = append(m1,
					m1alt{"msg1:" + lf.name, lf.name + "+1", func(m *IssueCommitmentMessage, _ **big.Int) { *lf.get(m) = new(big.Int).Add(*lf.get(m), vfInt(1)) }},
					m1alt{"msg1:" + lf.name, lf.name + "=0", func(m *IssueCommitmentMessage, _ **big.Int) { *lf.get(m) = vfInt(0) }},
					m1alt{"msg1:" + lf.name, lf.name + " from a parallel run", func(m *IssueCommitmentMessage, _ **big.Int) { *lf.get(m) = vfCopy(*lf.get(par.commit)) }},
					m1alt{"msg1:" + lf.name, lf.name + " from a run under another key", func(m *IssueCommitmentMessage, _ **big.Int) { *lf.get(m) = vfCopy(*lf.get(fo.commit)) }},
					m1alt{"msg1:" + lf.name, lf.name + " deleted", func(m *IssueCommitmentMessage, _ **big.Int) { *lf.get(m) = nil }})
			}
			for _, bi := range cfg.blind {
				i := bi + 1
				m1 = append(m1,
					m1alt{"msg1:m_user_response", fmt.Sprintf("m_user_responses[%d]+1", i), func(m *IssueCommitmentMessage, _ **big.Int) {
						pu(m).MUserResponses[i] = new(big.Int).Add(pu(m).MUserResponses[i], vfInt(1))
					}},
					m1alt{"msg1:m_user_response", fmt.Sprintf("m_user_responses[%d] deleted", i), func(m *IssueCommitmentMessage, _ **big.Int) { delete(pu(m).MUserResponses, i) }},
					m1alt{"msg1:m_user_response", fmt.Sprintf("m_user_responses[%d] from a parallel run", i), func(m *IssueCommitmentMessage, _ **big.Int) {
						pu(m).MUserResponses[i] = vfCopy(pu(par.commit).MUserResponses[i])
					}},
					m1alt{"msg1:m_user_response", fmt.Sprintf("m_user_responses[%d] moved to another index", i), func(m *IssueCommitmentMessage, _ **big.Int) {
						pu(m).MUserResponses[i+3] = pu(m).MUserResponses[i]
						delete(pu(m).MUserResponses, i)
					}})
			}
			m1 = append(m1,
				m1alt{"msg1:whole-proof", "whole ProofU from a parallel run", func(m *IssueCommitmentMessage, _ **big.Int) { m.Proofs = par.commit.Proofs }},
				m1alt{"msg1:whole-message", "whole message of a parallel run (replay)", func(m *IssueCommitmentMessage, _ **big.Int) { *m = *par.commit }},
				m1alt{"msg1:proofs-empty", "no proofs", func(m *IssueCommitmentMessage, _ **big.Int) { m.Proofs = ProofList{} }},
				m1alt{"nonce1", "issuer verifies with nonce1+1", func(_ *IssueCommitmentMessage, n1 **big.Int) { *n1 = new(big.Int).Add(*n1, vfInt(1)) }},
				m1alt{"nonce1", "issuer verifies with the parallel run's nonce1", func(_ *IssueCommitmentMessage, n1 **big.Int) { *n1 = par.nonce1 }})
			for _, a := range m1 {
				if cfg.keyshare && a.class != "msg1:U" && a.class != "msg1:n_2" {
					continue // with a keyshare contribution the commitment proof is completed by the keyshare server (C14)
				}
				run := c06Start(cfg, "dev")
				msg := &IssueCommitmentMessage{}
				vfJSONCopy(run.commit, msg)
				n1 := run.nonce1
				if pan, _ := vkit.Guard(func() { a.f(msg, &n1) }); pan {
					continue
				}
				r.Eval()
				r.Nontrivial(cfg.String() + "|" + a.desc)
				rep := map[string]any{"config": cfg.String(), "alteration": a.desc}
				ism, why := run.issue(msg, n1, true)
				if ism == nil {
					if len(why) > 12 && why[:12] == "issuer-panic" {
						r.Violate("C06|panic-instead-of-rejection|issuer|"+a.class, fmt.Sprintf("%s, %s: %s", cfg, a.desc, why), rep)
					}
					r.Outcome(a.class + ":issuer-rejected")
					continue
				}
				cred, err, pan := run.finish(ism)
				switch {
				case pan != "":
					r.Violate("C06|panic-instead-of-rejection|holder|"+a.class, fmt.Sprintf("%s, %s: %s", cfg, a.desc, pan), rep)
				case err == nil && cred != nil:
					r.Violate("C06|credential-produced-despite-deviation|"+a.class, fmt.Sprintf("%s: %s", cfg, a.desc), rep)
				default:
					r.Outcome(a.class + ":holder-rejected")
				}
			}

			// ---- message 2: IssueSignatureMessage ----
			run := c06Start(cfg, "dev2")
			honestISM, why := run.issue(run.commit, run.nonce1, true)
			if honestISM == nil {
				r.HarnessError("honest issue: %s", why)
				return
			}
			if cred, err, pan := run.finish(c06CopyISM(honestISM)); cred == nil || err != nil || pan != "" {
				r.Violate("C06|honest-run-failed|holder", fmt.Sprintf("%s: %v %s", cfg, err, pan), cfg.String())
				continue
			}
			type m2alt struct {
				class, desc string
				f           func(m *IssueSignatureMessage)
			}
			var m2 []m2alt
			leaves2 := []struct {
				name string
				get  func(m *IssueSignatureMessage) **big.Int
			}{
				{"ProofS.c", func(m *IssueSignatureMessage) **big.Int { return &m.Proof.C }},
				{"ProofS.e_response", func(m *IssueSignatureMessage) **big.Int { return &m.Proof.EResponse }},
				{"Signature.A", func(m *IssueSignatureMessage) **big.Int { return &m.Signature.A }},
				{"Signature.e", func(m *IssueSignatureMessage) **big.Int { return &m.Signature.E }},
				{"Signature.v", func(m *IssueSignatureMessage) **big.Int { return &m.Signature.V }},
			}
			if cfg.witness {
				leaves2 = append(leaves2,
					struct {
						name string
						get  func(m *IssueSignatureMessage) **big.Int
					}{"witness.u", func(m *IssueSignatureMessage) **big.Int { return &m.NonRevocationWitness.U }},
					struct {
						name string
						get  func(m *IssueSignatureMessage) **big.Int
					}{"witness.e", func(m *IssueSignatureMessage) **big.Int { return &m.NonRevocationWitness.E }})
			}
			for _, lf := range leaves2 {
				lf := lf
				m2 = append(m2,
					m2alt{"msg2:" + lf.name, lf.name + "+1", func(m *IssueSignatureMessage) { *lf.get(m) = new(big.Int).Add(*lf.get(m), vfInt(1)) }},
					m2alt{"msg2:" + lf.name, lf.name + "=0", func(m *IssueSignatureMessage) { *lf.get(m) = vfInt(0) }},
					m2alt{"msg2:" + lf.name, lf.name + " from a parallel run", func(m *IssueSignatureMessage) { *lf.get(m) = vfCopy(*lf.get(parISM)) }},
					m2alt{"msg2:" + lf.name, lf.name + " from a run under another key", func(m *IssueSignatureMessage) { *lf.get(m) = vfCopy(*lf.get(foISM)) }},
					m2alt{"msg2:" + lf.name + ":deleted", lf.name + " deleted", func(m *IssueSignatureMessage) { *lf.get(m) = nil }})
			}
			m2 = append(m2,
				m2alt{"msg2:proof:deleted", "proof deleted", func(m *IssueSignatureMessage) { m.Proof = nil }},
				m2alt{"msg2:signature:deleted", "signature deleted", func(m *IssueSignatureMessage) { m.Signature = nil }},
				m2alt{"msg2:proof", "ProofS of a parallel run", func(m *IssueSignatureMessage) { m.Proof = c06CopyISM(parISM).Proof }},
				m2alt{"msg2:signature", "signature of a parallel run", func(m *IssueSignatureMessage) { m.Signature = c06CopyISM(parISM).Signature }},
				m2alt{"msg2:whole-message", "whole message of a parallel run (replay)", func(m *IssueSignatureMessage) { *m = *c06CopyISM(parISM) }})
			// (Signature.KeyshareP in the message is ignored by the holder, who uses its own value: setting
			// it is not a deviation the holder could or should notice, so it is not judged)
			_ = 0
			for _, bi := range cfg.blind {
				i := bi + 1
				m2 = append(m2,
					m2alt{"msg2:m_issuer", fmt.Sprintf("m_issuer[%d]+1", i), func(m *IssueSignatureMessage) { m.MIssuer[i] = new(big.Int).Add(m.MIssuer[i], vfInt(1)) }},
					m2alt{"msg2:m_issuer", fmt.Sprintf("m_issuer[%d] from a parallel run", i), func(m *IssueSignatureMessage) { m.MIssuer[i] = vfCopy(parISM.MIssuer[i]) }},
					m2alt{"msg2:m_issuer:deleted", fmt.Sprintf("m_issuer[%d] deleted", i), func(m *IssueSignatureMessage) { delete(m.MIssuer, i) }},
					m2alt{"msg2:m_issuer:deleted", "m_issuer map deleted", func(m *IssueSignatureMessage) { m.MIssuer = nil }})
			}
			if cfg.witness {
				m2 = append(m2,
					m2alt{"msg2:witness", "witness of a parallel run", func(m *IssueSignatureMessage) { m.NonRevocationWitness = c06CopyISM(parISM).NonRevocationWitness }},
					m2alt{"msg2:witness.sacc", "signed accumulator of another key", func(m *IssueSignatureMessage) {
						m.NonRevocationWitness.SignedAccumulator = c06CopyISM(foISM).NonRevocationWitness.SignedAccumulator
					}},
					m2alt{"msg2:witness.sacc:deleted", "signed accumulator deleted", func(m *IssueSignatureMessage) { m.NonRevocationWitness.SignedAccumulator = nil }},
					m2alt{"msg2:witness.sacc", "signed accumulator byte flipped", func(m *IssueSignatureMessage) { m.NonRevocationWitness.SignedAccumulator.Data[10] ^= 1 }},
					m2alt{"msg2:witness.u", "witness u+1", func(m *IssueSignatureMessage) {
						m.NonRevocationWitness.U = new(big.Int).Add(m.NonRevocationWitness.U, vfInt(1))
					}},
					m2alt{"msg2:witness.u", "witness u squared", func(m *IssueSignatureMessage) {
						m.NonRevocationWitness.U = new(big.Int).Mod(new(big.Int).Mul(m.NonRevocationWitness.U, m.NonRevocationWitness.U), run.k.Pk.N)
					}},
					m2alt{"msg2:witness.e", "witness e+2", func(m *IssueSignatureMessage) {
						m.NonRevocationWitness.E = new(big.Int).Add(m.NonRevocationWitness.E, vfInt(2))
					}},
					// cooperating pairs: the altered u together with every value of the unsigned bookkeeping field
					m2alt{"msg2:pair:witness.u+updated", "witness u+1 and Updated = time of its accumulator", func(m *IssueSignatureMessage) {
						m.NonRevocationWitness.U = new(big.Int).Add(m.NonRevocationWitness.U, vfInt(1))
						cp := &revocation.SignedAccumulator{Data: append([]byte{}, m.NonRevocationWitness.SignedAccumulator.Data...), PKCounter: m.NonRevocationWitness.SignedAccumulator.PKCounter}
						acc, err := cp.UnmarshalVerify(run.k.Pk)
						if err != nil {
							panic(err)
						}
						m.NonRevocationWitness.Updated = time.Unix(acc.Time, 0)
					}},
					m2alt{"msg2:pair:witness.u+updated", "witness u+1 and Updated = zero time", func(m *IssueSignatureMessage) {
						m.NonRevocationWitness.U = new(big.Int).Add(m.NonRevocationWitness.U, vfInt(1))
						m.NonRevocationWitness.Updated = time.Time{}
					}},
					m2alt{"msg2:pair:witness.u+updated", "witness u+1 and Updated = far future", func(m *IssueSignatureMessage) {
						m.NonRevocationWitness.U = new(big.Int).Add(m.NonRevocationWitness.U, vfInt(1))
						m.NonRevocationWitness.Updated = time.Unix(4102444800, 0)
					}})
			}
			for _, a := range m2 {
				msg := c06CopyISM(honestISM)
				if pan, _ := vkit.Guard(func() { a.f(msg) }); pan {
					continue
				}
				r.Eval()
				r.Nontrivial(cfg.String() + "|" + a.desc)
				rep := map[string]any{"config": cfg.String(), "alteration": a.desc}
				cred, err, pan := run.finish(msg)
				switch {
				case pan != "":
					r.Violate("C06|panic-instead-of-rejection|holder|"+a.class, fmt.Sprintf("%s, %s: %s", cfg, a.desc, pan), rep)
				case err == nil && cred != nil:
					// dropping the witness altogether yields a credential without witness: a different, still correct outcome
					r.Violate("C06|credential-produced-despite-deviation|"+a.class, fmt.Sprintf("%s: %s", cfg, a.desc), rep)
				default:
					r.Outcome(a.class + ":holder-rejected")
				}
			}
			// the commitment message object presented to the issuer twice: accepted, then its proof altered in
			// place and presented again
			if !cfg.keyshare {
				run := c06Start(cfg, "twice1")
				obj := &IssueCommitmentMessage{}
				vfJSONCopy(run.commit, obj)
				if ism, _ := run.issue(obj, run.nonce1, true); ism != nil {
					if pu, ok := obj.Proofs[0].(*ProofU); ok {
						for _, what := range []string{"s_response+1", "v_prime_response+1", "U+1 (in the proof)"} {
							var undo func()
							switch what {
							case "s_response+1":
								old := pu.SResponse
								pu.SResponse = new(big.Int).Add(old, vfInt(1))
								undo = func() { pu.SResponse = old }
							case "v_prime_response+1":
								old := pu.VPrimeResponse
								pu.VPrimeResponse = new(big.Int).Add(old, vfInt(1))
								undo = func() { pu.VPrimeResponse = old }
							default:
								old := pu.U
								pu.U = new(big.Int).Add(old, vfInt(1))
								undo = func() { pu.U = old }
							}
							r.Eval()
							r.Nontrivial(cfg.String() + "|accepted commitment object altered in place: " + what)
							ism2, why := run.issue(obj, run.nonce1, true)
							if ism2 != nil {
								r.Violate("C06|issuer-signed-despite-deviation|reuse:"+what, fmt.Sprintf("%s: the commitment message object was accepted once, its proof altered in place (%s) and accepted again", cfg, what),
									map[string]any{"config": cfg.String(), "alteration": "accepted commitment object altered in place (" + what + ")"})
							} else {
								r.Outcome("reuse-msg1:" + what + ":issuer-rejected")
								_ = why
							}
							undo()
						}
					}
				}
			}
			// the same message object presented twice: accepted, then altered in place (witness u, signature
			// A, v) and presented again to the same builder - whatever the first run left in the object or
			// in the builder must not make the second run succeed
			{
				run := c06Start(cfg, "twice")
				if ism, _ := run.issue(run.commit, run.nonce1, true); ism != nil {
					obj := c06CopyISM(ism)
					if c1, err1, pan1 := run.finish(obj); pan1 == "" && err1 == nil && c1 != nil {
						for _, what := range []string{"witness u+1", "signature v+1"} {
							if what == "witness u+1" && (!cfg.witness || obj.NonRevocationWitness == nil) {
								continue
							}
							var undo func()
							switch what {
							case "witness u+1":
								old := obj.NonRevocationWitness.U
								obj.NonRevocationWitness.U = new(big.Int).Add(old, vfInt(1))
								undo = func() { obj.NonRevocationWitness.U = old }
							case "signature v+1":
								old := obj.Signature.V
								obj.Signature.V = new(big.Int).Add(old, vfInt(1))
								undo = func() { obj.Signature.V = old }
							}
							r.Eval()
							r.Nontrivial(cfg.String() + "|accepted object altered in place: " + what)
							c2, err2, pan2 := run.finish(obj)
							rep := map[string]any{"config": cfg.String(), "alteration": "accepted message object altered in place (" + what + ") and presented again"}
							if pan2 != "" {
								r.Violate("C06|panic-instead-of-rejection|holder|reuse:"+what, pan2, rep)
							} else if err2 == nil && c2 != nil {
								r.Violate("C06|credential-produced-despite-deviation|reuse:"+what, fmt.Sprintf("%s: the message object was accepted once, altered in place (%s) and accepted again", cfg, what), rep)
							} else {
								r.Outcome("reuse:" + what + ":holder-rejected")
							}
							undo()
						}
					}
				}
			}
			// two cooperating alterations, one per message: the commitment handed to the issuer is U*X
			// (ProofU untouched) and the issuer's message carries Signature.KeyshareP = X (or 1/X)
			if !cfg.keyshare {
				for _, inv := range []bool{false, true} {
					run := c06Start(cfg, "pair")
					msg := &IssueCommitmentMessage{}
					vfJSONCopy(run.commit, msg)
					X := new(big.Int).Exp(run.k.Pk.R[0], vfTag("c06-x"), run.k.Pk.N)
					msg.U = new(big.Int).Mul(msg.U, X)
					msg.U.Mod(msg.U, run.k.Pk.N)
					r.Eval()
					r.Nontrivial(fmt.Sprintf("%s|pair U*X + KeyshareP (inv=%v)", cfg, inv))
					ism, _ := run.issue(msg, run.nonce1, true)
					if ism == nil {
						continue
					}
					ism = c06CopyISM(ism)
					ism.Signature.KeyshareP = X
					if inv {
						ism.Signature.KeyshareP = new(big.Int).ModInverse(X, run.k.Pk.N)
					}
					cred, err, pan := run.finish(ism)
					rep := map[string]any{"config": cfg.String(), "alteration": "msg1.U*X and msg2.Signature.KeyshareP=X^(+-1)"}
					if pan != "" {
						r.Violate("C06|panic-instead-of-rejection|holder|pair:U*X+KeyshareP", pan, rep)
					} else if err == nil && cred != nil {
						sigOK := (&CLSignature{A: cred.Signature.A, E: cred.Signature.E, V: cred.Signature.V}).Verify(run.k.Pk, cred.Attributes)
						r.Violate("C06|credential-produced-despite-deviation|pair:U*X+KeyshareP", fmt.Sprintf("%s: holder accepted; signature over exactly (secret, attributes) verifies=%v", cfg, sigOK), rep)
					}
				}
			}
			// nonce2 / context: the issuer signs for another nonce2 or context than the holder's
			for _, v := range []string{"nonce2+1", "nonce2 of parallel run", "context+1"} {
				run := c06Start(cfg, "dev3")
				msg := &IssueCommitmentMessage{}
				vfJSONCopy(run.commit, msg)
				saveCtx := run.context
				switch v {
				case "nonce2+1":
					msg.Nonce2 = new(big.Int).Add(msg.Nonce2, vfInt(1))
				case "nonce2 of parallel run":
					msg.Nonce2 = vfCopy(par.nonce2)
				case "context+1":
					run.context = new(big.Int).Add(run.context, vfInt(1))
				}
				r.Eval()
				r.Nontrivial(cfg.String() + "|" + v)
				ism, _ := run.issue(msg, run.nonce1, false)
				run.context = saveCtx
				if ism == nil {
					continue
				}
				cred, err, pan := run.finish(ism)
				if pan != "" {
					r.Violate("C06|panic-instead-of-rejection|holder|"+v, pan, v)
				} else if err == nil && cred != nil {
					r.Violate("C06|credential-produced-despite-deviation|"+v, fmt.Sprintf("%s: issuer used %s", cfg, v), v)
				}
			}
		}
	}
}

// TestVerifC06DegenerateU: forged commitment proofs whose U is not a unit modulo n (see vfDegenerateUForgeries).
func TestVerifC06DegenerateU(t *testing.T) {
	r := vkit.Start(t, "C06", "degenerate-commitment", 120*time.Second, 300*time.Second)
	defer r.Finish()
	r.Rule = "keys {toyA, k1024a} x U in {0, n, 2n, n(n+1)} x {plain, with a random-blind response}; challenge computed from what the verifier reconstructs; non-trivial = distinct forgery; oracle: the issuer's check of the commitment proof never accepts"
	vfDegenerateUForgeries(r, "C06", []string{"toyA", "k1024a"})
}
