//go:build verif

package gabi

// C20 (a)/(d) and C07 (concurrent part) — one credential shared by proving threads and cache
// preparation, explored under the controlled scheduler (all interleavings up to a preemption
// bound), plus the free-running bodies used by the separate -race pass.

import (
	"fmt"
	"os"
	"sort"
	"strings"
	"sync"
	"testing"
	"time"

	"github.com/privacybydesign/gabi/big"
	"github.com/privacybydesign/gabi/gabikeys"
	"github.com/privacybydesign/gabi/internal/verif/venv"
	"github.com/privacybydesign/gabi/internal/verif/vkit"
	"github.com/privacybydesign/gabi/internal/verif/vsched"
	"github.com/privacybydesign/gabi/revocation"
)

// concProof is what a proving thread leaves behind.
type concProof struct {
	thread int
	p      *ProofD
	err    error
}

type concHarness struct {
	name    string
	prepare bool     // cache prepared before the threads start
	stale   bool     // ... and afterwards the accumulator moved on and the witness was updated
	bodies  []string // per thread: sequence of ops, e.g. "prove", "prepare", "prove;prepare"
}

// concScenario builds a fresh credential + threads.  Returns the scenario and accessors.
func concScenario(k *vfKey, h concHarness, env *venv.Env, seedLabel string, results *[]concProof, credOut **Credential) vsched.Scenario {
	env.Reset()
	vfReseedCPRNG(seedLabel)
	// the credential is minted once per key (prime search for the witness is the expensive part)
	// and copied for every execution, so that no state (cache channel, witness) is shared
	base := concBaseCred(k)
	if h.stale {
		base = concStaleBase(k).cred
	}
	w := *base.NonRevocationWitness
	cred := &Credential{Signature: base.Signature, Pk: base.Pk, Attributes: base.Attributes, NonRevocationWitness: &w}
	if h.prepare {
		if err := cred.NonrevPrepareCache(); err != nil {
			panic(err)
		}
	}
	if h.stale {
		// the cached commitment is now one accumulator behind the witness
		if err := cred.NonRevocationWitness.Update(k.Pk, concStaleBase(k).update); err != nil {
			panic(err)
		}
	}
	*credOut = cred
	*results = nil
	var mu sync.Mutex
	body := func() {
		done := make(chan struct{}, len(h.bodies))
		for ti, ops := range h.bodies {
			ti, ops := ti, ops
			vsched.Go(func() {
				for _, o := range strings.Split(ops, ";") {
					switch o {
					case "prove":
						p, err := cred.CreateDisclosureProof([]int{1}, nil, true, vfContext, vfNonce)
						mu.Lock()
						*results = append(*results, concProof{ti, p, err})
						mu.Unlock()
					case "prepare":
						if err := cred.NonrevPrepareCache(); err != nil {
							mu.Lock()
							*results = append(*results, concProof{ti, nil, err})
							mu.Unlock()
						}
					}
				}
				vsched.Send(done)
				done <- struct{}{}
				vsched.SendDone(done)
			})
		}
		for range h.bodies {
			vsched.Recv(done)
			<-done
		}
	}
	return vsched.Scenario{Body: body}
}

var concBase = map[string]*Credential{}

type concStale struct {
	cred   *Credential
	update *revocation.Update
}

var concStaleCache = map[string]*concStale{}

// concStaleBase: a credential issued at accumulator 0 of its own issuer world and the update message
// to accumulator 1 (another credential was revoked in between).
func concStaleBase(k *vfKey) *concStale {
	if c, ok := concStaleCache[k.Name]; ok {
		return c
	}
	w := c11NewWorld(k)
	cred := w.issue(vfTag("conc-secret"), []*big.Int{vfTag("conc-a1"), vfTag("conc-a2")}, 5)
	w.revoke(vfRevPrime(7))
	c := &concStale{cred: cred, update: w.update(1)}
	concStaleCache[k.Name] = c
	return c
}

func concBaseCred(k *vfKey) *Credential {
	if c, ok := concBase[k.Name]; ok {
		return c
	}
	c := vfMintRev(k, vfTag("conc-secret"), []*big.Int{vfTag("conc-a1"), vfTag("conc-a2")}, 4)
	concBase[k.Name] = c
	return c
}

// concJudge applies the validity + no-reuse oracle to the proofs of one execution.  Returns a
// violation signature ("" if fine) and detail.
func concJudge(k *vfKey, cred *Credential, results []concProof) (string, string) {
	pk := k.Pk
	revIdx := len(cred.Attributes) - 1
	E := cred.NonRevocationWitness.E
	var rands []string
	seenCr, seenCu, seenA := map[string]int{}, map[string]int{}, map[string]int{}
	for i, r := range results {
		if r.err != nil {
			return "operation-failed", fmt.Sprintf("thread %d: %v", r.thread, r.err)
		}
		if r.p == nil {
			continue
		}
		p := vsCloneProof(r.p).(*ProofD)
		if !(ProofList{p}).Verify([]*gabikeys.PublicKey{pk}, vfContext, vfNonce, false, nil) {
			return "concurrently-produced-proof-invalid", fmt.Sprintf("proof %d (thread %d) does not verify", i, r.thread)
		}
		np := r.p.NonRevocationProof
		if np == nil {
			return "nonrev-part-missing", ""
		}
		if acc := p.NonRevocationProof.SignedAccumulator.Accumulator; acc == nil || acc.Index != cred.NonRevocationWitness.SignedAccumulator.Accumulator.Index {
			return "proof-not-against-the-witness-accumulator", fmt.Sprintf("proof %d (thread %d) is against accumulator %v, the witness is at %d", i, r.thread, acc, cred.NonRevocationWitness.SignedAccumulator.Accumulator.Index)
		}
		for name, m := range map[string]map[string]int{"C_r": seenCr, "C_u": seenCu, "A": seenA} {
			var v *big.Int
			switch name {
			case "C_r":
				v = np.Cr
			case "C_u":
				v = np.Cu
			default:
				v = r.p.A
			}
			if j, dup := m[v.String()]; dup {
				return "repeated-" + name, fmt.Sprintf("proofs %d and %d share %s", j, i, name)
			}
			m[v.String()] = i
		}
		// implied randomiser of the revocation attribute: s - c*e
		s := r.p.AResponses[revIdx]
		impl := new(big.Int).Sub(s, new(big.Int).Mul(r.p.C, E))
		rands = append(rands, impl.String())
		// every other hidden attribute and the secret
		for idx, resp := range r.p.AResponses {
			if idx == revIdx {
				continue
			}
			impl := new(big.Int).Sub(resp, new(big.Int).Mul(r.p.C, vfMsgExp(pk, cred.Attributes[idx])))
			rands = append(rands, fmt.Sprintf("attr%d:%s", idx, impl.String()))
		}
	}
	sort.Strings(rands)
	for i := 1; i < len(rands); i++ {
		if rands[i] == rands[i-1] {
			return "commitment-randomiser-used-twice", "two proofs imply the same randomiser " + vfShortS(rands[i])
		}
	}
	return "", ""
}

func vfShortS(s string) string {
	if len(s) > 40 {
		return s[:40] + "…"
	}
	return s
}

func concHarnesses() []concHarness {
	return []concHarness{
		{"prepare|prove|prove (cold cache)", false, false, []string{"prepare", "prove", "prove"}},
		{"prove|prove (warm cache)", true, false, []string{"prove", "prove"}},
		{"prepare;prepare|prove (warm cache)", true, false, []string{"prepare;prepare", "prove"}},
		{"prove;prepare|prove;prepare (warm cache)", true, false, []string{"prove;prepare", "prove;prepare"}},
		{"prove|prove|prove (warm cache)", true, false, []string{"prove", "prove", "prove"}},
		{"prepare|prove|prove (warm cache)", true, false, []string{"prepare", "prove", "prove"}},
		{"prepare|prove (stale warm cache: witness one accumulator ahead)", true, true, []string{"prepare", "prove"}},
		{"prove|prove;prepare (stale warm cache)", true, true, []string{"prove", "prove;prepare"}},
	}
}

func concExplore(t *testing.T, prop, sub string, bound int, qb, tb time.Duration) {
	r := vkit.Start(t, prop, sub, qb, tb)
	defer r.Finish()
	r.Rule = "2-3 threads on one credential (bodies from {prove(nonrev), prepare cache, prove;prepare, prepare;prepare}; cold cache, warm cache, and stale warm cache = the accumulator moved on and the witness was updated after the cache was filled), every interleaving of the instrumented scheduling points (channel selects on the cache, lazy-init field accesses) with <= B preemptions; executions run to completion on the real code with seeded randomness; non-trivial = distinct schedule; oracle: every proof verifies, C_r/C_u/A never repeat, implied randomisers pairwise distinct, no deadlock/panic/leak"
	k := vfK("toyB")
	env := vfInstallEnv(t, prop+"/"+sub, r.Seed)
	r.Bounds["max_preemptions"] = bound
	r.Assume("CPRNG reads are one atomic step in this harness (their own interleavings: sub-check cprng)")
	deadline := time.Now().Add(time.Duration(r.Bounds["budget_s"].(float64)) * time.Second)
	hs := concHarnesses()
	if prop == "C07" && sub == "concurrent-cprng-instrumented" {
		hs = []concHarness{
			{"prove|prove (warm cache)", true, false, []string{"prove", "prove"}},
			{"prove|prove (cold cache)", false, false, []string{"prove", "prove"}},
			{"prepare|prove (warm cache)", true, false, []string{"prepare", "prove"}},
		}
		r.Assumptions = nil
		r.Assume("the CPRNG reservation step is instrumented too in this harness")
	}
	for hi, h := range hs {
		var results []concProof
		var cred *Credential
		label := fmt.Sprintf("%s/%d", sub, hi)
		execs := 0
		fresh := func() vsched.Scenario {
			sc := concScenario(k, h, env, label, &results, &cred)
			sc.Check = func(x *vsched.Exec) {
				execs++
				r.Eval()
				r.Nontrivial(fmt.Sprintf("%d|%v", hi, x.Choices))
				sig, detail := "", ""
				switch {
				case len(x.Panics) > 0:
					sig, detail = "panic", strings.Join(x.Panics, "; ")
				case x.Deadlock:
					sig, detail = "deadlock-or-leak", strings.Join(x.Blocked, "; ")
				default:
					sig, detail = concJudge(k, cred, results)
				}
				outcome := "ok"
				if sig != "" {
					outcome = sig
				}
				// outcome class includes how many proofs used a cached builder (distinct end states)
				r.Outcome(fmt.Sprintf("%s|cache_len=%d", outcome, len(cred.nonrevCache)))
				if sig != "" {
					// confirm by replaying the same schedule 5 times before reporting
					same := 0
					for i := 0; i < 5; i++ {
						var res2 []concProof
						var cred2 *Credential
						sc2 := concScenario(k, h, env, label, &res2, &cred2)
						x2 := vsched.Replay(x.Choices, 0, sc2)
						s2 := ""
						switch {
						case len(x2.Panics) > 0:
							s2 = "panic"
						case x2.Deadlock:
							s2 = "deadlock-or-leak"
						default:
							s2, _ = concJudge(k, cred2, res2)
						}
						if s2 == sig {
							same++
						}
					}
					if same != 5 {
						r.HarnessError("violation %q on harness %q did not replay deterministically (%d/5)", sig, h.name, same)
						return
					}
					r.Violate(prop+"|"+sig+"|"+h.name, fmt.Sprintf("harness %q, schedule %v: %s (replayed 5/5)", h.name, x.Choices, detail),
						map[string]any{"harness": h.name, "choices": x.Choices, "trace": x.Trace})
				}
			}
			return sc
		}
		res := vsched.Explore(vsched.Options{MaxPreemptions: bound, Deadline: deadline, Shard: r.Shard, Shards: r.Shards}, fresh)
		r.Schedules += int64(res.Executions)
		r.States += res.Points + res.DataPoints
		r.Transitions += res.Points + res.DataPoints
		r.Traces += int64(res.Executions)
		r.Sample(map[string]any{"harness": h.name, "executions": res.Executions, "scheduling_points": res.Points, "data_choices": res.DataPoints, "max_depth": res.MaxDepth, "threads": res.MaxThreads, "complete": res.Complete})
		if res.Diverged != "" {
			r.HarnessError("harness %q: %s", h.name, res.Diverged)
			return
		}
		if !res.Complete {
			r.Cap(fmt.Sprintf("harness %q: %s after %d executions", h.name, res.Cap, res.Executions))
		}
	}
}

func TestVerifC20Cred(t *testing.T) {
	concExplore(t, "C20", "credential-cache", vkit.Pick(2, 3), 200*time.Second, 1200*time.Second)
}

// ---- free-running bodies for the race pass ---------------------------------------------------

func TestVerifC20RaceBodies(t *testing.T) {
	r := vkit.Start(t, "C20", "race-pass-gabi", 200*time.Second, 900*time.Second)
	defer r.Finish()
	r.Rule = "free-running -race pass (detector over observed executions, not exhaustive): the same bodies as the explored harnesses (cold cache with a public-key object never used before, warm and stale warm cache) with 2..16 goroutines released by a barrier, R repetitions, GOMAXPROCS in {2,4,16}; a DATA RACE report fails the binary and is reported by the runner; non-trivial = distinct (harness,goroutines,repetition)"
	k := vfK("toyB")
	pk := k.Pk
	reps := vkit.Pick(6, 40)
	r.Bounds["repetitions"] = reps
	if os.Getenv("VERIF_RACE") == "" {
		r.Note("built without -race: this sub-check then only validates results")
	}
	for _, gs := range []int{2, 4, 16} {
		for rep := 0; rep < reps; rep++ {
			for _, state := range []string{"cold", "warm", "stale"} {
				cold := state == "cold"
				// the second attribute is longer than l_m bits (it enters the signature through its hash)
				big2 := new(big.Int).Add(vfPow2(pk.Params.Lm+200), vfInt(int64(rep)))
				cred := vfMintRev(k, vfTag("race-secret"), []*big.Int{vfTag("r1"), big2}, rep)
				if state == "stale" {
					// warm cache, then the accumulator moves on and the witness is updated: the cached
					// commitment is refreshed by whoever takes it next
					w := c11NewWorld(k)
					cred = w.issue(vfTag("race-secret"), []*big.Int{vfTag("r1"), big2}, rep)
					if err := cred.NonrevPrepareCache(); err != nil {
						t.Fatal(err)
					}
					w.revoke(vfRevPrime(rep + 3))
					if err := cred.NonRevocationWitness.Update(pk, w.update(1)); err != nil {
						t.Fatal(err)
					}
				} else if !cold {
					if err := cred.NonrevPrepareCache(); err != nil {
						t.Fatal(err)
					}
				}
				if cold {
					// first use of a key object by several goroutines at once: the credential gets a public-key
					// object that no library function has touched yet
					cred.Pk = vfFreshPk(k)
				}
				var attrsBefore []string
				for _, a := range cred.Attributes {
					attrsBefore = append(attrsBefore, a.String())
				}
				var wg sync.WaitGroup
				start := make(chan struct{})
				proofs := make([]*ProofD, gs)
				for g := 0; g < gs; g++ {
					g := g
					wg.Add(1)
					go func() {
						defer wg.Done()
						<-start
						if g%3 == 0 {
							_ = cred.NonrevPrepareCache()
						}
						// provers alternately hide and disclose the long attribute
						p, err := cred.CreateDisclosureProof([]int{1 + g%2}, nil, true, vfContext, vfNonce)
						if err == nil {
							proofs[g] = p
						}
						if g%2 == 1 {
							_ = cred.NonrevPrepareCache()
						}
					}()
				}
				close(start)
				wg.Wait()
				r.Eval()
				r.Nontrivial(fmt.Sprintf("%d|%d|%v", gs, rep, state))
				var res []concProof
				for g, p := range proofs {
					if p == nil {
						r.Violate("C20|operation-failed|free-running", "concurrent proof creation returned an error", nil)
						continue
					}
					res = append(res, concProof{g, p, nil})
				}
				for i, a := range cred.Attributes {
					if a.String() != attrsBefore[i] {
						r.Violate("C20|shared-credential-changed-by-proving", fmt.Sprintf("attribute %d of the shared credential changed while proofs were made from it", i), map[string]any{"goroutines": gs, "cache": state})
						cred.Attributes[i], _ = new(big.Int).SetString(attrsBefore[i], 10)
					}
				}
				for g, p := range proofs {
					if p == nil {
						continue
					}
					for idx, v := range p.ADisclosed {
						if v.String() != attrsBefore[idx] {
							r.Violate("C20|concurrently-produced-proof-discloses-wrong-value", fmt.Sprintf("goroutine %d: a_disclosed[%d] is not the credential's attribute", g, idx), map[string]any{"goroutines": gs, "cache": state})
						}
					}
				}
				if sig, detail := concJudge(k, cred, res); sig != "" {
					// the map-order ambiguity of the revocation attribute index is C11's finding
					r.Violate("C20|"+sig+"|free-running", detail, map[string]any{"goroutines": gs, "cache": state})
				}
				// concurrent verification of one proof object's copies with one shared public key
				if rep == 0 {
					var wg2 sync.WaitGroup
					for g := 0; g < gs; g++ {
						wg2.Add(1)
						p := vsCloneProof(proofs[0]).(*ProofD)
						go func() {
							defer wg2.Done()
							if !p.Verify(pk, vfContext, vfNonce, false) {
								r.Violate("C20|concurrent-verification-failed", "", nil)
							}
						}()
					}
					wg2.Wait()
				}
				// in-process verification of the proof OBJECTS themselves - they all point to the witness's signed
				// accumulator - by verifiers that each hold their own instance of the public key, while proving
				// from the credential goes on.  (The holder verified its witness when it received it.)
				if rep <= 1 && proofs[0] != nil {
					if _, err := cred.NonRevocationWitness.SignedAccumulator.UnmarshalVerify(pk); err != nil {
						t.Fatal(err)
					}
					var wg3 sync.WaitGroup
					start3 := make(chan struct{})
					for g := 0; g < gs; g++ {
						g := g
						wg3.Add(1)
						go func() {
							defer wg3.Done()
							<-start3
							if g%2 == 0 && proofs[g] != nil {
								vpk := vfFreshPk(k)
								if !proofs[g].Verify(vpk, vfContext, vfNonce, false) {
									r.Violate("C20|concurrent-verification-failed|proof-objects-in-process", "", nil)
								}
								return
							}
							if _, err := cred.CreateDisclosureProof([]int{1}, nil, true, vfContext, vfNonce); err != nil {
								r.Violate("C20|operation-failed|free-running", "proof creation next to in-process verification: "+err.Error(), nil)
							}
						}()
					}
					close(start3)
					wg3.Wait()
				}
			}
		}
	}
	// one public key shared by many signers / signature verifiers / randomisers (distinct message blocks)
	{
		n := 8
		blocks := make([][]*big.Int, n)
		sigs := make([]*CLSignature, n)
		for i := range blocks {
			blocks[i] = []*big.Int{vfTag(fmt.Sprintf("blk-%d-0", i)), vfTag(fmt.Sprintf("blk-%d-1", i)), vfPow2(300), vfInt(int64(i))}
			sigs[i] = vfSign(k, blocks[i], i)
		}
		for rep := 0; rep < reps; rep++ {
			var wg sync.WaitGroup
			bad := make([]string, n)
			start := make(chan struct{})
			for i := 0; i < n; i++ {
				i := i
				wg.Add(1)
				go func() {
					defer wg.Done()
					<-start
					for round := 0; round < 20; round++ {
						if !sigs[i].Verify(pk, blocks[i]) {
							bad[i] = "valid signature rejected"
						}
						if sigs[i].Verify(pk, blocks[(i+1)%n]) {
							bad[i] = "signature accepted over another block"
						}
						rs, err := sigs[i].Randomize(pk)
						if err != nil || !rs.Verify(pk, blocks[i]) {
							bad[i] = "randomised signature rejected"
						}
					}
					if i%4 == 0 && rep%3 == 0 {
						s2, err := SignMessageBlock(k.Sk, pk, blocks[i])
						if err != nil || !s2.Verify(pk, blocks[i]) {
							bad[i] = "concurrently produced signature invalid"
						}
					}
				}()
			}
			close(start)
			wg.Wait()
			r.Eval()
			r.Nontrivial(fmt.Sprintf("clsig|%d", rep))
			for i, b := range bad {
				if b != "" {
					r.Violate("C20|concurrent-cl-signature-use|"+b, fmt.Sprintf("goroutine %d: %s", i, b), nil)
				}
			}
		}
	}
	r.Sample(map[string]any{"goroutines": []int{2, 4, 16}, "repetitions": reps, "bodies": "prepare?;prove(nonrev);prepare?  |  8 goroutines: CLSignature.Verify / Randomize / SignMessageBlock on one public key"})
}
