//go:build verif

package gabi

// Holder-side forgery helper.  An adversarial holder owns the builder of the honest part of a
// disclosure proof and is free to attach arbitrary optional sub-proofs (non-revocation, range).  The
// proof verifies iff the challenge it carries equals the hash the verifier recomputes; the forger
// therefore iterates challenge -> (honest responses for that challenge + forged parts) -> verifier's
// contributions -> challenge, and wins when a fixed point is reached (immediately, if the forged
// parts contribute values that do not depend on the challenge).

import (
	"github.com/privacybydesign/gabi/big"
	"github.com/privacybydesign/gabi/gabikeys"
)

func vfForge(b *DisclosureProofBuilder, pk *gabikeys.PublicKey, attach func(p *ProofD), issig bool) *ProofD {
	rnd, err := NewProofRandomizers()
	if err != nil {
		return nil
	}
	if _, err := b.Commit(rnd); err != nil {
		return nil
	}
	c := big.NewInt(1)
	for iter := 0; iter < 4; iter++ {
		p := b.CreateProof(c).(*ProofD)
		attach(p)
		view := &ProofD{}
		ok := true
		func() {
			defer func() {
				if recover() != nil {
					ok = false
				}
			}()
			vfJSONCopy(p, view)
		}()
		if !ok {
			return nil
		}
		var contrib []*big.Int
		var cerr error
		func() {
			defer func() {
				if recover() != nil {
					ok = false
				}
			}()
			contrib, cerr = view.ChallengeContribution(pk)
		}()
		if ok && cerr != nil {
			// the verifier refuses to reconstruct (e.g. its structure check fails): the forger does the
			// arithmetic itself - what a verifier WOULD hash if that check were not made (or is skipped
			// on some path) - and submits the proof anyway
			contrib, ok = vfOwnContributions(view, pk)
		}
		if !ok {
			return nil
		}
		c2 := createChallenge(vfContext, vfNonce, contrib, issig)
		if c2.Cmp(c) == 0 {
			return p
		}
		c = c2
	}
	return nil
}

// vfOwnContributions recomputes the challenge contributions of a ProofD with non-revocation and range parts without any
// of the verifier's well-formedness checks (plain part through the real code on a copy without the
// optional parts, range proofs in index order through the structure extracted from each proof).
func vfOwnContributions(view *ProofD, pk *gabikeys.PublicKey) (out []*big.Int, ok bool) {
	defer func() {
		if recover() != nil {
			out, ok = nil, false
		}
	}()
	plain := &ProofD{C: view.C, A: view.A, EResponse: view.EResponse, VResponse: view.VResponse, AResponses: view.AResponses, ADisclosed: view.ADisclosed}
	l, err := plain.ChallengeContribution(pk)
	if err != nil {
		return nil, false
	}
	if np := view.NonRevocationProof; np != nil {
		// what SetExpected does, without its checks
		revIdx := view.revocationAttrIndex()
		if revIdx < 0 || np.SignedAccumulator == nil || np.Responses == nil {
			return nil, false
		}
		acc, err := np.SignedAccumulator.UnmarshalVerify(pk)
		if err != nil {
			return nil, false
		}
		np.Nu, np.Challenge = acc.Nu, view.C
		np.Responses["alpha"] = view.AResponses[revIdx]
		l = append(l, np.ChallengeContributions(pk)...)
	}
	max := 0
	for k := range view.AResponses {
		if k > max {
			max = k
		}
	}
	for index := 0; index <= max; index++ {
		for _, rp := range view.RangeProofs[index] {
			if rp == nil || view.AResponses[index] == nil {
				return nil, false
			}
			rp.MResponse = new(big.Int).Set(view.AResponses[index])
			st, err := rp.ExtractStructure(index, pk)
			if err != nil {
				return nil, false
			}
			l = append(l, st.CommitmentsFromProof(pk, rp, view.C)...)
		}
	}
	return l, true
}
