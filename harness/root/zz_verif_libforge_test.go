//go:build verif

package gabi

// Holder-side forgery helper.  An adversarial holder owns the builder of the honest part of a
// disclosure proof and is free to attach arbitrary optional sub-proofs (non-revocation, range).  The
// proof verifies iff the challenge it carries equals the hash the verifier recomputes; the forger
// therefore iterates challenge -> (honest responses for that challenge + forged parts) -> verifier's
// contributions -> challenge, and wins when a fixed point is reached (immediately, if the forged
// parts contribute values that do not depend on the challenge).

import (
	"fmt"

	"github.com/privacybydesign/gabi/big"
	"github.com/privacybydesign/gabi/gabikeys"
	"github.com/privacybydesign/gabi/internal/verif/vkit"
)

func vfForge(b *DisclosureProofBuilder, pk *gabikeys.PublicKey, attach func(p *ProofD), issig bool) *ProofD {
	rnd, err := NewProofRandomizers()
	if err != nil {
		return nil
	}
	if _, err := b.Commit(rnd); err != nil {
		return nil
	}
	c := big.NewInt(1)
	for iter := 0; iter < 4; iter++ {
		p := b.CreateProof(c).(*ProofD)
		attach(p)
		view := &ProofD{}
		ok := true
		func() {
			defer func() {
				if recover() != nil {
					ok = false
				}
			}()
			vfJSONCopy(p, view)
		}()
		if !ok {
			return nil
		}
		var contrib []*big.Int
		var cerr error
		func() {
			defer func() {
				if recover() != nil {
					ok = false
				}
			}()
			contrib, cerr = view.ChallengeContribution(pk)
		}()
		if ok && cerr != nil {
			// the verifier refuses to reconstruct (e.g. its structure check fails): the forger does the
			// arithmetic itself - what a verifier WOULD hash if that check were not made (or is skipped
			// on some path) - and submits the proof anyway
			contrib, ok = vfOwnContributions(view, pk)
		}
		if !ok {
			return nil
		}
		c2 := createChallenge(vfContext, vfNonce, contrib, issig)
		if c2.Cmp(c) == 0 {
			return p
		}
		c = c2
	}
	return nil
}

// vfOwnContributions recomputes the challenge contributions of a ProofD with non-revocation and range parts without any
// of the verifier's well-formedness checks (plain part through the real code on a copy without the
// optional parts, range proofs in index order through the structure extracted from each proof).
func vfOwnContributions(view *ProofD, pk *gabikeys.PublicKey) (out []*big.Int, ok bool) {
	defer func() {
		if recover() != nil {
			out, ok = nil, false
		}
	}()
	plain := &ProofD{C: view.C, A: view.A, EResponse: view.EResponse, VResponse: view.VResponse, AResponses: view.AResponses, ADisclosed: view.ADisclosed}
	l, err := plain.ChallengeContribution(pk)
	if err != nil {
		return nil, false
	}
	if np := view.NonRevocationProof; np != nil {
		// what SetExpected does, without its checks
		revIdx := view.revocationAttrIndex()
		if revIdx < 0 || np.SignedAccumulator == nil || np.Responses == nil {
			return nil, false
		}
		acc, err := np.SignedAccumulator.UnmarshalVerify(pk)
		if err != nil {
			return nil, false
		}
		np.Nu, np.Challenge = acc.Nu, view.C
		np.Responses["alpha"] = view.AResponses[revIdx]
		l = append(l, np.ChallengeContributions(pk)...)
	}
	max := 0
	for k := range view.AResponses {
		if k > max {
			max = k
		}
	}
	for index := 0; index <= max; index++ {
		for _, rp := range view.RangeProofs[index] {
			if rp == nil || view.AResponses[index] == nil {
				return nil, false
			}
			rp.MResponse = new(big.Int).Set(view.AResponses[index])
			st, err := rp.ExtractStructure(index, pk)
			if err != nil {
				return nil, false
			}
			l = append(l, st.CommitmentsFromProof(pk, rp, view.C)...)
		}
	}
	return l, true
}

// vfDegenerateAForgeries: disclosure proofs whose randomised signature element A is not a unit modulo n
// (0, n, 2n, n(n+1)).  Every power of such an A is 0, so the commitment the verifier reconstructs would
// be 0 whatever the responses are: if the verifier goes along with it, anybody can write down an
// accepted "proof" disclosing any values, and - with the secret-key response copied from an honest
// member - have it accepted in a list as a proof about the same secret.  The challenge is computed from
// what the verifier really reconstructs (fixed-point iteration, as in vfForge).
func vfDegenerateAForgeries(r *vkit.Report, prop string, keyNames []string) {
	for _, keyName := range keyNames {
		k := vfK(keyName)
		pk := k.Pk
		N := pk.N
		credH := vfMint(k, vfTag("degA-secret"), []*big.Int{vfInt(7), vfTag("degA-a2")}, 2)
		for _, dv := range []struct {
			name string
			a    *big.Int
		}{{"0", vfInt(0)}, {"n", vfCopy(N)}, {"2n", new(big.Int).Lsh(N, 1)}, {"n(n+1)", new(big.Int).Mul(N, new(big.Int).Add(N, vfInt(1)))}} {
			for _, inList := range []bool{false, true} {
				if _, mine := r.Next(); !mine {
					continue
				}
				r.Eval()
				desc := fmt.Sprintf("%s: forged disclosure proof with A=%s claiming attribute 1 = 424242", keyName, dv.name)
				route := "single"
				if inList {
					route = "in-a-list"
					desc += ", second member of a list, secret-key response copied from the honest first member"
				}
				r.Nontrivial(prop + "|" + desc)
				forged := &ProofD{A: vfCopy(dv.a), EResponse: vfInt(1), VResponse: vfInt(1),
					AResponses: map[int]*big.Int{0: vfInt(5), 2: vfInt(5)}, ADisclosed: map[int]*big.Int{1: vfInt(424242)}}
				var b *DisclosureProofBuilder
				if inList {
					var err error
					if b, err = credH.CreateDisclosureProofBuilder([]int{1}, nil, false); err != nil {
						r.HarnessError("builder: %v", err)
						return
					}
					rnd, err := NewProofRandomizers()
					if err == nil {
						_, err = b.Commit(rnd)
					}
					if err != nil {
						r.HarnessError("commit: %v", err)
						return
					}
				}
				var list ProofList
				c := vfInt(1)
				found := false
				for iter := 0; iter < 4 && !found; iter++ {
					forged.C = c
					list = nil
					if inList {
						h := b.CreateProof(c).(*ProofD)
						forged.AResponses[0] = vfCopy(h.AResponses[0])
						list = append(list, h)
					}
					list = append(list, forged)
					var contrib []*big.Int
					ok := true
					for _, m := range list {
						view := &ProofD{}
						var l []*big.Int
						var err error
						if pan, _ := vkit.Guard(func() { vfJSONCopy(m, view); l, err = view.ChallengeContribution(pk) }); pan || err != nil {
							ok = false
							break
						}
						contrib = append(contrib, l...)
					}
					if !ok {
						break
					}
					c2 := createChallenge(vfContext, vfNonce, contrib, false)
					found = c2.Cmp(c) == 0
					c = c2
				}
				if !found {
					r.Outcome("degenerate-A:" + route + ":refused-or-no-fixed-point")
					continue
				}
				var acc bool
				pks := []*gabikeys.PublicKey{pk}
				if inList {
					pks = append(pks, pk)
				}
				vkit.Guard(func() { acc = vsCloneList(list).Verify(pks, vfContext, vfNonce, false, nil) })
				if !inList && !acc {
					q := &ProofD{}
					vfJSONCopy(forged, q)
					vkit.Guard(func() { acc = q.Verify(pk, vfContext, vfNonce, false) })
				}
				r.Outcome(fmt.Sprintf("degenerate-A:%s:fixed-point:accepted=%v", route, acc))
				if acc {
					r.Violate(prop+"|forged-proof-with-degenerate-A-accepted|"+route, desc+": accepted (no credential and no secret behind it)", map[string]any{"key": keyName, "A": dv.name, "route": route})
				}
			}
		}
	}
}

// vfDegenerateUForgeries: issuance commitment proofs whose U is not a unit modulo n.  As with A in a
// disclosure proof, every power of such a U is 0: a verifier that goes along reconstructs the same
// commitment whatever the responses are and accepts a "proof of knowledge" of nothing.
func vfDegenerateUForgeries(r *vkit.Report, prop string, keyNames []string) {
	for _, keyName := range keyNames {
		pk := vfK(keyName).Pk
		N := pk.N
		for _, dv := range []struct {
			name string
			u    *big.Int
		}{{"0", vfInt(0)}, {"n", vfCopy(N)}, {"2n", new(big.Int).Lsh(N, 1)}, {"n(n+1)", new(big.Int).Mul(N, new(big.Int).Add(N, vfInt(1)))}} {
			for _, blind := range []bool{false, true} {
				if _, mine := r.Next(); !mine {
					continue
				}
				r.Eval()
				desc := fmt.Sprintf("%s: forged issuance commitment proof with U=%s (random-blind response: %v)", keyName, dv.name, blind)
				r.Nontrivial(prop + "|" + desc)
				forged := &ProofU{U: vfCopy(dv.u), VPrimeResponse: vfInt(5), SResponse: vfInt(5), MUserResponses: map[int]*big.Int{}}
				if blind {
					forged.MUserResponses[2] = vfInt(5)
				}
				c := vfInt(1)
				found := false
				for iter := 0; iter < 4 && !found; iter++ {
					forged.C = c
					view := &ProofU{}
					var l []*big.Int
					var err error
					if pan, _ := vkit.Guard(func() { vfJSONCopy(forged, view); l, err = view.ChallengeContribution(pk) }); pan || err != nil {
						break
					}
					c2 := createChallenge(vfContext, vfNonce, l, false)
					found = c2.Cmp(c) == 0
					c = c2
				}
				if !found {
					r.Outcome("degenerate-U:refused-or-no-fixed-point")
					continue
				}
				var acc bool
				q := &ProofU{}
				vfJSONCopy(forged, q)
				vkit.Guard(func() { acc = ProofList{q}.Verify([]*gabikeys.PublicKey{pk}, vfContext, vfNonce, false, nil) })
				if !acc {
					q2 := &ProofU{}
					vfJSONCopy(forged, q2)
					vkit.Guard(func() { acc = q2.Verify(pk, vfContext, vfNonce) })
				}
				r.Outcome(fmt.Sprintf("degenerate-U:fixed-point:accepted=%v", acc))
				if acc {
					r.Violate(prop+"|forged-commitment-proof-with-degenerate-U-accepted", desc+": accepted (no secret behind it)", map[string]any{"key": keyName, "U": dv.name})
				}
			}
		}
	}
}
