//go:build verif

package gabi

// Holder-side forgery helper.  An adversarial holder owns the builder of the honest part of a
// disclosure proof and is free to attach arbitrary optional sub-proofs (non-revocation, range).  The
// proof verifies iff the challenge it carries equals the hash the verifier recomputes; the forger
// therefore iterates challenge -> (honest responses for that challenge + forged parts) -> verifier's
// contributions -> challenge, and wins when a fixed point is reached (immediately, if the forged
// parts contribute values that do not depend on the challenge).

import (
	"github.com/privacybydesign/gabi/big"
	"github.com/privacybydesign/gabi/gabikeys"
)

func vfForge(b *DisclosureProofBuilder, pk *gabikeys.PublicKey, attach func(p *ProofD), issig bool) *ProofD {
	rnd, err := NewProofRandomizers()
	if err != nil {
		return nil
	}
	if _, err := b.Commit(rnd); err != nil {
		return nil
	}
	c := big.NewInt(1)
	for iter := 0; iter < 4; iter++ {
		p := b.CreateProof(c).(*ProofD)
		attach(p)
		view := &ProofD{}
		ok := true
		func() {
			defer func() {
				if recover() != nil {
					ok = false
				}
			}()
			vfJSONCopy(p, view)
		}()
		if !ok {
			return nil
		}
		var contrib []*big.Int
		var cerr error
		func() {
			defer func() {
				if recover() != nil {
					ok = false
				}
			}()
			contrib, cerr = view.ChallengeContribution(pk)
		}()
		if !ok || cerr != nil {
			return nil
		}
		c2 := createChallenge(vfContext, vfNonce, contrib, issig)
		if c2.Cmp(c) == 0 {
			return p
		}
		c = c2
	}
	return nil
}
