//go:build verif

package gabi

// Scenario library: builders of every kind (disclosure, +non-revocation, +range, issuance,
// issuance with random-blind attribute) over the fixture keys, revocation state per key.

import (
	"fmt"

	"github.com/privacybydesign/gabi/big"
	"github.com/privacybydesign/gabi/gabikeys"
	"github.com/privacybydesign/gabi/rangeproof"
	"github.com/privacybydesign/gabi/revocation"
)

type vfRevState struct {
	Update *revocation.Update
	Acc    *revocation.Accumulator
}

var vfRevCache = map[string]*vfRevState{}

// vfRev returns (creating once per process) an initial accumulator for the key.
func vfRev(k *vfKey) *vfRevState {
	if s, ok := vfRevCache[k.Name]; ok {
		return s
	}
	upd, err := revocation.NewAccumulator(k.Sk)
	if err != nil {
		panic(err)
	}
	acc, err := upd.SignedAccumulator.UnmarshalVerify(k.Pk)
	if err != nil {
		panic(err)
	}
	s := &vfRevState{Update: upd, Acc: acc}
	vfRevCache[k.Name] = s
	return s
}

// vfMintRev mints a credential whose last attribute is a fresh non-revocation witness value.
func vfMintRev(k *vfKey, secret *big.Int, attrs []*big.Int, eIdx int) *Credential {
	st := vfRev(k)
	w, err := revocation.RandomWitness(k.Sk, st.Acc)
	if err != nil {
		panic(err)
	}
	w.SignedAccumulator = st.Update.SignedAccumulator
	all := append(append([]*big.Int{}, attrs...), w.E)
	c := vfMint(k, secret, all, eIdx)
	c.NonRevocationWitness = w
	return c
}

type vsKind int

const (
	vsDisc vsKind = iota
	vsDiscNonrev
	vsDiscRange
	vsIssue
	vsIssueBlind
)

func (k vsKind) String() string {
	return [...]string{"disc", "disc+nonrev", "disc+range", "issue", "issue+blind"}[k]
}

type vsSpec struct {
	Kind      vsKind
	Key       string
	Secret    int // index into the secrets slice
	Disclosed []int
}

func (s vsSpec) String() string {
	return fmt.Sprintf("%s/%s/s%d/%v", s.Kind, s.Key, s.Secret, s.Disclosed)
}

type vsMember struct {
	Spec    vsSpec
	Builder ProofBuilder
	Cred    *Credential
	CB      *CredentialBuilder
	Pk      *gabikeys.PublicKey
	Attrs   []*big.Int // signed values incl. secret (disclosure kinds)
}

var vsNonce2 = big.NewInt(0x7777aaaa5555)

// vsBuild creates a fresh builder for the spec.  Attribute values are distinctive tags except
// attribute 1 of range credentials (=1000, statement: attr1 >= 500).
func vsBuild(spec vsSpec, secrets []*big.Int) *vsMember {
	k := vfK(spec.Key)
	sec := secrets[spec.Secret]
	m := &vsMember{Spec: spec, Pk: k.Pk}
	attrs := []*big.Int{vfTag("a1-" + spec.Key), vfTag("a2-" + spec.Key), vfTag("a3-" + spec.Key)}
	var err error
	switch spec.Kind {
	case vsDisc:
		m.Cred = vfMint(k, sec, attrs, 1)
		m.Attrs = m.Cred.Attributes
		m.Builder, err = m.Cred.CreateDisclosureProofBuilder(spec.Disclosed, nil, false)
	case vsDiscNonrev:
		m.Cred = vfMintRev(k, sec, attrs, 2)
		m.Attrs = m.Cred.Attributes
		m.Builder, err = m.Cred.CreateDisclosureProofBuilder(spec.Disclosed, nil, true)
	case vsDiscRange:
		attrs[0] = vfInt(1000)
		m.Cred = vfMint(k, sec, attrs, 3)
		m.Attrs = m.Cred.Attributes
		st, e2 := rangeproof.NewStatement(rangeproof.GreaterOrEqual, vfInt(500))
		if e2 != nil {
			panic(e2)
		}
		m.Builder, err = m.Cred.CreateDisclosureProofBuilder(spec.Disclosed, map[int][]*rangeproof.Statement{1: {st}}, false)
	case vsIssue:
		m.CB, err = NewCredentialBuilder(k.Pk, vfContext, sec, vsNonce2, nil, nil)
		m.Builder = m.CB
	case vsIssueBlind:
		m.CB, err = NewCredentialBuilder(k.Pk, vfContext, sec, vsNonce2, nil, []int{1})
		m.Builder = m.CB
	}
	if err != nil {
		panic(fmt.Sprintf("vsBuild %v: %v", spec, err))
	}
	return m
}

func vsBuildList(specs []vsSpec, secrets []*big.Int) ([]*vsMember, ProofBuilderList, []*gabikeys.PublicKey) {
	var ms []*vsMember
	var bl ProofBuilderList
	var pks []*gabikeys.PublicKey
	for _, s := range specs {
		m := vsBuild(s, secrets)
		ms = append(ms, m)
		bl = append(bl, m.Builder)
		pks = append(pks, m.Pk)
	}
	return ms, bl, pks
}

// vsCloneProof deep-copies a proof via JSON (the wire format), which also resets cached state.
func vsCloneProof(p Proof) Proof {
	switch q := p.(type) {
	case *ProofD:
		var out ProofD
		vfJSONCopy(q, &out)
		return &out
	case *ProofU:
		var out ProofU
		vfJSONCopy(q, &out)
		return &out
	}
	panic("unknown proof type")
}

func vsCloneList(l ProofList) ProofList {
	out := make(ProofList, len(l))
	for i, p := range l {
		out[i] = vsCloneProof(p)
	}
	return out
}
