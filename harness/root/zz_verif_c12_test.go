//go:build verif

package gabi

// C12 (crypto layer) — a verified disclosure proof carrying range proofs establishes only true
// facts.  Semantic oracle applied to every explored proof (honest, altered, transplanted):
// accepted => every carried range proof sits on an index that is hidden in this proof and exists in
// the credential, and the statement it reports is true of the signed attribute at that index.

import (
	"encoding/json"
	"fmt"
	"math"
	"sort"
	"strings"
	"testing"
	"time"

	"github.com/privacybydesign/gabi/big"
	"github.com/privacybydesign/gabi/gabikeys"
	"github.com/privacybydesign/gabi/internal/verif/vkit"
	"github.com/privacybydesign/gabi/rangeproof"
)

func c12Stmt(sign int, factor uint, bound int64, sp rangeproof.SquareSplitter) *rangeproof.Statement {
	return &rangeproof.Statement{Sign: sign, Factor: factor, Bound: vfInt(bound), Splitter: sp}
}

// c12Judge: semantic oracle on an accepted proof.
func c12Judge(r *vkit.Report, attrs []*big.Int, p *ProofD, class string, replay any) {
	for index, list := range p.RangeProofs {
		for i, rp := range list {
			where := fmt.Sprintf("rangeproofs[%d][%d]", index, i)
			if _, hidden := p.AResponses[index]; !hidden {
				cls := "disclosed-index"
				if _, dis := p.ADisclosed[index]; !dis {
					cls = "index-absent-from-proof"
				}
				r.Violate("C12|accepted-with-range-proof-on-"+cls+"|"+class, fmt.Sprintf("%s is carried by an accepted proof although index %d is not hidden in it", where, index), replay)
			}
			if index < 0 || index >= len(attrs) {
				r.Violate("C12|accepted-with-range-proof-on-nonexistent-attribute|"+class, where, replay)
				continue
			}
			typ, factor, bound := rp.ProvenStatement()
			lhs := new(big.Int).Mul(new(big.Int).SetUint64(uint64(factor)), attrs[index])
			ok := typ == rangeproof.GreaterOrEqual && lhs.Cmp(bound) >= 0 || typ == rangeproof.LesserOrEqual && lhs.Cmp(bound) <= 0
			if !ok {
				r.Violate("C12|accepted-proof-reports-false-inequality|"+class, fmt.Sprintf("%s reports %d*m %s %v but the signed attribute is %v", where, factor, map[rangeproof.StatementType]string{rangeproof.GreaterOrEqual: ">=", rangeproof.LesserOrEqual: "<="}[typ], bound, attrs[index]), replay)
			}
		}
	}
}

func c12Verify(pk *gabikeys.PublicKey, p *ProofD) (accepted, panicked bool) {
	q := &ProofD{}
	if pan, _ := vkit.Guard(func() { vfJSONCopy(p, q) }); pan {
		return false, false // not transportable (negative numbers): cannot reach a verifier
	}
	var ok1, ok2 bool
	// every route verifies its object twice: a verdict must not change because of what the first call left
	// in the object (retry, or ProofD.Verify followed by ProofList.Verify)
	pan1, _ := vkit.Guard(func() {
		ok1 = q.Verify(pk, vfContext, vfNonce, false)
		ok1 = q.Verify(pk, vfContext, vfNonce, false) || ok1
		ok1 = (ProofList{q}).Verify([]*gabikeys.PublicKey{pk}, vfContext, vfNonce, false, nil) || ok1
	})
	q2 := &ProofD{}
	vfJSONCopy(p, q2)
	pan2, _ := vkit.Guard(func() {
		ok2 = (ProofList{q2}).Verify([]*gabikeys.PublicKey{pk}, vfContext, vfNonce, false, nil)
		ok2 = (ProofList{q2}).Verify([]*gabikeys.PublicKey{pk}, vfContext, vfNonce, false, nil) || ok2
	})
	// third route: the Go objects are handed over directly (no wire), including whatever the sender put
	// into fields that are not transported (MResponse)
	q3 := &ProofD{}
	vfJSONCopy(p, q3)
	for idx, l := range p.RangeProofs {
		for i, rp := range l {
			if rp != nil && rp.MResponse != nil && i < len(q3.RangeProofs[idx]) && q3.RangeProofs[idx][i] != nil {
				q3.RangeProofs[idx][i].MResponse = vfCopy(rp.MResponse)
			}
		}
	}
	var ok3 bool
	pan3, _ := vkit.Guard(func() {
		ok3 = q3.Verify(pk, vfContext, vfNonce, false)
		ok3 = q3.Verify(pk, vfContext, vfNonce, false) || ok3
	})
	// fourth route: the verifier decodes the message into a ProofD value that already received - and
	// verified - another proof of the same shape (c12Prior); nothing left in the value by that may vouch
	// for the new content.  (Only when decoding replaced the content completely: encoding/json merges maps.)
	var ok4, pan4 bool
	if c12Prior != nil {
		q4 := &ProofD{}
		vfJSONCopy(c12Prior, q4)
		pan4, _ = vkit.Guard(func() {
			if !q4.Verify(pk, vfContext, vfNonce, false) {
				return
			}
			before, err := json.Marshal(q4)
			if err != nil {
				return
			}
			bts, err := json.Marshal(p)
			if err != nil || json.Unmarshal(bts, q4) != nil {
				return
			}
			if after, err := json.Marshal(q4); err != nil || string(after) == string(before) {
				return // encoding/json merges maps: nothing of the alteration arrived in the value
			}
			ok4 = q4.Verify(pk, vfContext, vfNonce, false)
			ok4 = (ProofList{q4}).Verify([]*gabikeys.PublicKey{pk}, vfContext, vfNonce, false, nil) || ok4
		})
	}
	return ok1 || ok2 || ok3 || ok4, pan1 || pan2 || pan3 || pan4
}

// c12Prior: a valid proof that the receiver's ProofD value held (and verified) before the message under
// test is decoded into it; nil = the fourth route is not taken.
var c12Prior *ProofD

func TestVerifC12Crypto(t *testing.T) {
	r := vkit.Start(t, "C12", "crypto-layer", 240*time.Second, 1200*time.Second)
	defer r.Finish()
	r.Rule = "credential (50, tag, 20, tag) x disclosure sets x true statements (>=,<=; 3 and 4 squares; factors 1,3) on attributes 1 and 3: honest proofs; false statements at bound-+1 must not be creatable; every single-field alteration of every range proof (Cs, ds, vs, v5, l_d, sign, a, k incl. k moved across the boundary); every transplant (to another hidden index, a disclosed index below / above the largest hidden index, unused base, len(R), 1000, -1; from another credential; moved and copied, also with the non-transported attribute-response field pre-set by the sender); forgeries with the statement chosen after the challenge (commitments fixed first, bases C_i and bound k solved for once the challenge is known; 3 and 4 squares, both signs, factors 1,4,5,7); forgeries by omission (a zero-valued attribute mentioned neither as hidden nor as disclosed, a false range proof at the largest hidden index); consistent-lie forgeries (a well-formed range proof about a value satisfying the false statement, with the attribute's or a fresh randomiser, carrying its own response; or with the difference to the signed value disclosed at the same index); four verification routes (wire copy, wire copy in a list, Go objects handed over directly, message decoded into a ProofD value that already received and verified the honest proof), each verifying its object twice; non-trivial = distinct (base proof, alteration); oracle (semantic): accepted => every carried range proof is on a hidden existing index and its reported statement is true of the signed value; honest => accepted"
	table := rangeproof.GenerateSquaresTable(4096)
	for _, keyName := range vkit.Pick([]string{"toyA"}, []string{"toyA", "k1024a"}) {
		k := vfK(keyName)
		pk := k.Pk
		vfInstallEnv(t, "C12/"+keyName, r.Seed)
		vals := []*big.Int{vfInt(50), vfTag("c12-a2"), vfInt(20), vfTag("c12-a4")}
		credA := vfMint(k, vfTag("c12-secret"), vals, 2)
		credB := vfMint(k, vfTag("c12-secretB"), []*big.Int{vfInt(5000), vfTag("c12-b2"), vfInt(7), vfTag("c12-b4")}, 3)
		attrs := credA.Attributes
		type base struct {
			name      string
			disclosed []int
			stmts     map[int][]*rangeproof.Statement
		}
		bases := []base{
			{"D={4} a1>=40 (4sq)", []int{4}, map[int][]*rangeproof.Statement{1: {c12Stmt(1, 1, 40, nil)}}},
			{"D={3} a1<=60 (4sq)", []int{3}, map[int][]*rangeproof.Statement{1: {c12Stmt(-1, 1, 60, nil)}}},
			{"D={2} a1>=50 (3sq table), a3<=25 (4sq)", []int{2}, map[int][]*rangeproof.Statement{1: {c12Stmt(1, 1, 50, table)}, 3: {c12Stmt(-1, 1, 25, nil)}}},
			{"D={} 3*a1>=149, 3*a1<=151 (4sq)", []int{}, map[int][]*rangeproof.Statement{1: {c12Stmt(1, 3, 149, nil), c12Stmt(-1, 3, 151, nil)}}},
			{"D={2,4} a1<=51 (3sq table)", []int{2, 4}, map[int][]*rangeproof.Statement{1: {c12Stmt(-1, 1, 51, table)}}},
		}
		// (a) false statements cannot be created
		for _, fs := range []struct {
			idx  int
			st   *rangeproof.Statement
			desc string
		}{
			{1, c12Stmt(1, 1, 51, nil), "a1>=51"}, {1, c12Stmt(-1, 1, 49, nil), "a1<=49"}, {1, c12Stmt(1, 1, 51, table), "a1>=51 (3sq)"}, {1, c12Stmt(-1, 1, 49, table), "a1<=49 (3sq)"},
			{1, c12Stmt(1, 3, 151, nil), "3*a1>=151"}, {1, c12Stmt(-1, 3, 149, nil), "3*a1<=149"}, {3, c12Stmt(1, 1, 21, nil), "a3>=21"}, {3, c12Stmt(-1, 8, 159, nil), "8*a3<=159"},
		} {
			if _, mine := r.Next(); !mine {
				continue
			}
			r.Eval()
			r.Nontrivial(keyName + "|false|" + fs.desc)
			p, err := credA.CreateDisclosureProof([]int{2}, map[int][]*rangeproof.Statement{fs.idx: {fs.st}}, false, vfContext, vfNonce)
			if err == nil {
				acc, _ := c12Verify(pk, p)
				if acc {
					r.Violate("C12|false-statement-proved|"+fs.desc, "the library created an accepted proof of "+fs.desc+" for (a1,a3)=(50,20)", fs.desc)
				} else {
					r.Count("false statement: proof created but rejected", 1)
				}
			}
		}
		// forgery with degenerate group elements: the holder attaches a range proof whose C_i are 0, 1,
		// N-1 or N for a FALSE statement and computes the challenge the way the verifier will
		{
			N := pk.N
			for _, nsq := range []int{3, 4} {
				for _, dv := range []struct {
					cname string
					cv    *big.Int
				}{{"0", vfInt(0)}, {"1", vfInt(1)}, {"N-1", new(big.Int).Sub(N, vfInt(1))}, {"N", new(big.Int).Set(N)}} { // a slice: case numbering must be the same in every shard
					cname, cv := dv.cname, dv.cv
					for _, resp := range []int64{0, 1, 999} {
						for _, sign := range []int{1, -1} {
							if _, mine := r.Next(); !mine {
								continue
							}
							r.Eval()
							desc := fmt.Sprintf("forged range proof: %d squares, all C_i=%s, responses=%d, sign=%d, statement false", nsq, cname, resp, sign)
							r.Nontrivial(keyName + "|" + desc)
							b, err := credA.CreateDisclosureProofBuilder([]int{2}, nil, false)
							if err != nil {
								r.HarnessError("builder: %v", err)
								return
							}
							// a1 = 50: claim a1 >= 10^6 (sign 1) or a1 <= 3 (sign -1)
							a, kk := uint(1), vfInt(1000000)
							if sign == -1 {
								kk = vfInt(3)
							}
							if nsq == 3 {
								a = 4
								kk = new(big.Int).Sub(new(big.Int).Mul(kk, vfInt(4)), vfInt(2))
							}
							forged := vfForge(b, pk, func(p *ProofD) {
								rp := &rangeproof.Proof{Ld: 8, Sign: sign, A: a, K: kk, V5Response: vfInt(resp)}
								for i := 0; i < nsq; i++ {
									rp.Cs = append(rp.Cs, vfCopy(cv))
									rp.DResponses = append(rp.DResponses, vfInt(resp))
									rp.VResponses = append(rp.VResponses, vfInt(resp))
								}
								p.RangeProofs = map[int][]*rangeproof.Proof{1: {rp}}
							}, false)
							if forged == nil {
								r.Outcome("forgery:no-fixed-point")
								continue
							}
							acc, _ := c12Verify(pk, forged)
							r.Outcome(fmt.Sprintf("forgery:fixed-point:accepted=%v", acc))
							if acc {
								q := &ProofD{}
								vfJSONCopy(forged, q)
								q.Verify(pk, vfContext, vfNonce, false)
								c12Judge(r, attrs, q, "forged-degenerate-commitments", map[string]any{"key": keyName, "forgery": desc})
							}
						}
					}
				}
			}
		}
		// forgery with a statement chosen AFTER the challenge (weak Fiat-Shamir): the holder fixes what the
		// verifier will reconstruct as commitments of the range proof (T = R^(t - a*sign*r_m), T_i = R^(2^(L*i)))
		// and, once the challenge c is known, solves for the parts of the STATEMENT - the bases C_i = R^(d_i)
		// (d_i the L-bit limbs of t mod c) and the bound k = a*m + sign*(t div c - sum d_i^2) - so that the
		// verification equations reproduce exactly these commitments.  k is off by ~2^200 on the false side.
		// If the C_i and k do not enter the challenge, the fixed point is reached at once.
		{
			// (attribute 2 is large, so that a bound 2^200 below factor*m is still non-negative)
			credL := vfMint(k, vfTag("c12-secretL"), []*big.Int{vfInt(50), new(big.Int).Add(vfPow2(250), vfInt(12345)), vfInt(20), vfTag("c12-l4")}, 6)
			attrs := credL.Attributes
			for _, nsq := range []int{4, 3} {
				for _, tg := range []struct {
					idx  int
					sign int
					a    uint
				}{{1, 1, 1}, {2, 1, 1}, {2, -1, 1}, {2, 1, 5}, {2, -1, 7}} {
					if _, mine := r.Next(); !mine {
						continue
					}
					r.Eval()
					idx, sign, a := tg.idx, tg.sign, tg.a
					if nsq == 3 {
						a = 4
					}
					desc := fmt.Sprintf("statement chosen after the challenge: %d squares, attribute %d, sign=%d, factor=%d, bound off by ~2^200 on the false side", nsq, idx, sign, a)
					r.Nontrivial(keyName + "|" + desc)
					b, err := credL.CreateDisclosureProofBuilder([]int{4}, nil, false)
					if err != nil {
						r.HarnessError("builder: %v", err)
						return
					}
					L := uint(64)
					if nsq == 3 {
						L = 86
					}
					R := pk.R[idx]
					t0 := vfPow2(456)
					as := new(big.Int).Mul(vfInt(int64(sign)), new(big.Int).SetUint64(uint64(a)))
					var forged *ProofD
					pan, _ := vkit.Guard(func() {
						forged = vfForge(b, pk, func(p *ProofD) {
							c := p.C
							if c.BitLen() < 200 {
								c = new(big.Int).Add(vfPow2(255), vfInt(12345)) // first round of the iteration: any plausible challenge
							}
							rem := new(big.Int).Mod(t0, c)
							j := new(big.Int).Div(new(big.Int).Sub(t0, rem), c)
							mask := new(big.Int).Sub(vfPow2(L), vfInt(1))
							sumsq := vfInt(0)
							rp := &rangeproof.Proof{Ld: pk.Params.Lm, Sign: sign, A: a, V5Response: vfInt(0)}
							for i := 0; i < nsq; i++ {
								d := new(big.Int).And(new(big.Int).Rsh(rem, L*uint(i)), mask)
								sumsq.Add(sumsq, new(big.Int).Mul(d, d))
								rp.Cs = append(rp.Cs, new(big.Int).Exp(R, d, pk.N))
								rp.DResponses = append(rp.DResponses, new(big.Int).Add(vfPow2(L*uint(i)), new(big.Int).Mul(c, d)))
								rp.VResponses = append(rp.VResponses, vfInt(0))
							}
							delta := new(big.Int).Sub(j, sumsq)
							if delta.Sign() <= 0 {
								panic("delta")
							}
							rp.K = new(big.Int).Add(new(big.Int).Mul(new(big.Int).SetUint64(uint64(a)), attrs[idx]), new(big.Int).Mul(vfInt(int64(sign)), delta))
							// the m-commitment the verifier reconstructs is R^(t0 - a*sign*r_m) whatever c is: the response
							// of the attribute is the honest one, nothing to do here
							_ = as
							p.RangeProofs = map[int][]*rangeproof.Proof{idx: {rp}}
						}, false)
					})
					if pan || forged == nil {
						r.Outcome(fmt.Sprintf("statement-after-challenge:no-fixed-point:nsq=%d:sign=%d", nsq, sign))
						continue
					}
					acc, _ := c12Verify(pk, forged)
					r.Outcome(fmt.Sprintf("statement-after-challenge:fixed-point:accepted=%v", acc))
					if acc {
						q := &ProofD{}
						vfJSONCopy(forged, q)
						q.Verify(pk, vfContext, vfNonce, false)
						c12Judge(r, attrs, q, "forged-statement-chosen-after-the-challenge", map[string]any{"key": keyName, "forgery": desc})
					}
				}
			}
		}
		// forgery by omission: a credential with a zero-valued attribute below the attacked one; the holder
		// gives the zero attribute the randomiser 0 and mentions it neither as hidden nor as disclosed
		// (R_i^0 = 1, the equation still holds), so the proof mentions fewer indices than its largest hidden
		// index + 1, and attaches a range proof with a false bound at that largest index
		{
			credZ := vfMint(k, vfTag("c12-secretZ"), []*big.Int{vfInt(0), vfInt(5)}, 5)
			for _, nsq := range []int{3, 4} {
				for _, rpKind := range []string{"degenerate", "lie"} {
					if _, mine := r.Next(); !mine {
						continue
					}
					r.Eval()
					desc := fmt.Sprintf("zero attribute omitted, %s range proof (%d squares) claiming a2 >= 1000 at the largest hidden index", rpKind, nsq)
					r.Nontrivial(keyName + "|" + desc)
					b, err := credZ.CreateDisclosureProofBuilder([]int{}, nil, false)
					if err != nil {
						r.HarnessError("builder: %v", err)
						return
					}
					b.attrRandomizers[1] = vfInt(0)
					a, kk := uint(1), vfInt(1000)
					var sp rangeproof.SquareSplitter
					if nsq == 3 {
						a, kk, sp = 4, vfInt(3998), table
					}
					var forged *ProofD
					pan, _ := vkit.Guard(func() {
						forged = vfForge(b, pk, func(p *ProofD) {
							delete(p.AResponses, 1)
							var rp *rangeproof.Proof
							if rpKind == "degenerate" {
								rp = &rangeproof.Proof{Ld: 8, Sign: 1, A: a, K: kk, V5Response: vfInt(7)}
								for i := 0; i < nsq; i++ {
									rp.Cs = append(rp.Cs, vfInt(0))
									rp.DResponses = append(rp.DResponses, vfInt(7))
									rp.VResponses = append(rp.VResponses, vfInt(7))
								}
							} else {
								// an honest-looking proof about another value (1001) with a randomiser of its own
								st, err := rangeproof.NewProofStructure(2, 1, 1, vfInt(1000), sp)
								if err != nil {
									panic(err)
								}
								_, commit, err := st.CommitmentsFromSecrets(pk, vfInt(1001), vfTag("c12-omit-rnd"))
								if err != nil {
									panic(err)
								}
								rp = st.BuildProof(commit, p.C)
							}
							p.RangeProofs = map[int][]*rangeproof.Proof{2: {rp}}
						}, false)
					})
					if pan || forged == nil {
						r.Outcome("omission:no-fixed-point")
						continue
					}
					acc, _ := c12Verify(pk, forged)
					r.Outcome(fmt.Sprintf("omission:fixed-point:accepted=%v", acc))
					if acc {
						q := &ProofD{}
						vfJSONCopy(forged, q)
						q.Verify(pk, vfContext, vfNonce, false)
						c12Judge(r, credZ.Attributes, q, "forged-by-omitting-a-zero-attribute", map[string]any{"key": keyName, "forgery": desc})
					}
				}
			}
		}
		// forgery by a consistent lie: a well-formed range proof about a value m' that satisfies the
		// (false) statement, built with the real attribute's randomiser or a fresh one, its own response
		// for m' left in the proof object; only the tie to the attribute response at the index stops it
		for _, lie := range []struct {
			idx, sign int
			factor    uint
			bound, m  int64
			sp        rangeproof.SquareSplitter
			desc      string
		}{
			{1, 1, 1, 1050, 1051, nil, "a1>=1050 via m'=1051 (4sq)"}, {1, -1, 1, 10, 9, nil, "a1<=10 via m'=9 (4sq)"},
			{1, 1, 1, 51, 51, table, "a1>=51 via m'=51 (3sq)"}, {1, -1, 1, 49, 48, table, "a1<=49 via m'=48 (3sq)"},
			{3, 1, 3, 61, 21, nil, "3*a3>=61 via m'=21 (4sq)"}, {3, -1, 8, 159, 19, nil, "8*a3<=159 via m'=19 (4sq)"},
		} {
			for _, rnd := range []string{"attribute-randomiser", "fresh-randomiser", "split (the difference to the signed value disclosed at the same index)"} {
				if _, mine := r.Next(); !mine {
					continue
				}
				r.Eval()
				desc := "consistent lie: " + lie.desc + ", " + rnd
				r.Nontrivial(keyName + "|" + desc)
				var forged *ProofD
				pan, msg := vkit.Guard(func() {
					b, err := credA.CreateDisclosureProofBuilder([]int{2}, nil, false)
					if err != nil {
						panic(err)
					}
					rs, _ := NewProofRandomizers()
					list, err := b.Commit(rs)
					if err != nil {
						panic(err)
					}
					st, err := rangeproof.NewProofStructure(lie.idx, lie.sign, lie.factor, vfInt(lie.bound), lie.sp)
					if err != nil {
						panic(err)
					}
					mr := b.attrRandomizers[lie.idx]
					if rnd == "fresh-randomiser" {
						mr = vfTag("c12-lie-randomiser")
					}
					contrib, commit, err := st.CommitmentsFromSecrets(pk, vfInt(lie.m), mr)
					if err != nil {
						panic(err)
					}
					c := createChallenge(vfContext, vfNonce, append(list, contrib...), false)
					forged = b.CreateProof(c).(*ProofD)
					forged.RangeProofs = map[int][]*rangeproof.Proof{lie.idx: {st.BuildProof(commit, c)}}
					if strings.HasPrefix(rnd, "split") {
						// m = x + m': x is "disclosed" at the very index whose hidden remainder m' the response and
						// the range proof are about (the verification equation cannot tell)
						x := new(big.Int).Sub(attrs[lie.idx], vfInt(lie.m))
						forged.ADisclosed[lie.idx] = x
						forged.AResponses[lie.idx] = new(big.Int).Sub(forged.AResponses[lie.idx], new(big.Int).Mul(c, x))
					}
				})
				if pan || forged == nil {
					r.Outcome("lie:not-constructible")
					r.Count("consistent-lie forgery not constructible: "+msg, 1)
					continue
				}
				acc, _ := c12Verify(pk, forged)
				r.Outcome(fmt.Sprintf("lie:accepted=%v", acc))
				if acc {
					c12Judge(r, attrs, forged, "forged-consistent-lie", map[string]any{"key": keyName, "forgery": desc})
				}
			}
		}
		foreign, err := credB.CreateDisclosureProof([]int{4}, map[int][]*rangeproof.Statement{1: {c12Stmt(1, 1, 4000, nil)}}, false, vfContext, vfNonce)
		if err != nil {
			r.HarnessError("foreign proof: %v", err)
			return
		}
		for bi, b := range bases {
			honest, err := credA.CreateDisclosureProof(b.disclosed, b.stmts, false, vfContext, vfNonce)
			if err != nil {
				r.Violate("C12|honest-range-proof-not-created", fmt.Sprintf("%s: %v", b.name, err), b.name)
				continue
			}
			r.Eval()
			if acc, _ := c12Verify(pk, honest); !acc {
				r.Violate("C12|honest-range-proof-rejected", b.name, b.name)
				continue
			}
			c12Judge(r, attrs, honest, "honest", b.name)
			c12Prior = honest
			r.Sample(map[string]any{"key": keyName, "base": b.name})
			type alt struct {
				class, desc string
				f           func(p *ProofD)
			}
			var alts []alt
			add := func(class, desc string, f func(p *ProofD)) { alts = append(alts, alt{class, desc, f}) }
			inc := func(v *big.Int, d int64) *big.Int { return new(big.Int).Add(v, vfInt(d)) }
			var idxs []int
			for idx := range honest.RangeProofs {
				idxs = append(idxs, idx)
			}
			sort.Ints(idxs)
			for _, idx := range idxs {
				for i := range honest.RangeProofs[idx] {
					idx, i := idx, i
					rp := func(p *ProofD) *rangeproof.Proof { return p.RangeProofs[idx][i] }
					n := len(honest.RangeProofs[idx][i].Cs)
					for j := 0; j < n; j++ {
						j := j
						add("Cs", fmt.Sprintf("[%d][%d].Cs[%d]+1", idx, i, j), func(p *ProofD) { rp(p).Cs[j] = inc(rp(p).Cs[j], 1) })
						add("ds", fmt.Sprintf("[%d][%d].ds[%d]+1", idx, i, j), func(p *ProofD) { rp(p).DResponses[j] = inc(rp(p).DResponses[j], 1) })
						add("vs", fmt.Sprintf("[%d][%d].vs[%d]+1", idx, i, j), func(p *ProofD) { rp(p).VResponses[j] = inc(rp(p).VResponses[j], 1) })
					}
					add("Cs-swap", fmt.Sprintf("[%d][%d].Cs[0]<->Cs[1]", idx, i), func(p *ProofD) { rp(p).Cs[0], rp(p).Cs[1] = rp(p).Cs[1], rp(p).Cs[0] })
					add("Cs-count", fmt.Sprintf("[%d][%d] one square dropped", idx, i), func(p *ProofD) {
						q := rp(p)
						q.Cs, q.DResponses, q.VResponses = q.Cs[:n-1], q.DResponses[:n-1], q.VResponses[:n-1]
					})
					add("v5", fmt.Sprintf("[%d][%d].v5+1", idx, i), func(p *ProofD) { rp(p).V5Response = inc(rp(p).V5Response, 1) })
					add("l_d", fmt.Sprintf("[%d][%d].l_d+1", idx, i), func(p *ProofD) { rp(p).Ld++ })
					add("l_d", fmt.Sprintf("[%d][%d].l_d=0", idx, i), func(p *ProofD) { rp(p).Ld = 0 })
					add("sign", fmt.Sprintf("[%d][%d].sign flipped", idx, i), func(p *ProofD) { rp(p).Sign = -rp(p).Sign })
					add("sign", fmt.Sprintf("[%d][%d].sign=0", idx, i), func(p *ProofD) { rp(p).Sign = 0 })
					for _, sv := range []int{2, -2, 1 << 32, 1<<32 + 1, math.MaxInt64, math.MinInt64 + 1, math.MinInt64, math.MaxInt32} {
						sv := sv
						add("sign", fmt.Sprintf("[%d][%d].sign=%d", idx, i, sv), func(p *ProofD) { rp(p).Sign = sv })
					}
					add("a", fmt.Sprintf("[%d][%d].a+1", idx, i), func(p *ProofD) { rp(p).A++ })
					add("a", fmt.Sprintf("[%d][%d].a*2", idx, i), func(p *ProofD) { rp(p).A *= 2 })
					add("a", fmt.Sprintf("[%d][%d].a=0", idx, i), func(p *ProofD) { rp(p).A = 0 })
					for _, d := range []int64{1, -1, 4, -4, 8, -8, 1000, -1000} {
						d := d
						add("k", fmt.Sprintf("[%d][%d].k%+d", idx, i, d), func(p *ProofD) { rp(p).K = inc(rp(p).K, d) })
					}
					// transplants of this entry
					targets := []int{-1, 0, 1, 2, 3, 4, 5, 7, len(pk.R), 1000}
					for _, tgt := range targets {
						tgt := tgt
						if tgt == idx {
							continue
						}
						add("moved", fmt.Sprintf("[%d][%d] moved to index %d", idx, i, tgt), func(p *ProofD) {
							e := p.RangeProofs[idx][i]
							p.RangeProofs[idx] = append(append([]*rangeproof.Proof{}, p.RangeProofs[idx][:i]...), p.RangeProofs[idx][i+1:]...)
							if len(p.RangeProofs[idx]) == 0 {
								delete(p.RangeProofs, idx)
							}
							p.RangeProofs[tgt] = append(p.RangeProofs[tgt], e)
						})
						add("copied", fmt.Sprintf("[%d][%d] copied to index %d", idx, i, tgt), func(p *ProofD) {
							var c rangeproof.Proof
							vfJSONCopy(p.RangeProofs[idx][i], &c)
							p.RangeProofs[tgt] = append(p.RangeProofs[tgt], &c)
						})
						add("moved+m", fmt.Sprintf("[%d][%d] moved to index %d with its attribute response pre-set to the response of index %d", idx, i, tgt, idx), func(p *ProofD) {
							e := p.RangeProofs[idx][i]
							e.MResponse = vfCopy(p.AResponses[idx])
							p.RangeProofs[idx] = append(append([]*rangeproof.Proof{}, p.RangeProofs[idx][:i]...), p.RangeProofs[idx][i+1:]...)
							if len(p.RangeProofs[idx]) == 0 {
								delete(p.RangeProofs, idx)
							}
							p.RangeProofs[tgt] = append(p.RangeProofs[tgt], e)
						})
						add("copied+m", fmt.Sprintf("[%d][%d] copied to index %d with its attribute response pre-set to the response of index %d", idx, i, tgt, idx), func(p *ProofD) {
							var c rangeproof.Proof
							vfJSONCopy(p.RangeProofs[idx][i], &c)
							c.MResponse = vfCopy(p.AResponses[idx])
							p.RangeProofs[tgt] = append(p.RangeProofs[tgt], &c)
						})
						add("bogus-added", fmt.Sprintf("copy of [%d][%d] claiming k=10^6 added at index %d", idx, i, tgt), func(p *ProofD) {
							var c rangeproof.Proof
							vfJSONCopy(p.RangeProofs[idx][i], &c)
							c.K = vfInt(1000000 * int64(c.A))
							c.Sign = 1
							p.RangeProofs[tgt] = append(p.RangeProofs[tgt], &c)
						})
					}
					add("foreign", fmt.Sprintf("[%d][%d] replaced by a range proof of another credential", idx, i), func(p *ProofD) {
						var c rangeproof.Proof
						vfJSONCopy(foreign.RangeProofs[1][0], &c)
						p.RangeProofs[idx][i] = &c
					})
					add("foreign", fmt.Sprintf("range proof of another credential appended at index %d", idx), func(p *ProofD) {
						var c rangeproof.Proof
						vfJSONCopy(foreign.RangeProofs[1][0], &c)
						p.RangeProofs[idx] = append(p.RangeProofs[idx], &c)
					})
				}
			}
			for _, a := range alts {
				if _, mine := r.Next(); !mine {
					continue
				}
				if r.Expired() {
					return
				}
				p := &ProofD{}
				vfJSONCopy(honest, p)
				if pan, _ := vkit.Guard(func() { a.f(p) }); pan {
					continue
				}
				r.Eval()
				r.Nontrivial(fmt.Sprintf("%s|%d|%s", keyName, bi, a.desc))
				acc, pan := c12Verify(pk, p)
				if pan {
					r.Count("panic during verification (judged by C08)", 1)
				}
				r.Outcome(fmt.Sprintf("%s:accepted=%v", a.class, acc))
				if acc {
					rep := map[string]any{"key": keyName, "base": b.name, "alteration": a.desc}
					c12Judge(r, attrs, p, a.class, rep)
					// carried => checked: an accepted altered proof whose carried statements are all
					// true may still be accepted only if the alteration left the verified material intact
					switch a.class {
					case "Cs", "ds", "vs", "v5", "Cs-swap", "foreign":
						r.Violate("C12|altered-range-proof-accepted|"+a.class, fmt.Sprintf("%s: %s accepted", b.name, a.desc), rep)
					}
				}
			}
		}
	}
}
