//go:build verif

package gabi

// C07 — proof randomness is never reused.
//
// Sequential part: explicit-state search over all sequences of <= D operations from
// {prepare cache, update witness, prove with/without non-revocation, build a proof list over two
// credentials, issuance commitment}; every produced proof is kept and every pair is judged.
// Concurrent part: the shared-credential harnesses of C20 with the CPRNG reservation step also
// instrumented (so that a non-atomic reservation shows up as a reused randomiser).

import (
	"fmt"
	"testing"
	"time"

	"github.com/privacybydesign/gabi/big"
	"github.com/privacybydesign/gabi/gabikeys"
	"github.com/privacybydesign/gabi/internal/verif/vkit"
	"github.com/privacybydesign/gabi/rangeproof"
)

type c07Item struct {
	op    string
	list  int // proofs of one BuildProofList share the secret-key randomiser by design
	cred  string
	d     *ProofD
	u     *ProofU
	attrs []*big.Int
	bld   int // issuance: which CredentialBuilder object made the commitment (same builder => same U by construction)
}

// c07Judge: all pairs of kept proofs.
func c07Judge(pk map[string]*gabikeys.PublicKey, items []c07Item, secret *big.Int) (string, string) {
	type rnd struct {
		what string
		v    string
		list int
		i    int
	}
	var rs []rnd
	seen := map[string]int{}
	for i, it := range items {
		if it.d != nil {
			p := it.d
			k := pk[it.cred]
			for name, v := range map[string]*big.Int{"A": p.A} {
				key := it.cred + "|" + name + "|" + v.String()
				if j, dup := seen[key]; dup {
					return "repeated-" + name, fmt.Sprintf("proofs %d (%s) and %d (%s) share %s", j, items[j].op, i, it.op, name)
				}
				seen[key] = i
			}
			if np := p.NonRevocationProof; np != nil {
				for name, v := range map[string]*big.Int{"C_r": np.Cr, "C_u": np.Cu} {
					key := it.cred + "|" + name + "|" + v.String()
					if j, dup := seen[key]; dup {
						return "repeated-" + name, fmt.Sprintf("proofs %d (%s) and %d (%s) share %s", j, items[j].op, i, it.op, name)
					}
					seen[key] = i
				}
			}
			for idx, s := range p.AResponses {
				impl := new(big.Int).Sub(s, new(big.Int).Mul(p.C, vfMsgExp(k, it.attrs[idx])))
				what := fmt.Sprintf("%s|attr%d", it.cred, idx)
				if idx == 0 {
					what = "secret"
				}
				rs = append(rs, rnd{what, impl.String(), it.list, i})
			}
			ePrime := new(big.Int).Sub(itE(it), vfPow2(k.Params.Le-1))
			rs = append(rs, rnd{it.cred + "|e", new(big.Int).Sub(p.EResponse, new(big.Int).Mul(p.C, ePrime)).String(), it.list, i})
		}
		if it.u != nil {
			impl := new(big.Int).Sub(it.u.SResponse, new(big.Int).Mul(it.u.C, secret))
			rs = append(rs, rnd{"secret", impl.String(), it.list, i})
			key := "U|" + it.u.U.String()
			if j, dup := seen[key]; dup && items[j].bld != it.bld {
				return "repeated-U", fmt.Sprintf("issuance commitments %d and %d of different builders share U (same v')", j, i)
			}
			seen[key] = i
		}
	}
	idx := map[string]rnd{}
	for _, r := range rs {
		k := r.what + "|" + r.v
		if prev, dup := idx[k]; dup {
			if prev.list == r.list && r.what == "secret" {
				continue // one list, one shared secret-key randomiser: by design
			}
			return "commitment-randomiser-used-twice|" + classOf(r.what), fmt.Sprintf("proofs %d (%s) and %d (%s) imply the same randomiser for %s: the two-transcript extractor recovers the hidden value", prev.i, items[prev.i].op, r.i, items[r.i].op, r.what)
		}
		idx[k] = r
	}
	return "", ""
}

func classOf(what string) string {
	switch {
	case what == "secret":
		return "secret-key"
	case len(what) > 2 && what[len(what)-2:] == "|e":
		return "signature-exponent"
	}
	return "attribute"
}

var c07E = map[*ProofD]*big.Int{}

func itE(it c07Item) *big.Int { return c07E[it.d] }

var c07Ops = []string{"prepare", "update", "prove-nonrev", "prove-plain", "list(A nonrev,B)", "issuance-commit", "issuance-commit-same-builder"}

func TestVerifC07Sequential(t *testing.T) {
	r := vkit.Start(t, "C07", "sequential-histories", 240*time.Second, 1500*time.Second)
	defer r.Finish()
	r.Rule = "every sequence of <= D operations over {prepare cache, update witness (after a revocation of another value), prove with non-revocation, prove without, BuildProofList over credential A (non-revocation) and B, issuance commitment with the same secret, a further issuance commitment from the SAME builder under a new nonce (retried session)}; a state is the history, replayed on fresh real objects with seeded randomness; every produced proof is kept; non-trivial = distinct sequence producing >= 2 proofs; oracle over all pairs: implied randomisers s-c*m of every hidden attribute, the secret key (except inside one list) and the exponent pairwise distinct, A / C_r / C_u / U never repeat, every proof verifies"
	D := vkit.Pick(4, 6)
	r.Bounds["max_depth"] = D
	kA, kB := vfK("toyB"), vfK("toyA")
	pks := map[string]*gabikeys.PublicKey{"A": kA.Pk, "B": kB.Pk}
	env := vfInstallEnv(t, "C07/seq", r.Seed)
	secret := vfTag("c07-secret")
	seq := make([]int, 0, D)
	var rec func()
	run := func() {
		nProofs := 0
		for _, o := range seq {
			if o >= 2 {
				nProofs++
			}
		}
		if nProofs < 2 || seq[len(seq)-1] < 2 {
			return
		}
		if _, mine := r.Next(); !mine {
			return
		}
		env.Reset()
		vfReseedCPRNG("C07/seq")
		w := c11NewWorld(kA)
		credA := w.issue(secret, []*big.Int{vfTag("c07-a1"), vfTag("c07-a2")}, 3)
		credB := vfMint(kB, secret, []*big.Int{vfTag("c07-b1")}, 4)
		var items []c07Item
		var lastCB *CredentialBuilder
		builders := 0
		name := ""
		for _, o := range seq {
			name += c07Ops[o] + ";"
		}
		r.Eval()
		r.States++
		r.Nontrivial(name)
		fail := func(sig, detail string) {
			r.Violate("C07|"+sig, name+": "+detail, map[string]any{"sequence": name})
		}
		for step, o := range seq {
			r.Transitions++
			r.Traces++
			switch c07Ops[o] {
			case "prepare":
				if err := credA.NonrevPrepareCache(); err != nil {
					fail("prepare-failed", err.Error())
					return
				}
			case "update":
				w.revoke(vfRevPrime(200 + step))
				if err := credA.NonRevocationWitness.Update(kA.Pk, w.update(int(credA.NonRevocationWitness.SignedAccumulator.Accumulator.Index)+1)); err != nil {
					fail("update-failed", err.Error())
					return
				}
			case "prove-nonrev", "prove-plain":
				p, err := credA.CreateDisclosureProof([]int{1}, nil, c07Ops[o] == "prove-nonrev", vfContext, vfNonce)
				if err != nil {
					fail("proof-not-created", err.Error())
					return
				}
				if !vsCloneProof(p).(*ProofD).Verify(kA.Pk, vfContext, vfNonce, false) {
					fail("proof-invalid", fmt.Sprintf("step %d", step))
				}
				c07E[p] = credA.Signature.E
				items = append(items, c07Item{op: c07Ops[o], list: 1000 + step, cred: "A", d: p, attrs: credA.Attributes})
			case "list(A nonrev,B)":
				bA, err := credA.CreateDisclosureProofBuilder([]int{2}, nil, true)
				if err != nil {
					fail("builder-not-created", err.Error())
					return
				}
				bB, err := credB.CreateDisclosureProofBuilder([]int{}, nil, false)
				if err != nil {
					fail("builder-not-created", err.Error())
					return
				}
				L, err := ProofBuilderList{bA, bB}.BuildProofList(vfContext, vfNonce, true)
				if err != nil {
					fail("list-not-built", err.Error())
					return
				}
				if !vsCloneList(L).Verify([]*gabikeys.PublicKey{kA.Pk, kB.Pk}, vfContext, vfNonce, true, nil) {
					fail("proof-invalid", fmt.Sprintf("list at step %d", step))
				}
				pA, pB := L[0].(*ProofD), L[1].(*ProofD)
				c07E[pA], c07E[pB] = credA.Signature.E, credB.Signature.E
				items = append(items, c07Item{op: "list/A", list: step, cred: "A", d: pA, attrs: credA.Attributes}, c07Item{op: "list/B", list: step, cred: "B", d: pB, attrs: credB.Attributes})
			case "issuance-commit", "issuance-commit-same-builder":
				// (a retried issuance session: the same builder commits again under a new nonce)
				var cb *CredentialBuilder
				nonce := vfNonce
				if c07Ops[o] == "issuance-commit-same-builder" && lastCB != nil {
					cb = lastCB
					nonce = new(big.Int).Add(vfNonce, vfInt(int64(step)+1))
				} else {
					var err error
					cb, err = NewCredentialBuilder(kB.Pk, vfContext, secret, vsNonce2, nil, nil)
					if err != nil {
						fail("credential-builder-failed", err.Error())
						return
					}
					lastCB = cb
					builders++
				}
				msg, err := cb.CommitToSecretAndProve(nonce)
				if err != nil {
					fail("commit-failed", err.Error())
					return
				}
				pu := msg.Proofs[0].(*ProofU)
				if !pu.Verify(kB.Pk, vfContext, nonce) {
					fail("proof-invalid", "ProofU")
				}
				items = append(items, c07Item{op: c07Ops[o], list: 2000 + step, cred: "B", u: pu, bld: builders})
			}
		}
		if sig, detail := c07Judge(pks, items, secret); sig != "" {
			fail(sig, detail)
		}
		r.Outcome(fmt.Sprintf("proofs=%d:cache_len=%d", len(items), len(credA.nonrevCache)))
		for _, it := range items {
			delete(c07E, it.d)
		}
		r.Sample(map[string]any{"sequence": name, "proofs": len(items)})
	}
	rec = func() {
		if r.Expired() {
			return
		}
		if len(seq) >= 2 {
			run()
		}
		if len(seq) == D {
			return
		}
		for o := range c07Ops {
			seq = append(seq, o)
			rec()
			seq = seq[:len(seq)-1]
		}
	}
	rec()
}

func TestVerifC07ConcurrentCPRNG(t *testing.T) {
	concExplore(t, "C07", "concurrent-cprng-instrumented", vkit.Pick(2, 3), 200*time.Second, 1200*time.Second)
}

func TestVerifC07ConcurrentCache(t *testing.T) {
	concExplore(t, "C07", "concurrent-shared-credential", vkit.Pick(2, 3), 200*time.Second, 1200*time.Second)
}

// TestVerifC07Volume: many proofs from ONE credential, all pairs judged at once (the judge is linear
// in the number of proofs).  A randomiser drawn from a space of fewer than N values must repeat among
// N+1 proofs (pigeonhole), one of fewer than ~N^2/2 values repeats with probability > 1/2: what the
// short histories of the sequential part cannot see - a randomiser that is fresh every time but comes
// from a small set - shows up here, and deterministically so for sets smaller than N.
func TestVerifC07Volume(t *testing.T) {
	r := vkit.Start(t, "C07", "many-proofs-of-one-credential", 200*time.Second, 900*time.Second)
	defer r.Finish()
	N := vkit.Pick(2048, 16384)
	r.Bounds["proofs_per_credential"] = N
	r.Rule = fmt.Sprintf("one credential with a witness (toy key), %d proofs in a row per kind {disclosure without / with non-revocation part (cache never prepared), randomised signature alone, issuance commitment of a fresh builder, keyshare secret + commitment, proof randomisers, disclosure with a range statement requested with one and the same Statement object}; non-trivial = distinct proof; oracle over all pairs (linear-time set membership): A, C_r, C_u never repeat, implied randomisers of every hidden attribute, the secret key and the exponent pairwise distinct", N)
	kA := vfK("toyB")
	pks := map[string]*gabikeys.PublicKey{"A": kA.Pk}
	vfInstallEnv(t, "C07/volume", r.Seed)
	secret := vfTag("c07-secret")
	for _, kind := range []string{"prove-plain", "prove-nonrev", "randomize", "issuance-commit", "keyshare-commitments", "proof-randomizers", "prove-range-one-statement-object"} {
		if _, mine := r.Next(); !mine {
			continue
		}
		w := c11NewWorld(kA)
		credA := w.issue(secret, []*big.Int{vfTag("c07-a1"), vfTag("c07-a2")}, 3)
		credL := vfMint(kA, secret, []*big.Int{vfTag("c07-l1"), vfInt(1000)}, 5)
		var c07Stmt *rangeproof.Statement
		var items []c07Item
		seenA := map[string]int{}
		n := N
		if kind == "prove-nonrev" {
			n = N / 4 // four times the cost per proof
		}
		for i := 0; i < n; i++ {
			if r.Expired() {
				return
			}
			r.Eval()
			r.Nontrivial(fmt.Sprintf("%s #%d", kind, i))
			if kind == "prove-range-one-statement-object" {
				// every proof is requested with the SAME Statement object: what a proof structure keeps from one
				// proof must not be handed to the next
				if i >= n/8 {
					break
				}
				if c07Stmt == nil {
					c07Stmt, _ = rangeproof.NewStatement(rangeproof.GreaterOrEqual, vfInt(5))
				}
				p, err := credL.CreateDisclosureProof([]int{1}, map[int][]*rangeproof.Statement{2: {c07Stmt}}, false, vfContext, vfNonce)
				if err != nil {
					r.Violate("C07|proof-not-created", err.Error(), kind)
					return
				}
				if !vsCloneProof(p).(*ProofD).Verify(kA.Pk, vfContext, vfNonce, false) {
					r.Violate("C07|proof-invalid|range-proof-from-a-reused-statement-object", fmt.Sprintf("proof %d requested with a Statement object used before does not verify", i), kind)
					break
				}
				for ci, c := range p.RangeProofs[2][0].Cs {
					key := fmt.Sprintf("range C_%d|%s", ci, c.String())
					if j, dup := seenA[key]; dup {
						r.Violate("C07|repeated-range-commitment|one-statement-object", fmt.Sprintf("proofs %d and %d requested with one Statement object carry the same range-proof commitment C_%d: the two-transcript extractor recovers the hidden attribute", j, i, ci), kind)
						break
					}
					seenA[key] = i
				}
				c07E[p] = credL.Signature.E
				items = append(items, c07Item{op: kind, list: 1000 + i, cred: "A", d: p, attrs: credL.Attributes})
				continue
			}
			if kind == "issuance-commit" {
				cb, err := NewCredentialBuilder(kA.Pk, vfContext, secret, vsNonce2, nil, nil)
				var msg *IssueCommitmentMessage
				if err == nil {
					msg, err = cb.CommitToSecretAndProve(vfNonce)
				}
				if err != nil {
					r.Violate("C07|commit-failed", err.Error(), kind)
					return
				}
				items = append(items, c07Item{op: kind, list: 2000 + i, cred: "A", u: msg.Proofs[0].(*ProofU), bld: i + 1})
				continue
			}
			if kind == "keyshare-commitments" || kind == "proof-randomizers" {
				var vals map[string]*big.Int
				if kind == "proof-randomizers" {
					rnd, err := NewProofRandomizers()
					if err != nil {
						r.Violate("C07|randomizers-failed", err.Error(), kind)
						return
					}
					vals = rnd
				} else {
					ks, err := NewKeyshareSecret()
					if err != nil {
						r.Violate("C07|keyshare-secret-failed", err.Error(), kind)
						return
					}
					rnd, comms, err := NewKeyshareCommitments(ks, []*gabikeys.PublicKey{vfK("k1024a").Pk})
					if err != nil || len(comms) != 1 {
						r.Violate("C07|keyshare-commitments-failed", fmt.Sprint(err), kind)
						return
					}
					vals = map[string]*big.Int{"keyshare secret": ks, "keyshare randomizer": rnd, "keyshare commitment": comms[0].Pcommit}
				}
				for name, v := range vals {
					key := name + "|" + v.String()
					if j, dup := seenA[key]; dup {
						r.Violate("C07|repeated-value|"+kind, fmt.Sprintf("calls %d and %d (out of %d) returned the same %s", j, i, n, name), kind)
						break
					}
					seenA[key] = i
				}
				continue
			}
			if kind == "randomize" {
				s, err := credA.Signature.Randomize(kA.Pk)
				if err != nil {
					r.Violate("C07|randomize-failed", err.Error(), kind)
					return
				}
				if j, dup := seenA[s.A.String()]; dup {
					r.Violate("C07|repeated-A|randomised-signatures-of-one-credential", fmt.Sprintf("randomisations %d and %d of one signature (out of %d) have the same A: the randomiser comes from a small set", j, i, n), kind)
					break
				}
				seenA[s.A.String()] = i
				continue
			}
			p, err := credA.CreateDisclosureProof([]int{1}, nil, kind == "prove-nonrev", vfContext, vfNonce)
			if err != nil {
				r.Violate("C07|proof-not-created", err.Error(), kind)
				return
			}
			c07E[p] = credA.Signature.E
			items = append(items, c07Item{op: kind, list: 1000 + i, cred: "A", d: p, attrs: credA.Attributes})
		}
		if sig, detail := c07Judge(pks, items, secret); sig != "" {
			r.Violate("C07|"+sig+"|many-proofs-of-one-credential", fmt.Sprintf("%d x %s: %s", len(items), kind, detail), kind)
		}
		for _, it := range items {
			delete(c07E, it.d)
		}
		r.Outcome(fmt.Sprintf("%s:proofs=%d", kind, n))
		r.Sample(map[string]any{"kind": kind, "proofs": n})
	}
}
