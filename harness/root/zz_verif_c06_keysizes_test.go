//go:build verif

package gabi

// C06 — honest issuance under keys of different sizes one after the other in ONE process, starting from
// the state of a fresh process (a unit of its own, one sequence per shard process): nothing the
// library keeps between calls may depend on which key size came first.

import (
	"fmt"
	"testing"
	"time"

	"github.com/privacybydesign/gabi/gabikeys"
	"github.com/privacybydesign/gabi/internal/verif/vkit"
)

func TestVerifC06KeySizes(t *testing.T) {
	prop := vkit.PropertyOr("C06") // also a unit of C04 (the credential can be shown) and C05 (the issuer's signature verifies)
	r := vkit.Start(t, prop, "key-size-sequences", 120*time.Second, 600*time.Second)
	defer r.Finish()
	r.Rule = "every sequence a, b, a of two different keys out of {toy, 1024-bit, 2048-bit, 4096-bit (ordinary primes)} (12 sequences, each the first library use of its process) x honest issuance (2 attributes, no blind attribute; and with a random-blind attribute) at every position; non-trivial = distinct (sequence, position, configuration); oracle: the issuer accepts the commitment proof, the holder obtains a credential whose signature verifies, and a disclosure proof from it verifies"
	vfInstallEnv(t, "C06/keysizes", r.Seed)
	keys := []string{"toyA", "k1024a", "k2048", "k4096w"}
	for _, a := range keys {
		for _, b := range keys {
			if a == b {
				continue
			}
			if _, mine := r.Next(); !mine {
				continue
			}
			seq := []string{a, b, a}
			for pos, keyName := range seq {
				for _, cfg := range []c06Cfg{{keyName, 2, nil, false, false}, {keyName, 2, []int{1}, false, false}} {
					r.Eval()
					desc := fmt.Sprintf("sequence %v position %d: %s", seq, pos, cfg)
					r.Nontrivial(desc)
					k := vfK(keyName)
					run := c06Start(cfg, fmt.Sprint("ks", pos))
					ism, why := run.issue(run.commit, run.nonce1, true)
					if ism == nil {
						r.Outcome("honest-run-failed:issuer")
						r.Violate(prop+"|honest-run-failed|issuer|after-another-key-size", desc+": "+why, desc)
						continue
					}
					cred, err, pan := run.finish(ism)
					if pan != "" || err != nil || cred == nil {
						r.Outcome("honest-run-failed:holder")
						r.Violate(prop+"|honest-run-failed|holder|after-another-key-size", fmt.Sprintf("%s: %v %s", desc, err, pan), desc)
						continue
					}
					ok := false
					vkit.Guard(func() {
						if !cred.Signature.Verify(k.Pk, cred.Attributes) {
							return
						}
						p, err := cred.CreateDisclosureProof([]int{1}, nil, false, vfContext, vfNonce)
						if err != nil {
							return
						}
						q := &ProofD{}
						vfJSONCopy(p, q)
						ok = ProofList{q}.Verify([]*gabikeys.PublicKey{k.Pk}, vfContext, vfNonce, false, nil)
					})
					r.Outcome(fmt.Sprintf("run-complete:credential-usable=%v", ok))
					if !ok {
						r.Violate(prop+"|credential-not-usable|after-another-key-size", desc, desc)
					}
				}
			}
			r.Sample(map[string]any{"sequence": seq})
		}
	}
}
