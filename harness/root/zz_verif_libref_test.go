//go:build verif

package gabi

// Independent reference implementations used as oracles: DER+SHA-256 challenge hash and a
// re-implementation of disclosure-proof verification written from the protocol description
// (different formulation of the Z-commitment than the implementation uses).

import (
	"crypto/sha256"
	mbig "math/big"

	"github.com/privacybydesign/gabi/big"
	"github.com/privacybydesign/gabi/gabikeys"
)

func refDERLen(n int) []byte {
	if n < 128 {
		return []byte{byte(n)}
	}
	var b []byte
	for x := n; x > 0; x >>= 8 {
		b = append([]byte{byte(x)}, b...)
	}
	return append([]byte{0x80 | byte(len(b))}, b...)
}

func refDERInt(v *mbig.Int) []byte {
	var c []byte
	switch v.Sign() {
	case 0:
		c = []byte{0}
	case 1:
		c = v.Bytes()
		if c[0]&0x80 != 0 {
			c = append([]byte{0}, c...)
		}
	default:
		m := new(mbig.Int).Neg(v)
		m.Sub(m, mbig.NewInt(1))
		c = m.Bytes()
		for i := range c {
			c[i] ^= 0xff
		}
		if len(c) == 0 || c[0]&0x80 == 0 {
			c = append([]byte{0xff}, c...)
		}
	}
	return append(append([]byte{0x02}, refDERLen(len(c))...), c...)
}

// refChallenge = SHA-256(DER(SEQUENCE{[TRUE,] count, context, contributions..., nonce}))
func refChallenge(context, nonce *big.Int, contributions []*big.Int, issig bool) *big.Int {
	vals := append(append([]*big.Int{context}, contributions...), nonce)
	var body []byte
	if issig {
		body = append(body, 0x01, 0x01, 0xff)
	}
	body = append(body, refDERInt(mbig.NewInt(int64(len(vals))))...)
	for _, v := range vals {
		body = append(body, refDERInt(v.Go())...)
	}
	enc := append(append([]byte{0x30}, refDERLen(len(body))...), body...)
	h := sha256.Sum256(enc)
	return new(big.Int).SetBytes(h[:])
}

func refHashIfBig(pk *gabikeys.PublicKey, v *big.Int) *big.Int {
	if v.BitLen() > int(pk.Params.Lm) {
		h := sha256.Sum256(v.Bytes())
		return new(big.Int).SetBytes(h[:])
	}
	return v
}

func refExp(base, e, n *big.Int) *big.Int {
	if e.Sign() < 0 {
		inv := new(big.Int).ModInverse(base, n)
		if inv == nil {
			return nil
		}
		return inv.Exp(inv, new(big.Int).Neg(e), n)
	}
	return new(big.Int).Exp(base, e, n)
}

// refZCommit recomputes the commitment of a plain ProofD:
//
//	Zc = Z^{-c} * A^{e_resp + c*2^{le-1}} * S^{v_resp} * prod_hidden R_i^{s_i} * prod_disclosed R_i^{c*a_i}
func refZCommit(pk *gabikeys.PublicKey, p *ProofD) (*big.Int, string) {
	if p.C == nil || p.A == nil || p.EResponse == nil || p.VResponse == nil {
		return nil, "missing field"
	}
	n := pk.N
	acc := refExp(pk.Z, new(big.Int).Neg(p.C), n)
	if acc == nil {
		return nil, "Z not invertible"
	}
	eExp := new(big.Int).Lsh(big.NewInt(1), pk.Params.Le-1)
	eExp.Mul(eExp, p.C).Add(eExp, p.EResponse)
	t := refExp(p.A, eExp, n)
	if t == nil {
		return nil, "A not invertible"
	}
	acc.Mul(acc, t).Mod(acc, n)
	t = refExp(pk.S, p.VResponse, n)
	if t == nil {
		return nil, "S not invertible"
	}
	acc.Mul(acc, t).Mod(acc, n)
	for i, s := range p.AResponses {
		if i < 0 || i >= len(pk.R) || s == nil {
			return nil, "hidden index out of range or nil response"
		}
		t = refExp(pk.R[i], s, n)
		if t == nil {
			return nil, "R not invertible"
		}
		acc.Mul(acc, t).Mod(acc, n)
	}
	for i, a := range p.ADisclosed {
		if i < 0 || i >= len(pk.R) || a == nil {
			return nil, "disclosed index out of range or nil value"
		}
		ex := new(big.Int).Mul(p.C, refHashIfBig(pk, a))
		acc.Mul(acc, refExp(pk.R[i], ex, n)).Mod(acc, n)
	}
	return acc, ""
}

// refVerifyPlainD verifies a ProofD without non-revocation / range parts, standalone.
func refVerifyPlainD(pk *gabikeys.PublicKey, p *ProofD, context, nonce *big.Int, issig bool) (bool, string) {
	for i := range p.ADisclosed {
		if _, both := p.AResponses[i]; both {
			return false, "index both disclosed and hidden"
		}
		if i == 0 {
			return false, "secret key disclosed"
		}
	}
	if _, ok := p.AResponses[0]; !ok {
		return false, "no response for the secret key"
	}
	zc, why := refZCommit(pk, p)
	if zc == nil {
		return false, why
	}
	maxA := new(big.Int).Lsh(big.NewInt(1), pk.Params.LmCommit+1)
	for _, s := range p.AResponses {
		if s.Sign() < 0 || s.Cmp(maxA) >= 0 {
			return false, "a-response outside [0,2^(LmCommit+1))"
		}
	}
	maxE := new(big.Int).Lsh(big.NewInt(1), pk.Params.LeCommit+1)
	if p.EResponse.Sign() < 0 || p.EResponse.Cmp(maxE) >= 0 {
		return false, "e-response outside [0,2^(LeCommit+1))"
	}
	c := refChallenge(context, nonce, []*big.Int{p.A, zc}, issig)
	if c.Cmp(p.C) != 0 {
		return false, "challenge mismatch"
	}
	return true, ""
}
