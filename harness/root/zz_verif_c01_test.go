//go:build verif

package gabi

// C01 — disclosed attribute values are authentic.
//
// Enumerates credential shapes x disclosure sets; for every honest proof (built by the real
// builder, also under environment-answer deviations) applies the complete alteration menu:
// single-leaf arithmetic changes, key moves/copies/re-keys, sibling swaps, the split of every
// hidden attribute into a disclosed part x and a hidden remainder, and order shifts of every
// response across both ends of the allowed range.  Every alteration is also made on a struct copy of an object that went through a successful
// verification before (state left in unexported fields travels along), and the altered proof is verified as a
// member of a two-proof list next to the honest one.  Oracle: semantic (the harness signed the
// credential, so it knows every attribute) + independent reference verifier.

import (
	"fmt"
	"testing"
	"time"

	"github.com/privacybydesign/gabi/big"
	"github.com/privacybydesign/gabi/gabikeys"
	"github.com/privacybydesign/gabi/internal/verif/venv"
	"github.com/privacybydesign/gabi/internal/verif/vkit"
)

func c01Clone(p *ProofD) *ProofD {
	q := &ProofD{C: vfCopy(p.C), A: vfCopy(p.A), EResponse: vfCopy(p.EResponse), VResponse: vfCopy(p.VResponse),
		AResponses: vfCopyMap(p.AResponses), ADisclosed: vfCopyMap(p.ADisclosed)}
	if p.NonRevocationProof != nil {
		// the non-revocation part is not altered by this check: a wire copy keeps it independent
		q.NonRevocationProof = vsCloneProof(&ProofD{C: p.C, A: p.A, EResponse: p.EResponse, VResponse: p.VResponse, AResponses: map[int]*big.Int{}, ADisclosed: map[int]*big.Int{}, NonRevocationProof: p.NonRevocationProof}).(*ProofD).NonRevocationProof
	}
	return q
}

type c01Alt struct {
	class string // stable class used in signatures
	desc  string
	apply func(p *ProofD)
}

func c01Alterations(k *vfKey, honest *ProofD, attrs []*big.Int) []c01Alt {
	pk := k.Pk
	var alts []c01Alt
	add := func(class, desc string, f func(p *ProofD)) { alts = append(alts, c01Alt{class, desc, f}) }
	arith := []struct {
		name string
		f    func(v *big.Int) *big.Int
	}{
		{"+1", func(v *big.Int) *big.Int { return new(big.Int).Add(v, vfInt(1)) }},
		{"-1", func(v *big.Int) *big.Int { return new(big.Int).Sub(v, vfInt(1)) }},
		{"=0", func(v *big.Int) *big.Int { return vfInt(0) }},
		{"*2", func(v *big.Int) *big.Int { return new(big.Int).Lsh(v, 1) }},
	}
	for _, ar := range arith {
		ar := ar
		add("leaf:c", "c"+ar.name, func(p *ProofD) { p.C = ar.f(p.C) })
		add("leaf:A", "A"+ar.name, func(p *ProofD) { p.A = ar.f(p.A) })
		add("leaf:e_response", "e_response"+ar.name, func(p *ProofD) { p.EResponse = ar.f(p.EResponse) })
		add("leaf:v_response", "v_response"+ar.name, func(p *ProofD) { p.VResponse = ar.f(p.VResponse) })
		for _, i := range vfKeysOf(honest.AResponses) {
			i := i
			add("leaf:a_response", fmt.Sprintf("a_responses[%d]%s", i, ar.name), func(p *ProofD) { p.AResponses[i] = ar.f(p.AResponses[i]) })
		}
		for _, i := range vfKeysOf(honest.ADisclosed) {
			i := i
			add("leaf:a_disclosed", fmt.Sprintf("a_disclosed[%d]%s", i, ar.name), func(p *ProofD) { p.ADisclosed[i] = ar.f(p.ADisclosed[i]) })
		}
	}
	hid, dis := vfKeysOf(honest.AResponses), vfKeysOf(honest.ADisclosed)
	for a := 0; a < len(hid); a++ {
		for b := a + 1; b < len(hid); b++ {
			i, j := hid[a], hid[b]
			add("swap:a_responses", fmt.Sprintf("swap a_responses[%d]<->[%d]", i, j), func(p *ProofD) { p.AResponses[i], p.AResponses[j] = p.AResponses[j], p.AResponses[i] })
		}
	}
	for a := 0; a < len(dis); a++ {
		for b := a + 1; b < len(dis); b++ {
			i, j := dis[a], dis[b]
			add("swap:a_disclosed", fmt.Sprintf("swap a_disclosed[%d]<->[%d]", i, j), func(p *ProofD) { p.ADisclosed[i], p.ADisclosed[j] = p.ADisclosed[j], p.ADisclosed[i] })
		}
	}
	// key moves / copies / re-keys
	for _, i := range hid {
		i := i
		add("move:hidden->disclosed", fmt.Sprintf("move key %d from a_responses to a_disclosed", i), func(p *ProofD) {
			p.ADisclosed[i] = p.AResponses[i]
			delete(p.AResponses, i)
		})
		add("copy:hidden->both", fmt.Sprintf("copy a_responses[%d] also into a_disclosed", i), func(p *ProofD) { p.ADisclosed[i] = vfCopy(p.AResponses[i]) })
		add("delete:a_response", fmt.Sprintf("delete a_responses[%d]", i), func(p *ProofD) { delete(p.AResponses, i) })
		for _, nk := range []int{-1, len(pk.R), 1 << 31} {
			nk := nk
			add("rekey:a_response", fmt.Sprintf("re-key a_responses[%d] to %d", i, nk), func(p *ProofD) {
				p.AResponses[nk] = p.AResponses[i]
				delete(p.AResponses, i)
			})
		}
	}
	for _, i := range dis {
		i := i
		add("move:disclosed->hidden", fmt.Sprintf("move key %d from a_disclosed to a_responses", i), func(p *ProofD) {
			p.AResponses[i] = p.ADisclosed[i]
			delete(p.ADisclosed, i)
		})
		add("copy:disclosed->both", fmt.Sprintf("copy a_disclosed[%d] also into a_responses", i), func(p *ProofD) { p.AResponses[i] = vfCopy(p.ADisclosed[i]) })
		add("copy:disclosed->both-zero", fmt.Sprintf("add a_responses[%d]=0 next to a_disclosed", i), func(p *ProofD) { p.AResponses[i] = vfInt(0) })
		add("delete:a_disclosed", fmt.Sprintf("delete a_disclosed[%d]", i), func(p *ProofD) { delete(p.ADisclosed, i) })
		for _, nk := range []int{-1, len(pk.R), 1 << 31} {
			nk := nk
			add("rekey:a_disclosed", fmt.Sprintf("re-key a_disclosed[%d] to %d", i, nk), func(p *ProofD) {
				p.ADisclosed[nk] = p.ADisclosed[i]
				delete(p.ADisclosed, i)
			})
		}
		// replace the disclosed value by every other alphabet value of a different attribute
		for _, j := range dis {
			j := j
			if j != i {
				add("substitute:a_disclosed", fmt.Sprintf("a_disclosed[%d]=a_disclosed[%d]", i, j), func(p *ProofD) { p.ADisclosed[i] = vfCopy(p.ADisclosed[j]) })
			}
		}
	}
	// split of a hidden attribute into disclosed x + hidden remainder (keeps the verification equation)
	for _, i := range hid {
		i := i
		m := attrs[i]
		lmTop := vfPow2(pk.Params.Lm)
		xs := []*big.Int{vfInt(0), vfInt(1), new(big.Int).Sub(m, vfInt(1)), m, new(big.Int).Add(m, vfInt(1)), lmTop, vfInt(20)}
		for _, x := range xs {
			x := x
			if x.Sign() < 0 {
				continue
			}
			add("split", fmt.Sprintf("split attr %d: a_disclosed=%s, a_responses-=c*x", i, vfShort(x)), func(p *ProofD) {
				p.ADisclosed[i] = vfCopy(x)
				p.AResponses[i] = new(big.Int).Sub(p.AResponses[i], new(big.Int).Mul(p.C, vfMsgExp(pk, x)))
			})
		}
	}
	// compensated pair: shift value of a disclosed attribute and compensate in another hidden response
	// (different bases, so this must fail) and in v_response
	for _, i := range dis {
		for _, j := range hid {
			i, j := i, j
			add("pair:disclosed+1,response-c", fmt.Sprintf("a_disclosed[%d]+1 and a_responses[%d]-c", i, j), func(p *ProofD) {
				p.ADisclosed[i] = new(big.Int).Add(p.ADisclosed[i], vfInt(1))
				p.AResponses[j] = new(big.Int).Sub(p.AResponses[j], p.C)
			})
		}
	}
	// order shifts across both ends of the allowed range
	ord := k.Order
	shift := func(class, name string, get func(p *ProofD) *big.Int, set func(p *ProofD, v *big.Int), limitBits uint) {
		r := get(honest)
		max := new(big.Int).Sub(vfPow2(limitBits+1), vfInt(1))
		kHi := new(big.Int).Div(new(big.Int).Sub(max, r), ord)
		kLo := new(big.Int).Neg(new(big.Int).Div(r, ord))
		for _, kk := range []*big.Int{kLo, new(big.Int).Sub(kLo, vfInt(1)), kHi, new(big.Int).Add(kHi, vfInt(1)), vfInt(1), vfInt(-1)} {
			kk := kk
			where := "inside"
			nv := new(big.Int).Add(r, new(big.Int).Mul(kk, ord))
			if nv.Sign() < 0 {
				where = "below-0"
			} else if nv.Cmp(max) > 0 {
				where = "above-max"
			}
			add(class+":"+where, fmt.Sprintf("%s += k*ord (k=%s) -> %s", name, vfShort(kk), where), func(p *ProofD) {
				set(p, new(big.Int).Add(get(p), new(big.Int).Mul(kk, ord)))
			})
		}
	}
	for _, i := range hid {
		i := i
		shift("ordshift:a_response", fmt.Sprintf("a_responses[%d]", i), func(p *ProofD) *big.Int { return p.AResponses[i] }, func(p *ProofD, v *big.Int) { p.AResponses[i] = v }, pk.Params.LmCommit)
	}
	shift("ordshift:e_response", "e_response", func(p *ProofD) *big.Int { return p.EResponse }, func(p *ProofD, v *big.Int) { p.EResponse = v }, pk.Params.LeCommit)
	// disclosed values negated (a value longer than l_m enters the verification as the hash of its bytes -
	// of the value, not of its absolute value)
	for _, i := range dis {
		i := i
		add("negated:a_disclosed", fmt.Sprintf("a_disclosed[%d] negated", i), func(p *ProofD) {
			if p.ADisclosed[i].Sign() == 0 {
				p.ADisclosed[i] = vfInt(-1)
				return
			}
			p.ADisclosed[i] = new(big.Int).Neg(p.ADisclosed[i])
		})
	}
	// disclosed VALUES shifted by multiples of the group order, in both directions (R_i^(a+k*ord) = R_i^a:
	// only the treatment of over-long / negative values stands between such a value and acceptance)
	// (not on toy keys whose group order is no longer than a message: there a+ord IS another message with
	// the same signature - a property of such a key, not of the verifier)
	for _, i := range dis {
		if ord.BitLen() <= int(pk.Params.Lm)+8 {
			break
		}
		for _, kk := range []int64{1, -1, 2, -2, 1000003, -1000003} {
			i, kk := i, kk
			where := "above-2^lm"
			if kk < 0 {
				where = "below-0"
			}
			add("ordshift:a_disclosed:"+where, fmt.Sprintf("a_disclosed[%d] += %d*ord", i, kk), func(p *ProofD) {
				p.ADisclosed[i] = new(big.Int).Add(p.ADisclosed[i], new(big.Int).Mul(vfInt(kk), ord))
			})
		}
	}
	return alts
}

// c01Judge applies the semantic oracle to one (possibly altered) proof and the verdict the
// implementation gave.  attrs = what was signed (index 0 = secret).
func c01Judge(r *vkit.Report, pk *gabikeys.PublicKey, attrs []*big.Int, p *ProofD, class string, accepted bool, replay any) {
	if !accepted {
		return
	}
	for i, v := range p.ADisclosed {
		if _, both := p.AResponses[i]; both {
			r.Violate("C01|accepted|index-both-disclosed-and-hidden|"+class, fmt.Sprintf("accepted proof has index %d in both maps", i), replay)
		}
		if i < 0 || i >= len(attrs) {
			r.Violate("C01|accepted|disclosed-index-not-signed|"+class, fmt.Sprintf("accepted proof discloses index %d but only %d attributes were signed", i, len(attrs)), replay)
			continue
		}
		if v == nil || v.Cmp(attrs[i]) != 0 {
			r.Violate("C01|accepted|reports-unsigned-value|"+class, fmt.Sprintf("accepted proof reports a_disclosed[%d]=%s, signed value is %s", i, vfShort(v), vfShort(attrs[i])), replay)
		}
	}
	maxA := vfPow2(pk.Params.LmCommit + 1)
	for i, s := range p.AResponses {
		if s == nil || s.Sign() < 0 || s.Cmp(maxA) >= 0 {
			r.Violate("C01|accepted|a-response-outside-range|"+class, fmt.Sprintf("accepted proof has a_responses[%d]=%s outside [0,2^%d)", i, vfShort(s), pk.Params.LmCommit+1), replay)
		}
	}
	maxE := vfPow2(pk.Params.LeCommit + 1)
	if p.EResponse == nil || p.EResponse.Sign() < 0 || p.EResponse.Cmp(maxE) >= 0 {
		r.Violate("C01|accepted|e-response-outside-range|"+class, "accepted proof has e_response outside its range", replay)
	}
}

type c01Shape struct {
	name  string
	attrs []*big.Int // without secret
}

func c01Shapes(pk *gabikeys.PublicKey, maxN int) []c01Shape {
	al := vfValueAlphabet(pk.Params.Lm)
	var out []c01Shape
	for n := 1; n <= maxN; n++ {
		// (a) distinctive tags, (b) boundary alphabet rotated by n, (c) all equal small values (collisions between siblings)
		a := make([]*big.Int, n)
		b := make([]*big.Int, n)
		c := make([]*big.Int, n)
		for i := 0; i < n; i++ {
			a[i] = vfTag(fmt.Sprintf("attr-%d-%d", n, i))
			b[i] = al[(i+n)%len(al)]
			c[i] = vfInt(50)
		}
		out = append(out, c01Shape{fmt.Sprintf("n%d-tags", n), a}, c01Shape{fmt.Sprintf("n%d-boundary", n), b}, c01Shape{fmt.Sprintf("n%d-equal50", n), c})
	}
	return out
}

func c01Run(t *testing.T, sub, keyName string, maxN int, withAlterations bool, maxDev int, nonrev bool, qb, tb time.Duration) {
	r := vkit.Start(t, "C01", sub, qb, tb)
	defer r.Finish()
	r.Rule = "credential shapes (n attrs; tags / boundary sizes incl. hashed / all-equal) x every disclosure subset; per honest proof every alteration of the menu (disclosed values negated, disclosed values shifted by +-k*ord for k in {1,2,1000003}, leaf arithmetic, swaps, key move/copy/delete/re-key, split(x), compensated pairs, k*ord shifts at both range ends); honest proofs also under <=1 environment-answer deviation; non-trivial = distinct (shape,subset,alteration) whose altered proof differs from the honest one; oracle: accepted => disjoint index sets, reported values = signed values, responses in protocol range, reference verifier agrees; honest => accepted"
	k := vfK(keyName)
	pk := k.Pk
	env := vfInstallEnv(t, "C01/"+sub, r.Seed)
	r.Bounds["key"] = keyName
	r.Bounds["max_attrs"] = maxN
	r.Bounds["env_deviations"] = maxDev
	secret := vfTag("secret-" + keyName)
	for _, sh := range c01Shapes(pk, maxN) {
		for _, D := range vfSubsets(1, len(sh.attrs)) {
			_, mine := r.Next()
			if !mine {
				continue
			}
			if r.Expired() {
				return
			}
			env.Reset()
			mint := func() *Credential {
				if nonrev {
					return vfMintRev(k, secret, sh.attrs, len(sh.attrs))
				}
				return vfMint(k, secret, sh.attrs, len(sh.attrs))
			}
			cred := mint()
			attrs := cred.Attributes
			mintDraws := env.Draws()
			var honest *ProofD
			build := func() (*ProofD, error) { return cred.CreateDisclosureProof(D, nil, nonrev, vfContext, vfNonce) }
			// honest proofs under environment deviations
			runs, complete := env.Explore(maxDev, []venv.Answer{venv.Min, venv.Max, venv.Short}, func(devs []venv.Deviation) bool {
				// re-mint deterministically so that draw numbering is stable; deviations target proof draws only
				for _, d := range devs {
					if d.Draw < mintDraws {
						return true
					}
				}
				c2 := cred
				if !nonrev {
					c2 = vfMint(k, secret, sh.attrs, len(sh.attrs))
				}
				var p *ProofD
				var err error
				pan, msg := vkit.Guard(func() { p, err = c2.CreateDisclosureProof(D, nil, nonrev, vfContext, vfNonce) })
				r.Eval()
				caseID := map[string]any{"key": keyName, "shape": sh.name, "disclosed": D, "env": fmt.Sprint(devs)}
				if pan || err != nil {
					r.Violate("C01|honest-proof-not-created", fmt.Sprintf("panic=%v %s err=%v", pan, msg, err), caseID)
					return true
				}
				if p.VResponse.Sign() < 0 || p.EResponse.Sign() < 0 {
					r.Count("negative response under forced extreme (2^-80 event by design)", 1)
					return true
				}
				ok1 := c01Clone(p).Verify(pk, vfContext, vfNonce, false)
				ok2 := ProofList{c01Clone(p)}.Verify([]*gabikeys.PublicKey{pk}, vfContext, vfNonce, false, nil)
				r.Nontrivial(fmt.Sprintf("honest|%s|%v|%v", sh.name, D, devs))
				if !ok1 || !ok2 {
					r.Violate("C01|honest-proof-rejected|env="+c01DevClass(devs), fmt.Sprintf("honest proof rejected (ProofD.Verify=%v ProofList.Verify=%v) under %v", ok1, ok2, devs), caseID)
				}
				if rok, why := refVerifyPlainD(pk, p, vfContext, vfNonce, false); !nonrev && !rok && ok1 {
					r.Violate("C01|impl-accepts-ref-rejects|honest|"+why, "reference verifier rejects an honest accepted proof: "+why, caseID)
				}
				c01Judge(r, pk, attrs, p, "honest", ok1, caseID)
				if devs == nil {
					honest = p
				}
				return !r.Expired()
			})
			_ = runs
			if !complete && !r.Exhaustive {
				return
			}
			_ = build
			if honest == nil || !withAlterations {
				continue
			}
			r.Sample(map[string]any{"key": keyName, "shape": sh.name, "disclosed": D, "hidden": vfKeysOf(honest.AResponses)})
			// an object that has been through a successful verification: whatever the verifier left in its
			// unexported fields travels with a struct copy
			verified := c01Clone(honest)
			vkit.Guard(func() { verified.Verify(pk, vfContext, vfNonce, false) })
			for _, alt := range c01Alterations(k, honest, attrs) {
				p := c01Clone(honest)
				alt.apply(p)
				caseID := map[string]any{"key": keyName, "shape": sh.name, "disclosed": D, "alteration": alt.desc}
				r.Eval()
				var ok1, ok2 bool
				pan1, _ := vkit.Guard(func() { ok1 = p.Verify(pk, vfContext, vfNonce, false) })
				p2 := c01Clone(honest)
				alt.apply(p2)
				pan2, _ := vkit.Guard(func() { ok2 = ProofList{p2}.Verify([]*gabikeys.PublicKey{pk}, vfContext, vfNonce, false, nil) })
				// third route: the alteration is made on (a struct copy of) the object that was verified before
				p3s := *verified
				fresh := c01Clone(honest)
				p3s.C, p3s.A, p3s.EResponse, p3s.VResponse, p3s.AResponses, p3s.ADisclosed = fresh.C, fresh.A, fresh.EResponse, fresh.VResponse, fresh.AResponses, fresh.ADisclosed
				if fresh.NonRevocationProof != nil {
					p3s.NonRevocationProof = fresh.NonRevocationProof
				}
				p3 := &p3s
				alt.apply(p3)
				var ok3, ok4 bool
				pan3, _ := vkit.Guard(func() {
					ok3 = p3.Verify(pk, vfContext, vfNonce, false)
					ok4 = ProofList{p3}.Verify([]*gabikeys.PublicKey{pk}, vfContext, vfNonce, false, nil)
				})
				if pan1 || pan2 || pan3 {
					r.Count("panics(not judged here; see C08)", 1)
				}
				r.Nontrivial(fmt.Sprintf("alt|%s|%v|%s", sh.name, D, alt.desc))
				r.Outcome(fmt.Sprintf("%s:%v", alt.class, ok1 || ok2))
				if ok1 != ok2 && !pan1 && !pan2 {
					r.Count("ProofD.Verify != ProofList.Verify", 1)
				}
				if (ok3 || ok4) && !(ok1 || ok2) {
					c01Judge(r, pk, attrs, p3, alt.class+"|on-a-previously-verified-object", true, caseID)
					r.Count("accepted only on a previously verified object", 1)
				}
				// fourth route: the altered proof as a member of a longer list, before and after the honest proof
				// (same key twice): a member that cannot be reconstructed must make the whole list fail
				for _, first := range []bool{true, false} {
					pa, ph := c01Clone(honest), c01Clone(honest)
					alt.apply(pa)
					l := ProofList{pa, ph}
					if !first {
						l = ProofList{ph, pa}
					}
					var okl bool
					if pan, _ := vkit.Guard(func() { okl = l.Verify([]*gabikeys.PublicKey{pk, pk}, vfContext, vfNonce, false, nil) }); !pan && okl {
						c01Judge(r, pk, attrs, pa, alt.class+"|as-a-member-of-a-two-proof-list", true, caseID)
						r.Count("altered proof accepted as a member of a two-proof list", 1)
					}
				}
				acc := ok1 || ok2
				c01Judge(r, pk, attrs, p, alt.class, acc, caseID)
				if acc && !nonrev {
					if rok, why := refVerifyPlainD(pk, p, vfContext, vfNonce, false); !rok {
						r.Violate("C01|impl-accepts-ref-rejects|"+alt.class+"|"+why, "accepted by the implementation, rejected by the reference verifier: "+why+" ("+alt.desc+")", caseID)
					}
				}
			}
		}
	}
}

func c01DevClass(devs []venv.Deviation) string {
	if len(devs) == 0 {
		return "default"
	}
	s := ""
	for _, d := range devs {
		s += d.Ans.String()
	}
	return s
}

func TestVerifC01Toy(t *testing.T) {
	c01Run(t, "toy", "toyA", vkit.Pick(4, 6), true, 1, false, 240*time.Second, 1200*time.Second)
}

func TestVerifC01K1024(t *testing.T) {
	c01Run(t, "k1024", "k1024a", vkit.Pick(2, 3), true, vkit.Pick(0, 1), false, 240*time.Second, 1200*time.Second)
}

func TestVerifC01K2048(t *testing.T) {
	c01Run(t, "k2048", "k2048", vkit.Pick(1, 2), true, 0, false, 240*time.Second, 1200*time.Second)
}

// proofs carrying a non-revocation part go through another branch of the verifier
func TestVerifC01ToyNonrev(t *testing.T) {
	c01Run(t, "toy-nonrev", "toyB", vkit.Pick(2, 4), true, vkit.Pick(0, 1), true, 240*time.Second, 1200*time.Second)
}

func TestVerifC01K1024Nonrev(t *testing.T) {
	c01Run(t, "k1024-nonrev", "k1024a", vkit.Pick(1, 2), true, 0, true, 240*time.Second, 1200*time.Second)
}

// TestVerifC01DegenerateA: forged proofs whose A is not a unit modulo n (see vfDegenerateAForgeries).
func TestVerifC01DegenerateA(t *testing.T) {
	r := vkit.Start(t, "C01", "degenerate-signature-element", 120*time.Second, 300*time.Second)
	defer r.Finish()
	r.Rule = "keys {toyA, k1024a} x A in {0, n, 2n, n(n+1)} x {single proof, second member of a list with the secret-key response of the honest first member}; challenge computed from what the verifier reconstructs; non-trivial = distinct forgery; oracle: never accepted"
	vfDegenerateAForgeries(r, "C01", []string{"toyA", "k1024a"})
}
