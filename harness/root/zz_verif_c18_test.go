//go:build verif

package gabi

// C18 (protocol messages) — every message type, with every optional part present and absent,
// survives its wire encodings: decode(encode(x)) re-encodes to identical bytes and means the same
// (a re-read proof, update, witness or credential verifies exactly as the original did).

import (
	"bytes"
	"encoding/json"
	"fmt"
	"strings"
	"testing"
	"time"

	"github.com/fxamacker/cbor"
	"github.com/privacybydesign/gabi/big"
	"github.com/privacybydesign/gabi/gabikeys"
	"github.com/privacybydesign/gabi/internal/verif/vkit"
	"github.com/privacybydesign/gabi/rangeproof"
	"github.com/privacybydesign/gabi/revocation"
)

func c18JSON[T any](r *vkit.Report, name string, x *T) *T {
	r.Eval()
	r.Nontrivial("json|" + name)
	b1, err := json.Marshal(x)
	if err != nil {
		r.Violate("C18|message-not-encodable|json|"+name, err.Error(), name)
		return nil
	}
	y := new(T)
	if err := json.Unmarshal(b1, y); err != nil {
		r.Violate("C18|message-not-decodable|json|"+name, err.Error(), name)
		return nil
	}
	b2, err := json.Marshal(y)
	if err != nil || !bytes.Equal(b1, b2) {
		r.Violate("C18|message-re-encoding-differs|json|"+name, fmt.Sprintf("%v\n%s\n%s", err, vfTrunc(b1), vfTrunc(b2)), name)
	}
	r.Outcome(fmt.Sprintf("json:%T:bytes<%d", *x, 1<<uint(bitsLen(len(b1)))))
	return y
}

func c18CBOR[T any](r *vkit.Report, name string, x *T) *T {
	r.Eval()
	r.Nontrivial("cbor|" + name)
	b1, err := cbor.Marshal(x, cbor.EncOptions{})
	if err != nil {
		r.Violate("C18|message-not-encodable|cbor|"+name, err.Error(), name)
		return nil
	}
	y := new(T)
	if err := cbor.Unmarshal(b1, y); err != nil {
		r.Violate("C18|message-not-decodable|cbor|"+name, err.Error(), name)
		return nil
	}
	b2, err := cbor.Marshal(y, cbor.EncOptions{})
	if err != nil || !bytes.Equal(b1, b2) {
		r.Violate("C18|message-re-encoding-differs|cbor|"+name, fmt.Sprint(err), name)
	}
	return y
}

func vfTrunc(b []byte) string {
	if len(b) > 300 {
		return string(b[:300]) + "…"
	}
	return string(b)
}

func TestVerifC18Messages(t *testing.T) {
	r := vkit.Start(t, "C18", "message-round-trips", 200*time.Second, 900*time.Second)
	defer r.Finish()
	r.Rule = "message types {ProofList (every builder kind, single and mixed, both session kinds), IssueCommitmentMessage, IssueSignatureMessage (+-witness, +-random-blind shares), Credential (+-witness), ProofP, keyshare requests, revocation Update / EventList / Witness / SignedAccumulator (JSON and CBOR, 0..3 events)} x keys {toy, 1024}; non-trivial = distinct (type, variant, encoding); oracle: re-encoding byte-identical; the re-read object verifies / can be used exactly as the original"
	vfInstallEnv(t, "C18/messages", r.Seed)
	secrets := []*big.Int{vfTag("c18-secret")}
	for _, kp := range [][2]string{{"toyA", "toyB"}, {"k1024a", "k1024b"}} {
		kA, kB := kp[0], kp[1]
		lists := [][]vsSpec{
			{{vsDisc, kA, 0, []int{1}}}, {{vsDisc, kA, 0, []int{}}}, {{vsDisc, kA, 0, []int{1, 2, 3}}}, {{vsDiscNonrev, kB, 0, []int{2}}}, {{vsDiscRange, kA, 0, []int{3}}},
			{{vsIssue, kA, 0, nil}}, {{vsIssueBlind, kB, 0, nil}},
			{{vsDisc, kA, 0, []int{1}}, {vsIssueBlind, kB, 0, nil}, {vsDiscNonrev, kB, 0, []int{}}},
		}
		for li, specs := range lists {
			for _, issig := range []bool{false, true} {
				if _, mine := r.Next(); !mine {
					continue
				}
				_, bl, pks := vsBuildList(specs, secrets)
				L, err := bl.BuildProofList(vfContext, vfNonce, issig)
				if err != nil {
					r.HarnessError("list: %v", err)
					return
				}
				name := fmt.Sprintf("ProofList#%d/%s/issig=%v", li, kA, issig)
				before := vsCloneList(L).Verify(pks, vfContext, vfNonce, issig, nil)
				y := c18JSON(r, name, &L)
				if y != nil {
					after := (*y).Verify(pks, vfContext, vfNonce, issig, nil)
					if before != after || !after {
						r.Violate("C18|re-read-message-verifies-differently|ProofList", fmt.Sprintf("%s: before=%v after=%v", name, before, after), name)
					}
					// a second generation (decode of the re-encoding) as well
					z := c18JSON(r, name+"/2nd", y)
					if z != nil && !(*z).Verify(pks, vfContext, vfNonce, issig, nil) {
						r.Violate("C18|re-read-message-verifies-differently|ProofList-2nd-generation", name, name)
					}
				}
				r.Sample(map[string]any{"type": "ProofList", "variant": name})
			}
		}
		// issuance messages
		for _, cfg := range []c06Cfg{{kA, 3, nil, false, false}, {kA, 3, []int{1}, false, true}, {kA, 2, []int{0, 1}, true, false}} {
			if _, mine := r.Next(); !mine {
				continue
			}
			run := c06Start(cfg, "c18")
			name := "IssueCommitmentMessage/" + cfg.String()
			cm := c18JSON(r, name, run.commit)
			if cm == nil {
				continue
			}
			ism, why := run.issue(cm, run.nonce1, true)
			if ism == nil {
				r.Violate("C18|re-read-message-verifies-differently|IssueCommitmentMessage", name+": "+why, name)
				continue
			}
			name2 := "IssueSignatureMessage/" + cfg.String()
			ism2 := c18JSON(r, name2, ism)
			if ism2 == nil {
				continue
			}
			cred, err, pan := run.finish(ism2)
			if cred == nil || err != nil || pan != "" {
				r.Violate("C18|re-read-message-verifies-differently|IssueSignatureMessage", fmt.Sprintf("%s: %v %s", name2, err, pan), name2)
				continue
			}
			name3 := "Credential/" + cfg.String()
			c2 := c18JSON(r, name3, cred)
			if c2 != nil {
				c2.Pk = cred.Pk
				if !c2.Signature.Verify(c2.Pk, c2.Attributes) {
					r.Violate("C18|re-read-message-verifies-differently|Credential", name3, name3)
				}
				if cfg.witness {
					if c2.NonRevocationWitness == nil || c2.NonRevocationWitness.Verify(c2.Pk) != nil {
						r.Violate("C18|re-read-message-verifies-differently|Credential-witness", name3, name3)
					} else if !cfg.keyshare {
						p, err := c2.CreateDisclosureProof([]int{1}, nil, true, vfContext, vfNonce)
						if err != nil || !vsCloneProof(p).(*ProofD).Verify(c2.Pk, vfContext, vfNonce, false) {
							r.Violate("C18|re-read-message-verifies-differently|Credential-proof", fmt.Sprint(name3, err), name3)
						}
					}
				}
			}
			r.Sample(map[string]any{"type": "issuance messages + credential", "variant": cfg.String()})
		}
		// revocation messages
		if _, mine := r.Next(); mine {
			k := vfK(kB)
			w := c11NewWorld(k)
			cred := w.issue(secrets[0], []*big.Int{vfTag("x1")}, 3)
			for n := 0; n <= 3; n++ {
				if n > 0 {
					w.revoke(vfRevPrime(300 + n))
				}
				for from := 0; from <= w.last()+1; from++ {
					u := w.update(from)
					name := fmt.Sprintf("Update/%s/events=%d..%d", kB, from, w.last())
					for _, enc := range []string{"json", "cbor"} {
						var u2 *revocation.Update
						if enc == "json" {
							u2 = c18JSON(r, name, u)
						} else {
							u2 = c18CBOR(r, name, u)
						}
						if u2 == nil {
							continue
						}
						_, e1 := u.Verify(k.Pk)
						_, e2 := u2.Verify(k.Pk)
						if (e1 == nil) != (e2 == nil) || e2 != nil {
							r.Violate("C18|re-read-message-verifies-differently|Update|"+enc, fmt.Sprintf("%s: %v vs %v", name, e1, e2), name)
						}
						if len(u2.Events) != len(u.Events) {
							r.Violate("C18|re-read-message-differs|Update|"+enc, name, name)
						}
					}
				}
				if n > 0 {
					if err := cred.NonRevocationWitness.Update(k.Pk, w.update(w.last())); err != nil {
						r.HarnessError("witness update: %v", err)
					}
				}
				wn := fmt.Sprintf("Witness/%s/index=%d", kB, n)
				w2 := c18JSON(r, wn, cred.NonRevocationWitness)
				if w2 != nil {
					if err := w2.Verify(k.Pk); err != nil {
						r.Violate("C18|re-read-message-verifies-differently|Witness", fmt.Sprint(wn, err), wn)
					}
					if w2.U.Cmp(cred.NonRevocationWitness.U) != 0 || w2.E.Cmp(cred.NonRevocationWitness.E) != 0 || !w2.Updated.Equal(cred.NonRevocationWitness.Updated) {
						r.Violate("C18|re-read-message-differs|Witness", wn, wn)
					}
				}
				sa := c18JSON(r, fmt.Sprintf("SignedAccumulator/%s/%d", kB, n), cred.NonRevocationWitness.SignedAccumulator)
				if sa != nil {
					acc, err := sa.UnmarshalVerify(k.Pk)
					if err != nil || acc.Index != uint64(n) {
						r.Violate("C18|re-read-message-verifies-differently|SignedAccumulator", fmt.Sprint(err), n)
					}
				}
			}
			r.Sample(map[string]any{"type": "Update/Witness/SignedAccumulator", "key": kB, "events": "0..3", "encodings": []string{"json", "cbor"}})
		}
		// keyshare messages
		if _, mine := r.Next(); mine && kA != "toyA" {
			s, err := c14Build([]c14Slot{{vsDiscNonrev, kA}, {vsIssue, kB}}, map[string]bool{kA: true}, false)
			if err != nil {
				r.HarnessError("keyshare session: %v", err)
			} else {
				cr := c18JSON(r, "KeyshareCommitmentRequest", &s.commReq)
				rr := c18JSON(r, "KeyshareResponseRequest", &s.respReq)
				if cr != nil && rr != nil {
					p, err := KeyshareResponse(s.kssSec, s.kssRand, *cr, *rr, s.keys)
					if err != nil || p == nil || p.C.Cmp(s.challenge) != 0 {
						r.Violate("C18|re-read-message-verifies-differently|keyshare-requests", fmt.Sprint(err), "keyshare")
					} else if p2 := c18JSON(r, "ProofP", p); p2 == nil || p2.C.Cmp(p.C) != 0 || p2.SResponse.Cmp(p.SResponse) != 0 {
						r.Violate("C18|re-read-message-differs|ProofP", "", "ProofP")
					}
				}
			}
		}
	}
	_ = gabikeys.DefaultEpochLength
	_ = rangeproof.GreaterOrEqual
}

func bitsLen(n int) int {
	k := 0
	for n > 0 {
		k++
		n >>= 1
	}
	return k
}

// TestVerifC18EventListBehaviour: an event list that went through JSON / CBOR (decoded with and without
// ComputeProduct) must behave like the original when it is used: prepended to an update holding the newer
// events and applied to a witness that is older than the list's first event, it must bring the witness to
// the same value as the original list does.
func TestVerifC18EventListBehaviour(t *testing.T) {
	r := vkit.Start(t, "C18", "eventlist-behaviour", 60*time.Second, 300*time.Second)
	defer r.Finish()
	r.Rule = "history of 5 revocations; every split of the events 1..5 into an older list (first index 1, 2 or 3) and a newer update; the older list as original object, after JSON and after CBOR, decoded with ComputeProduct false / true; Update.Prepend + Witness.Update on witnesses issued at every index before the list; non-trivial = distinct (split, first index, form, witness index); oracle: same verdict and same witness value as with the original list object, and the witness is valid for the newest accumulator"
	k := vfK("toyA")
	w := c11NewWorld(k)
	var creds []*Credential
	for i := 0; i < 6; i++ {
		// a credential issued at accumulator index i, then another value is revoked
		creds = append(creds, w.issue(vfTag(fmt.Sprint("c18el-", i)), []*big.Int{vfTag("e1")}, i))
		if i < 5 {
			w.revoke(vfRevPrime(40 + i))
		}
	}
	last := w.last()
	for first := 1; first <= 3; first++ {
		for split := first; split < last; split++ { // older list = events first..split, newer update = split+1..last
			if _, mine := r.Next(); !mine {
				continue
			}
			for _, form := range []string{"original", "json", "json+product", "cbor", "cbor+product"} {
				mkList := func() (*revocation.EventList, error) {
					var evs []*revocation.Event
					for _, e := range w.events[first : split+1] {
						c := *e
						evs = append(evs, &c)
					}
					orig := revocation.NewEventList(evs...)
					if form == "original" {
						return orig, nil
					}
					out := &revocation.EventList{ComputeProduct: strings.HasSuffix(form, "+product")}
					if strings.HasPrefix(form, "json") {
						b, err := json.Marshal(orig)
						if err != nil {
							return nil, err
						}
						return out, json.Unmarshal(b, out)
					}
					b, err := cbor.Marshal(orig, cbor.EncOptions{})
					if err != nil {
						return nil, err
					}
					return out, cbor.Unmarshal(b, out)
				}
				for wi := 0; wi < first; wi++ {
					r.Eval()
					desc := fmt.Sprintf("list %d..%d + update %d..%d, %s, witness at %d", first, split, split+1, last, form, wi)
					r.Nontrivial(desc)
					apply := func(el *revocation.EventList) (string, error) {
						upd := w.update(split + 1)
						if err := upd.Prepend(el); err != nil {
							return "", fmt.Errorf("Prepend: %w", err)
						}
						wit := *creds[wi].NonRevocationWitness
						sacc := *wit.SignedAccumulator
						wit.SignedAccumulator = &sacc
						if err := (&wit).Update(k.Pk, upd); err != nil {
							return "", fmt.Errorf("Witness.Update: %w", err)
						}
						if err := (&wit).Verify(k.Pk); err != nil {
							return "", fmt.Errorf("updated witness invalid: %w", err)
						}
						return wit.U.String(), nil
					}
					el, err := mkList()
					if err != nil {
						r.Violate("C18|event-list-not-transportable|"+form, desc+": "+err.Error(), desc)
						continue
					}
					var got string
					var gerr error
					if pan, msg := vkit.Guard(func() { got, gerr = apply(el) }); pan {
						gerr = fmt.Errorf("panic: %s", msg)
					}
					// reference: the original list object; witnesses older than first-1 cannot use the list
					// at all ("update too new"): then both must fail
					evsO, _ := func() (*revocation.EventList, error) {
						f := form
						form = "original"
						defer func() { form = f }()
						return mkList()
					}()
					want, werr := apply(evsO)
					r.Outcome(fmt.Sprintf("%s:applicable=%v:same as original=%v", form, werr == nil, (gerr == nil) == (werr == nil) && got == want))
					if (gerr == nil) != (werr == nil) || got != want {
						r.Violate("C18|re-read-event-list-behaves-differently|"+form, fmt.Sprintf("%s: original list: %v, re-read list: %v", desc, werr, gerr), desc)
					}
				}
			}
		}
	}
}

// TestVerifC18UsedMessageReceivers: the revocation messages with their own decoders (Update, EventList)
// decoded into a value that already holds another message of the same type - every ordered pair of
// messages from a small family (no events, one event, several events; JSON and CBOR): the result must be
// the second message, exactly as if it had been decoded into a fresh value.
func TestVerifC18UsedMessageReceivers(t *testing.T) {
	r := vkit.Start(t, "C18", "used-message-receivers", 60*time.Second, 300*time.Second)
	defer r.Finish()
	r.Rule = "Update and EventList messages with 0, 1, 2 and 4 events (also event lists without events): every ordered pair (first, second) of them, JSON and CBOR: decode first into a value, decode second into the SAME value; non-trivial = distinct (type, first, second, encoding); oracle: re-encoding equals the second message's bytes and equals what a fresh value gives; a re-read Update verifies iff the second message does"
	if r.Shard != 0 {
		return
	}
	k := vfK("toyA")
	w := c11NewWorld(k)
	for i := 0; i < 4; i++ {
		w.revoke(vfRevPrime(60 + i))
	}
	last := w.last()
	froms := []int{last + 1, last, last - 1, 1} // 0, 1, 2, 4 events
	type codec struct {
		name string
		enc  func(any) ([]byte, error)
		dec  func([]byte, any) error
	}
	codecs := []codec{
		{"json", json.Marshal, json.Unmarshal},
		{"cbor", func(v any) ([]byte, error) { return cbor.Marshal(v, cbor.EncOptions{}) }, func(b []byte, v any) error { return cbor.Unmarshal(b, v) }},
	}
	for _, cd := range codecs {
		for _, fa := range froms {
			for _, fb := range froms {
				// Update
				{
					r.Eval()
					desc := fmt.Sprintf("Update %s: %d events then %d events", cd.name, last-fa+1, last-fb+1)
					r.Nontrivial(desc)
					ba, err1 := cd.enc(w.update(fa))
					bb, err2 := cd.enc(w.update(fb))
					if err1 != nil || err2 != nil {
						r.HarnessError("encode: %v %v", err1, err2)
						return
					}
					var used, fresh revocation.Update
					if err := cd.dec(ba, &used); err != nil {
						r.Violate("C18|message-not-decodable|"+cd.name+"|Update", err.Error(), desc)
						continue
					}
					e1, e2 := cd.dec(bb, &used), cd.dec(bb, &fresh)
					bu, _ := cd.enc(&used)
					bf, _ := cd.enc(&fresh)
					_, v1 := used.Verify(k.Pk)
					_, v2 := fresh.Verify(k.Pk)
					same := (e1 == nil) == (e2 == nil) && bytes.Equal(bu, bf) && (v1 == nil) == (v2 == nil)
					r.Outcome(fmt.Sprintf("Update:%s:used receiver behaves like a fresh one=%v", cd.name, same))
					if !same {
						r.Violate("C18|used-receiver-keeps-old-content|Update|"+cd.name, fmt.Sprintf("%s: decode errors %v / %v, re-encodings equal=%v, verify %v / %v", desc, e1, e2, bytes.Equal(bu, bf), v1, v2), desc)
					}
				}
				// EventList (also without events)
				{
					r.Eval()
					desc := fmt.Sprintf("EventList %s: %d events then %d events", cd.name, last-fa+1, last-fb+1)
					r.Nontrivial(desc)
					mk := func(from int) *revocation.EventList {
						var evs []*revocation.Event
						for _, e := range w.events[from:] {
							c := *e
							evs = append(evs, &c)
						}
						return revocation.NewEventList(evs...)
					}
					ba, _ := cd.enc(mk(fa))
					bb, _ := cd.enc(mk(fb))
					used, fresh := &revocation.EventList{ComputeProduct: true}, &revocation.EventList{ComputeProduct: true}
					if err := cd.dec(ba, used); err != nil {
						r.Violate("C18|message-not-decodable|"+cd.name+"|EventList", desc+": "+err.Error(), desc)
						continue
					}
					var e1, e2 error
					if pan, msg := vkit.Guard(func() { e1, e2 = cd.dec(bb, used), cd.dec(bb, fresh) }); pan {
						r.Violate("C18|decoder-panicked|"+cd.name+"|EventList", desc+": "+msg, desc)
						continue
					}
					if e2 != nil {
						r.Violate("C18|message-not-decodable|"+cd.name+"|EventList", desc+": "+e2.Error(), desc)
						continue
					}
					bu, _ := cd.enc(used)
					bf, _ := cd.enc(fresh)
					same := (e1 == nil) == (e2 == nil) && bytes.Equal(bu, bf)
					// and both must behave alike when prepended
					if same && fb > 1 {
						// (one signed accumulator for both: every signature is randomised)
						u1 := w.update(last + 1)
						u2 := &revocation.Update{SignedAccumulator: &revocation.SignedAccumulator{Data: append([]byte{}, u1.SignedAccumulator.Data...), PKCounter: u1.SignedAccumulator.PKCounter}, Events: []*revocation.Event{}}
						if _, err := u1.Verify(k.Pk); err != nil {
							r.HarnessError("%v", err)
							return
						}
						if _, err := u2.Verify(k.Pk); err != nil {
							r.HarnessError("%v", err)
							return
						}
						p1, p2 := u1.Prepend(used), u2.Prepend(fresh)
						b1, _ := cd.enc(u1)
						b2, _ := cd.enc(u2)
						same = (p1 == nil) == (p2 == nil) && bytes.Equal(b1, b2)
					}
					r.Outcome(fmt.Sprintf("EventList:%s:used receiver behaves like a fresh one=%v", cd.name, same))
					if !same {
						r.Violate("C18|used-receiver-keeps-old-content|EventList|"+cd.name, fmt.Sprintf("%s: decode errors %v / %v, re-encodings equal=%v", desc, e1, e2, bytes.Equal(bu, bf)), desc)
					}
				}
			}
		}
	}
}

// TestVerifC18UpdateEncodedAgain: one Update VALUE encoded more than once, its exported fields changed in
// between (events trimmed at the front - as callers do before sending only what a client lacks -, or
// replaced by another window under the same signed accumulator): every encoding must be that of the
// value's current content.
func TestVerifC18UpdateEncodedAgain(t *testing.T) {
	r := vkit.Start(t, "C18", "update-encoded-again", 60*time.Second, 300*time.Second)
	defer r.Finish()
	r.Rule = "history of 5 revocations; Update [a..5] encoded, then its Events set to [b..5] for every b != a (longer and shorter), encoded again; JSON and CBOR; non-trivial = distinct (a, b, encoding); oracle: the second encoding equals the encoding of a fresh Update holding the same accumulator and events [b..5], and decodes to b..5"
	if r.Shard != 0 {
		return
	}
	k := vfK("toyA")
	w := c11NewWorld(k)
	for i := 0; i < 5; i++ {
		w.revoke(vfRevPrime(70 + i))
	}
	last := w.last()
	type codec struct {
		name string
		enc  func(any) ([]byte, error)
		dec  func([]byte, any) error
	}
	codecs := []codec{
		{"json", json.Marshal, json.Unmarshal},
		{"cbor", func(v any) ([]byte, error) { return cbor.Marshal(v, cbor.EncOptions{}) }, func(b []byte, v any) error { return cbor.Unmarshal(b, v) }},
	}
	evs := func(from int) []*revocation.Event {
		out := []*revocation.Event{}
		for _, e := range w.events[from:] {
			c := *e
			out = append(out, &c)
		}
		return out
	}
	for _, cd := range codecs {
		for a := 1; a <= last+1; a++ {
			for b := 1; b <= last+1; b++ {
				if a == b {
					continue
				}
				r.Eval()
				desc := fmt.Sprintf("%s: Update [%d..%d] encoded, events set to [%d..%d], encoded again", cd.name, a, last, b, last)
				r.Nontrivial(desc)
				u := w.update(a)
				if _, err := cd.enc(u); err != nil {
					r.HarnessError("%v", err)
					return
				}
				u.Events = evs(b)
				second, err := cd.enc(u)
				if err != nil {
					r.Violate("C18|message-not-encodable|Update|"+cd.name, desc+": "+err.Error(), desc)
					continue
				}
				fresh := &revocation.Update{SignedAccumulator: u.SignedAccumulator, Events: evs(b)}
				want, _ := cd.enc(fresh)
				var back revocation.Update
				derr := cd.dec(second, &back)
				same := bytes.Equal(second, want) && derr == nil && len(back.Events) == len(fresh.Events) && (len(back.Events) == 0 || back.Events[0].Index == fresh.Events[0].Index)
				r.Outcome(fmt.Sprintf("update-encoded-again:%s:current-content=%v", cd.name, same))
				if !same {
					r.Violate("C18|encoding-not-of-the-current-content|Update|"+cd.name, fmt.Sprintf("%s: the second encoding differs from the encoding of a fresh value with the same fields (decodes to %d events, %d expected; %v)", desc, len(back.Events), len(fresh.Events), derr), desc)
				}
			}
		}
	}
}
