//go:build verif

package gabi

// C15 — the attribute hash equals its reference at every site that applies it.
//
// The rule "an attribute of more than l_m bits enters the signature as SHA-256(bytes)" is applied
// at four places (signer: common.RepresentToBases, signature verification: CLSignature.Verify,
// prover: Credential.CreateDisclosureProof for hidden attributes, verifier: ProofD.reconstructZ for
// disclosed attributes).  They are compared with one hand-written reference on every boundary
// value: all sizes around l_m, around the next byte boundaries and far above, at every attribute
// position, both disclosed and hidden.  The credential is minted by the harness with the
// reference representation, so that a site which deviates breaks an equation the other sites
// still satisfy.

import (
	"fmt"
	"testing"
	"time"

	"github.com/privacybydesign/gabi/big"
	"github.com/privacybydesign/gabi/internal/common"
	"github.com/privacybydesign/gabi/internal/verif/vkit"
)

func c15BoundaryValues(lm uint) []*big.Int {
	var out []*big.Int
	for _, l := range []uint{1, 8, lm - 8, lm - 1, lm, lm + 1, lm + 2, lm + 7, lm + 8, lm + 9, 2 * lm, 3*lm + 5} {
		lo := vfPow2(l - 1)
		hi := new(big.Int).Sub(vfPow2(l), vfInt(1))
		mid := new(big.Int).Add(lo, new(big.Int).Rsh(vfTag(fmt.Sprint("c15-", l)), 0))
		if mid.BitLen() != int(l) {
			mid = new(big.Int).Add(lo, vfInt(1))
		}
		if mid.BitLen() != int(l) {
			mid = lo
		}
		out = append(out, lo, mid, hi)
	}
	return out
}

func TestVerifC15AttributeHashSites(t *testing.T) {
	r := vkit.Start(t, "C15", "attribute-hash-sites", 120*time.Second, 600*time.Second)
	defer r.Finish()
	r.Rule = "attribute-hash rule (value if BitLen <= l_m else SHA-256(bytes)) at its four use sites - signer RepresentToBases, CLSignature.Verify, prover (hidden attribute) and verifier (disclosed attribute) - against one reference, on credentials minted by the harness with the reference representation: every boundary value (3 values of each bit length in {1, 8, l_m-8, l_m-1, l_m, l_m+1, l_m+2, l_m+7, l_m+8, l_m+9, 2 l_m, 3 l_m+5}) x every attribute position and both positions at once x {disclosed, hidden}; non-trivial = distinct (key, value, position, mode)"
	env := vfInstallEnv(t, "c15-sites", r.Seed)
	defer env.Restore()
	keys := []string{"toyA", "t512", "k1024a"}
	if vkit.Thorough() {
		keys = append(keys, "k1024b", "k2048")
	}
	r.Bounds["keys"] = keys
	r.Bounds["attribute_positions"] = 2
	n := 0
	for _, kn := range keys {
		k := vfK(kn)
		pk := k.Pk
		lm := pk.Params.Lm
		for vi, v := range c15BoundaryValues(lm) {
			for pos := 1; pos <= 3; pos++ { // 3: both positions carry a value of this size (two hashed attributes in one block)
				n++
				if !r.Mine(n) {
					continue
				}
				if r.Expired() {
					r.Cap("deadline")
					return
				}
				ms := []*big.Int{vfTag("c15-secret"), vfInt(50), vfInt(51)}
				if pos == 3 {
					ms[1], ms[2] = v, new(big.Int).Add(new(big.Int).Lsh(v, 1), vfInt(1))
				} else {
					ms[pos] = v
				}
				id := fmt.Sprintf("%s|bits=%d(lm%+d)#%d|pos=%d", kn, v.BitLen(), v.BitLen()-int(lm), vi%3, pos)
				// reference representation
				ref := big.NewInt(1)
				for i, m := range ms {
					ref.Mul(ref, new(big.Int).Exp(pk.R[i], refHashIfBig(pk, m), pk.N)).Mod(ref, pk.N)
				}
				r.Eval()
				r.Nontrivial(id + "|signer")
				if got := common.RepresentToBases(pk.R, ms, pk.N, lm); got.Cmp(ref) != 0 {
					r.Outcome("signer-differs")
					r.Violate("C15|attribute-hash-site|RepresentToBases", id, map[string]any{"value": v.String()})
				} else {
					r.Outcome("signer-agrees")
				}
				// mint with the reference representation
				vv := new(big.Int).Add(vfPow2(pk.Params.Lv-1), vfTag("c15-v"))
				num := new(big.Int).Exp(pk.S, vv, pk.N)
				num.Mul(num, ref).Mod(num, pk.N)
				Q := new(big.Int).Mul(pk.Z, new(big.Int).ModInverse(num, pk.N))
				Q.Mod(Q, pk.N)
				e := k.PrimesE[n%len(k.PrimesE)]
				A := new(big.Int).Exp(Q, new(big.Int).ModInverse(e, k.Sk.Order), pk.N)
				sig := &CLSignature{A: A, E: new(big.Int).Set(e), V: vv}
				r.Eval()
				r.Nontrivial(id + "|sigverify")
				if !sig.Verify(pk, ms) {
					r.Outcome("sigverify-rejects")
					r.Violate("C15|attribute-hash-site|CLSignature.Verify", id, map[string]any{"value": v.String()})
				} else {
					r.Outcome("sigverify-accepts")
				}
				cred := &Credential{Signature: sig, Pk: pk, Attributes: ms}
				for _, mode := range []string{"disclosed", "hidden"} {
					D := []int{pos}
					if mode == "hidden" {
						D = []int{3 - pos}
					}
					if pos == 3 {
						D = []int{1, 2}
						if mode == "hidden" {
							D = []int{}
						}
					}
					r.Eval()
					r.Nontrivial(id + "|" + mode)
					var p *ProofD
					var err error
					pan, msg := vkit.Guard(func() { p, err = cred.CreateDisclosureProof(D, nil, false, vfContext, vfNonce) })
					if pan || err != nil || p == nil {
						r.Outcome("prover-fails")
						r.Violate("C15|attribute-hash-site|prover-fails|"+mode, id+": "+msg+fmt.Sprint(err), nil)
						continue
					}
					ok := p.Verify(pk, vfContext, vfNonce, false)
					rok, why := refVerifyPlainD(pk, p, vfContext, vfNonce, false)
					r.Outcome(fmt.Sprintf("%s:verify=%v ref=%v", mode, ok, rok))
					switch {
					case !ok && rok:
						r.Violate("C15|attribute-hash-site|verifier-rejects|"+mode, id, map[string]any{"value": v.String()})
					case !rok:
						r.Violate("C15|attribute-hash-site|prover-deviates|"+mode, id+": "+why, map[string]any{"value": v.String()})
					case mode == "disclosed" && pos != 3 && (p.ADisclosed[pos] == nil || p.ADisclosed[pos].Cmp(v) != 0):
						r.Violate("C15|attribute-hash-site|disclosed-value-not-the-attribute", id, nil)
					}
				}
			}
		}
	}
}

// TestVerifC15CreateChallenge: createChallenge (context, contributions, nonce -> HashCommit) against the
// reference for every list length 0..300, both markers; and on ONE caller-owned list with spare capacity:
// the challenge over every prefix list[:k], k ascending then descending, compared with a reference
// computed from values held separately, with the caller's list compared after every call (a helper that
// appends to the caller's slice writes into its backing array).
func TestVerifC15CreateChallenge(t *testing.T) {
	r := vkit.Start(t, "C15", "createchallenge", 120*time.Second, 600*time.Second)
	defer r.Finish()
	r.Rule = "createChallenge(context, contributions, nonce, marker) for every number of contributions 0..300 (values of mixed sizes incl. 0 and >64 bits), both markers, against the reference DER+SHA-256; on one caller-owned list with spare capacity every prefix list[:k] in ascending and descending order of k; non-trivial = distinct (length, marker, pass); oracle: equals the reference computed from separately held values; the caller's list is unchanged after every call"
	mkv := func(i int) *big.Int {
		switch i % 5 {
		case 0:
			return vfInt(int64(i))
		case 1:
			return vfTag(fmt.Sprint("c15cc-", i))
		case 2:
			return new(big.Int).Lsh(vfTag(fmt.Sprint("c15cc-", i)), uint(8*(i%40)))
		case 3:
			return vfInt(0)
		}
		return new(big.Int).Sub(vfPow2(uint(64+i%192)), vfInt(1))
	}
	const N = 300
	held := make([]string, N) // values held separately, as text
	for i := range held {
		held[i] = mkv(i).String()
	}
	fresh := func(k int) []*big.Int {
		out := make([]*big.Int, k)
		for i := range out {
			out[i], _ = new(big.Int).SetString(held[i], 10)
		}
		return out
	}
	ctx, nonce := vfContext, vfNonce
	for _, issig := range []bool{false, true} {
		if _, mine := r.Next(); !mine {
			continue
		}
		// (a) fresh lists of every length
		for k := 0; k <= N; k++ {
			r.Eval()
			r.Nontrivial(fmt.Sprintf("fresh|%d|%v", k, issig))
			got := createChallenge(ctx, nonce, fresh(k), issig)
			want := refChallenge(ctx, nonce, fresh(k), issig)
			r.Outcome(fmt.Sprintf("fresh list:marker=%v:equals reference=%v", issig, got.Cmp(want) == 0))
			if got.Cmp(want) != 0 {
				r.Violate("C15|createChallenge!=reference|fresh-list", fmt.Sprintf("%d contributions, marker=%v", k, issig), []any{k, issig})
				break
			}
		}
		// (b) one caller-owned list with spare capacity, prefixes ascending then descending
		list := make([]*big.Int, N, N+8)
		copy(list, fresh(N))
		order := []int{}
		for k := 0; k <= N; k++ {
			order = append(order, k)
		}
		for k := N; k >= 0; k-- {
			order = append(order, k)
		}
		for pass, k := range order {
			r.Eval()
			r.Nontrivial(fmt.Sprintf("prefix|%d|%d|%v", pass, k, issig))
			got := createChallenge(ctx, nonce, list[:k], issig)
			want := refChallenge(ctx, nonce, fresh(k), issig)
			intact := true
			for i := 0; i < N; i++ {
				if list[i] == nil || list[i].String() != held[i] {
					intact = false
					r.Violate("C15|createChallenge|callers-list-changed", fmt.Sprintf("after the call on list[:%d] (marker=%v) element %d of the caller's list is %v", k, issig, i, list[i]), []any{k, i, issig})
					list[i], _ = new(big.Int).SetString(held[i], 10)
				}
			}
			r.Outcome(fmt.Sprintf("prefix of a shared list:marker=%v:equals reference=%v:list intact=%v", issig, got.Cmp(want) == 0, intact))
			if got.Cmp(want) != 0 {
				r.Violate("C15|createChallenge!=reference|prefix-of-shared-list", fmt.Sprintf("list[:%d], marker=%v", k, issig), []any{k, issig})
			}
		}
	}
}
