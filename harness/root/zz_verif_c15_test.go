//go:build verif

package gabi

// C15 — the attribute hash equals its reference at every site that applies it.
//
// The rule "an attribute of more than l_m bits enters the signature as SHA-256(bytes)" is applied
// at four places (signer: common.RepresentToBases, signature verification: CLSignature.Verify,
// prover: Credential.CreateDisclosureProof for hidden attributes, verifier: ProofD.reconstructZ for
// disclosed attributes).  They are compared with one hand-written reference on every boundary
// value: all sizes around l_m, around the next byte boundaries and far above, at every attribute
// position, both disclosed and hidden.  The credential is minted by the harness with the
// reference representation, so that a site which deviates breaks an equation the other sites
// still satisfy.

import (
	"fmt"
	"testing"
	"time"

	"github.com/privacybydesign/gabi/big"
	"github.com/privacybydesign/gabi/internal/common"
	"github.com/privacybydesign/gabi/internal/verif/vkit"
)

func c15BoundaryValues(lm uint) []*big.Int {
	var out []*big.Int
	for _, l := range []uint{1, 8, lm - 8, lm - 1, lm, lm + 1, lm + 2, lm + 7, lm + 8, lm + 9, 2 * lm, 3*lm + 5} {
		lo := vfPow2(l - 1)
		hi := new(big.Int).Sub(vfPow2(l), vfInt(1))
		mid := new(big.Int).Add(lo, new(big.Int).Rsh(vfTag(fmt.Sprint("c15-", l)), 0))
		if mid.BitLen() != int(l) {
			mid = new(big.Int).Add(lo, vfInt(1))
		}
		if mid.BitLen() != int(l) {
			mid = lo
		}
		out = append(out, lo, mid, hi)
	}
	return out
}

func TestVerifC15AttributeHashSites(t *testing.T) {
	r := vkit.Start(t, "C15", "attribute-hash-sites", 120*time.Second, 600*time.Second)
	defer r.Finish()
	r.Rule = "attribute-hash rule (value if BitLen <= l_m else SHA-256(bytes)) at its four use sites - signer RepresentToBases, CLSignature.Verify, prover (hidden attribute) and verifier (disclosed attribute) - against one reference, on credentials minted by the harness with the reference representation: every boundary value (3 values of each bit length in {1, 8, l_m-8, l_m-1, l_m, l_m+1, l_m+2, l_m+7, l_m+8, l_m+9, 2 l_m, 3 l_m+5}) x every attribute position x {disclosed, hidden}; non-trivial = distinct (key, value, position, mode)"
	env := vfInstallEnv(t, "c15-sites", r.Seed)
	defer env.Restore()
	keys := []string{"toyA", "t512", "k1024a"}
	if vkit.Thorough() {
		keys = append(keys, "k1024b", "k2048")
	}
	r.Bounds["keys"] = keys
	r.Bounds["attribute_positions"] = 2
	n := 0
	for _, kn := range keys {
		k := vfK(kn)
		pk := k.Pk
		lm := pk.Params.Lm
		for vi, v := range c15BoundaryValues(lm) {
			for pos := 1; pos <= 2; pos++ {
				n++
				if !r.Mine(n) {
					continue
				}
				if r.Expired() {
					r.Cap("deadline")
					return
				}
				ms := []*big.Int{vfTag("c15-secret"), vfInt(50), vfInt(51)}
				ms[pos] = v
				id := fmt.Sprintf("%s|bits=%d(lm%+d)#%d|pos=%d", kn, v.BitLen(), v.BitLen()-int(lm), vi%3, pos)
				// reference representation
				ref := big.NewInt(1)
				for i, m := range ms {
					ref.Mul(ref, new(big.Int).Exp(pk.R[i], refHashIfBig(pk, m), pk.N)).Mod(ref, pk.N)
				}
				r.Eval()
				r.Nontrivial(id + "|signer")
				if got := common.RepresentToBases(pk.R, ms, pk.N, lm); got.Cmp(ref) != 0 {
					r.Outcome("signer-differs")
					r.Violate("C15|attribute-hash-site|RepresentToBases", id, map[string]any{"value": v.String()})
				} else {
					r.Outcome("signer-agrees")
				}
				// mint with the reference representation
				vv := new(big.Int).Add(vfPow2(pk.Params.Lv-1), vfTag("c15-v"))
				num := new(big.Int).Exp(pk.S, vv, pk.N)
				num.Mul(num, ref).Mod(num, pk.N)
				Q := new(big.Int).Mul(pk.Z, new(big.Int).ModInverse(num, pk.N))
				Q.Mod(Q, pk.N)
				e := k.PrimesE[n%len(k.PrimesE)]
				A := new(big.Int).Exp(Q, new(big.Int).ModInverse(e, k.Sk.Order), pk.N)
				sig := &CLSignature{A: A, E: new(big.Int).Set(e), V: vv}
				r.Eval()
				r.Nontrivial(id + "|sigverify")
				if !sig.Verify(pk, ms) {
					r.Outcome("sigverify-rejects")
					r.Violate("C15|attribute-hash-site|CLSignature.Verify", id, map[string]any{"value": v.String()})
				} else {
					r.Outcome("sigverify-accepts")
				}
				cred := &Credential{Signature: sig, Pk: pk, Attributes: ms}
				for _, mode := range []string{"disclosed", "hidden"} {
					D := []int{pos}
					if mode == "hidden" {
						D = []int{3 - pos}
					}
					r.Eval()
					r.Nontrivial(id + "|" + mode)
					var p *ProofD
					var err error
					pan, msg := vkit.Guard(func() { p, err = cred.CreateDisclosureProof(D, nil, false, vfContext, vfNonce) })
					if pan || err != nil || p == nil {
						r.Outcome("prover-fails")
						r.Violate("C15|attribute-hash-site|prover-fails|"+mode, id+": "+msg+fmt.Sprint(err), nil)
						continue
					}
					ok := p.Verify(pk, vfContext, vfNonce, false)
					rok, why := refVerifyPlainD(pk, p, vfContext, vfNonce, false)
					r.Outcome(fmt.Sprintf("%s:verify=%v ref=%v", mode, ok, rok))
					switch {
					case !ok && rok:
						r.Violate("C15|attribute-hash-site|verifier-rejects|"+mode, id, map[string]any{"value": v.String()})
					case !rok:
						r.Violate("C15|attribute-hash-site|prover-deviates|"+mode, id+": "+why, map[string]any{"value": v.String()})
					case mode == "disclosed" && (p.ADisclosed[pos] == nil || p.ADisclosed[pos].Cmp(v) != 0):
						r.Violate("C15|attribute-hash-site|disclosed-value-not-the-attribute", id, nil)
					}
				}
			}
		}
	}
}
