//go:build verif

package gabi

// C14 — keyshare protocol: joint proofs complete, server bound to its commitment.
//
// Honest part: every builder list of length 1..L over kinds {disclosure, issuance} (plus fixed
// lists with non-revocation, range and random-blind variants) x every assignment of keys from
// {1024a, 1024b, 2048} x every non-empty subset of the used keys taking part in the keyshare
// protocol: the exchange must yield the same challenge on both sides and a list that verifies
// with labels for secret = user share + server share.
// Deviation part: every alteration of the second message relative to the first; the server must
// answer with an error and no response (a panic is neither).

import (
	"fmt"
	"sort"
	"testing"
	"time"

	"github.com/privacybydesign/gabi/big"
	"github.com/privacybydesign/gabi/gabikeys"
	"github.com/privacybydesign/gabi/internal/common"
	"github.com/privacybydesign/gabi/internal/verif/vkit"
	"github.com/privacybydesign/gabi/rangeproof"
)

// vfMintKS mints a credential whose secret is userSecret + the keyshare server's secret.
func vfMintKS(k *vfKey, userSecret, kssP *big.Int, attrs []*big.Int, eIdx int, rev bool) *Credential {
	pk, sk := k.Pk, k.Sk
	all := append([]*big.Int{}, attrs...)
	var cred Credential
	if rev {
		base := vfMintRev(k, userSecret, attrs, eIdx)
		all = base.Attributes[1:]
		cred.NonRevocationWitness = base.NonRevocationWitness
	}
	ms := append([]*big.Int{userSecret}, all...)
	R := common.RepresentToBases(pk.R, ms, pk.N, pk.Params.Lm)
	if kssP != nil {
		R.Mul(R, kssP).Mod(R, pk.N)
	}
	vTilde, _ := common.RandomBigInt(pk.Params.Lv - 1)
	v := new(big.Int).Add(vfPow2(pk.Params.Lv-1), vTilde)
	num := new(big.Int).Exp(pk.S, v, pk.N)
	num.Mul(num, R).Mod(num, pk.N)
	Q := new(big.Int).Mul(pk.Z, new(big.Int).ModInverse(num, pk.N))
	Q.Mod(Q, pk.N)
	e := k.PrimesE[eIdx%len(k.PrimesE)]
	A := new(big.Int).Exp(Q, new(big.Int).ModInverse(e, sk.Order), pk.N)
	cred.Signature = &CLSignature{A: A, E: new(big.Int).Set(e), V: v, KeyshareP: kssP}
	cred.Pk = pk
	cred.Attributes = ms
	return &cred
}

type c14Slot struct {
	kind vsKind
	key  string
}

type c14Session struct {
	slots     []c14Slot
	part      map[string]bool // key name -> takes part
	builders  ProofBuilderList
	pks       []*gabikeys.PublicKey
	keys      map[string]*gabikeys.PublicKey
	labels    []string
	userSec   *big.Int
	kssSec    *big.Int
	rand      map[string]*big.Int
	commReq   KeyshareCommitmentRequest
	hashInput []KeyshareUserChallengeInput[string]
	kssRand   *big.Int
	respReq   KeyshareResponseRequest[string]
	challenge *big.Int
	issig     bool
}

// c14Retry: build sessions whose builders went through an abandoned first attempt.
var c14Retry bool

var c14TableKeys = map[string]*gabikeys.PublicKey{}

func c14TableKey(k *vfKey) *gabikeys.PublicKey {
	id := vfKeyID(k.Pk)
	if c14TableKeys[id] == nil {
		c14TableKeys[id] = vfFreshPk(k)
	}
	return c14TableKeys[id]
}

func c14Build(slots []c14Slot, part map[string]bool, issig bool) (*c14Session, error) {
	s := &c14Session{slots: slots, part: part, userSec: vfTag("c14-user"), kssSec: vfTag("c14-kss"), keys: map[string]*gabikeys.PublicKey{}, issig: issig}
	for i, sl := range slots {
		k := vfK(sl.key)
		var kssP *big.Int
		if part[sl.key] {
			kssP = new(big.Int).Exp(k.Pk.R[0], s.kssSec, k.Pk.N)
			// the key table of the keyshare protocol holds its own key objects (parsed from the party's own
			// configuration): equal in value to, but not the same objects as, the keys inside the builders
			if s.keys[vfKeyID(k.Pk)] == nil {
				s.keys[vfKeyID(k.Pk)] = c14TableKey(k)
			}
			s.labels = append(s.labels, "kss")
		} else {
			s.labels = append(s.labels, "")
		}
		attrs := []*big.Int{vfTag("c14-a1"), vfTag("c14-a2"), vfTag("c14-a3")}
		var b ProofBuilder
		var err error
		switch sl.kind {
		case vsDisc:
			b, err = vfMintKS(k, s.userSec, kssP, attrs, i, false).CreateDisclosureProofBuilder([]int{1}, nil, false)
		case vsDiscNonrev:
			b, err = vfMintKS(k, s.userSec, kssP, attrs, i, true).CreateDisclosureProofBuilder([]int{1}, nil, true)
		case vsDiscRange:
			attrs[1] = vfInt(1000)
			st, _ := rangeproof.NewStatement(rangeproof.GreaterOrEqual, vfInt(500))
			b, err = vfMintKS(k, s.userSec, kssP, attrs, i, false).CreateDisclosureProofBuilder([]int{1}, map[int][]*rangeproof.Statement{2: {st}}, false)
		case vsIssue:
			b, err = NewCredentialBuilder(k.Pk, vfContext, s.userSec, vsNonce2, kssP, nil)
		case vsIssueBlind:
			b, err = NewCredentialBuilder(k.Pk, vfContext, s.userSec, vsNonce2, kssP, []int{1})
		}
		if err != nil {
			return nil, err
		}
		s.builders = append(s.builders, b)
		s.pks = append(s.pks, k.Pk)
	}
	if c14Second {
		// a complete earlier exchange on the same builders (up to the user's second message), after which the
		// user resets the builders (no keyshare commitment set) and starts the exchange that counts
		c14Second = false
		s0 := *s
		defer func() { c14Second = true }()
		if err := s0.exchange(slots, part, issig); err != nil {
			return nil, fmt.Errorf("earlier exchange on the same builders: %w", err)
		}
		for i, b := range s.builders {
			if part[slots[i].key] {
				b.SetProofPCommitment(nil)
			}
		}
	}
	return s, s.exchange(slots, part, issig)
}

// c14Second: sessions whose builders already went through a complete exchange and were reset.
var c14Second bool

// exchange runs the user's side of the protocol on s.builders up to the second message.
func (s *c14Session) exchange(slots []c14Slot, part map[string]bool, issig bool) error {
	var err error
	s.rand, err = NewProofRandomizers()
	if err != nil {
		return err
	}
	if c14Retry {
		// a first attempt that got no further than the user's commitment request (message lost): the
		// user starts over on the same builders with fresh randomisers
		r0, err := NewProofRandomizers()
		if err != nil {
			return err
		}
		if _, _, err := KeyshareUserCommitmentRequest(s.builders, r0, s.keys); err != nil {
			return fmt.Errorf("KeyshareUserCommitmentRequest (abandoned attempt): %w", err)
		}
	}
	s.commReq, s.hashInput, err = KeyshareUserCommitmentRequest(s.builders, s.rand, s.keys)
	if err != nil {
		return fmt.Errorf("KeyshareUserCommitmentRequest: %w", err)
	}
	var comms []*ProofPCommitment
	s.kssRand, comms, err = NewKeyshareCommitments(s.kssSec, s.pks)
	if err != nil {
		return fmt.Errorf("NewKeyshareCommitments: %w", err)
	}
	for i, b := range s.builders {
		if part[slots[i].key] {
			b.SetProofPCommitment(comms[i])
		}
	}
	s.respReq, s.challenge, err = KeyshareUserResponseRequest(s.builders, s.rand, s.hashInput, vfContext, vfNonce, issig)
	if err != nil {
		return fmt.Errorf("KeyshareUserResponseRequest: %w", err)
	}
	// (the request is used as the library returns it - including the session context it must carry for
	// the server to compute the same challenge)
	return nil
}

func (s *c14Session) name() string {
	n := ""
	for _, sl := range s.slots {
		p := ""
		if s.part[sl.key] {
			p = "*"
		}
		n += fmt.Sprintf("%s@%s%s,", sl.kind, sl.key, p)
	}
	return fmt.Sprintf("%sissig=%v", n, s.issig)
}

func c14KeyTuples(n int, keys []string) [][]string {
	if n == 0 {
		return [][]string{{}}
	}
	var out [][]string
	for _, rest := range c14KeyTuples(n-1, keys) {
		for _, k := range keys {
			out = append(out, append(append([]string{}, rest...), k))
		}
	}
	return out
}

func TestVerifC14Honest(t *testing.T) {
	r := vkit.Start(t, "C14", "honest-exchange", 240*time.Second, 1500*time.Second)
	defer r.Finish()
	r.Rule = "builder lists of length 1..L over {disclosure, issuance} + fixed lists with non-revocation / range / random-blind members x every key tuple over {k1024a,k1024b,k2048} x every non-empty subset of the used keys participating (the key table holds key objects equal in value to, but distinct from, the builders' keys) x {disclosure, signature session (lists without issuance)}; every third scenario as a second attempt on builders that already went through an abandoned commitment request, every third on builders that went through a complete earlier exchange and were reset (SetProofPCommitment(nil)); non-trivial = distinct scenario; oracle: no error, ProofP.C == user's challenge, the merged list verifies with labels (participating members 'kss', others ''), for total secret = user + server share"
	vfInstallEnv(t, "C14/honest", r.Seed)
	L := vkit.Pick(3, 4)
	keys := []string{"k1024a", "k1024b", "k2048"}
	var scen [][]c14Slot
	for n := 1; n <= L; n++ {
		for m := 0; m < 1<<n; m++ {
			for _, kt := range c14KeyTuples(n, keys) {
				// limit the number of 2048-bit members in the quick tier (cost)
				c2048 := 0
				for _, k := range kt {
					if k == "k2048" {
						c2048++
					}
				}
				if !vkit.Thorough() && (c2048 > 1 || n == 3 && m != 0 && m != 5 && m != 7 && m != 2) {
					continue
				}
				sl := make([]c14Slot, n)
				for i := range sl {
					sl[i] = c14Slot{vsDisc, kt[i]}
					if m&(1<<i) != 0 {
						sl[i].kind = vsIssue
					}
				}
				scen = append(scen, sl)
			}
		}
	}
	scen = append(scen,
		[]c14Slot{{vsDiscNonrev, "k1024a"}}, []c14Slot{{vsDiscRange, "k1024a"}, {vsIssue, "k1024b"}}, []c14Slot{{vsIssueBlind, "k1024a"}, {vsDisc, "k2048"}},
		[]c14Slot{{vsDiscNonrev, "k2048"}, {vsDiscRange, "k1024a"}}, []c14Slot{{vsDiscNonrev, "k1024a"}, {vsDiscRange, "k2048"}, {vsIssueBlind, "k1024b"}})
	r.Bounds["scenario_lists"] = len(scen)
	for _, sl := range scen {
		used := map[string]bool{}
		for _, s := range sl {
			used[s.key] = true
		}
		var uk []string
		for k := range used {
			uk = append(uk, k)
		}
		sort.Strings(uk)
		hasIssue := false
		for _, s := range sl {
			if s.kind == vsIssue || s.kind == vsIssueBlind {
				hasIssue = true
			}
		}
		for pm := 1; pm < 1<<len(uk); pm++ {
			part := map[string]bool{}
			for i, k := range uk {
				if pm&(1<<i) != 0 {
					part[k] = true
				}
			}
			for _, issig := range []bool{false, true} {
				if issig && hasIssue {
					continue
				}
				if _, mine := r.Next(); !mine {
					continue
				}
				if r.Expired() {
					return
				}
				// every third scenario is run as a retry after an abandoned first attempt on the same builders
				c14Retry = r.Evaluations%3 == 2
				c14Second = r.Evaluations%3 == 1 // every third scenario: the builders went through a complete earlier exchange and were reset
				retried := c14Retry
				r.Eval()
				s, err := c14Build(sl, part, issig)
				c14Retry, c14Second = false, false
				if err != nil {
					// a 1024-bit key with an oversized secret is the one documented refusal; our secrets are 120 bits
					r.Violate("C14|honest-exchange-failed|user-side", fmt.Sprintf("%v part=%v: %v", sl, part, err), fmt.Sprint(sl, part))
					continue
				}
				name := s.name()
				if retried {
					name += " (second attempt on the same builders)"
				}
				r.Nontrivial(name)
				var proofP *ProofP
				pan, msg := vkit.Guard(func() { proofP, err = KeyshareResponse(s.kssSec, s.kssRand, s.commReq, s.respReq, s.keys) })
				if pan || err != nil || proofP == nil {
					r.Violate("C14|honest-exchange-failed|server-side", fmt.Sprintf("%s: %v %s", name, err, msg), name)
					continue
				}
				if proofP.C.Cmp(s.challenge) != 0 {
					r.Violate("C14|challenges-differ", name, name)
					continue
				}
				proofPs := make([]*ProofP, len(s.builders))
				for i := range s.builders {
					if part[sl[i].key] {
						proofPs[i] = proofP
					}
				}
				list, err := s.builders.BuildDistributedProofList(s.challenge, proofPs)
				if err != nil {
					r.Violate("C14|honest-exchange-failed|merge", fmt.Sprintf("%s: %v", name, err), name)
					continue
				}
				ok := false
				if pan, msg := vkit.Guard(func() { ok = vsCloneList(list).Verify(s.pks, vfContext, vfNonce, issig, s.labels) }); pan {
					r.Violate("C14|joint-list-verification-panicked", name+": "+msg, name)
					continue
				}
				sizes := ""
				for _, x := range sl {
					sizes += fmt.Sprint(vfK(x.key).Pk.N.BitLen()) + ","
				}
				r.Outcome(fmt.Sprintf("sizes=%s:verified=%v", sizes, ok))
				if !ok {
					r.Violate("C14|joint-list-rejected|sizes="+sizes, fmt.Sprintf("%s: the merged proof list does not verify", name), name)
				}
				// the same list must not verify when all members are claimed to share one secret but do not
				if len(part) < len(uk) && len(sl) > 1 {
					if vsCloneList(list).Verify(s.pks, vfContext, vfNonce, issig, nil) {
						r.Violate("C14|mixed-list-verifies-as-single-secret", name, name)
					}
				}
				r.Sample(map[string]any{"scenario": name})
			}
		}
	}
}

func TestVerifC14Deviations(t *testing.T) {
	r := vkit.Start(t, "C14", "second-message-deviations", 240*time.Second, 1200*time.Second)
	defer r.Finish()
	r.Rule = "three honest sessions (1, 2 and 3 builders; with other commitments) x every alteration of message 2 relative to message 1: each leaf of each UserChallengeInput (+1, =0, nil, swapped with sibling), key id absent / unknown / swapped, other commitments +1 / dropped / extended, elements reordered / dropped / duplicated / extra, every byte of HashedUserCommitments flipped, hash truncated / empty; non-trivial = alteration changing message 2's challenge inputs or the committed hash; oracle: KeyshareResponse returns an error and no ProofP; a panic is neither"
	vfInstallEnv(t, "C14/dev", r.Seed)
	sessions := [][]c14Slot{
		{{vsDisc, "k1024a"}},
		{{vsDiscNonrev, "k1024a"}, {vsIssue, "k1024b"}},
		{{vsDiscRange, "k1024a"}, {vsDisc, "k1024b"}, {vsIssueBlind, "k1024a"}},
	}
	for si, sl := range sessions {
		part := map[string]bool{"k1024a": true}
		if si == 2 {
			part["k1024b"] = true
		}
		s, err := c14Build(sl, part, false)
		if err != nil {
			r.HarnessError("session %d: %v", si, err)
			return
		}
		if p, err := KeyshareResponse(s.kssSec, s.kssRand, s.commReq, s.respReq, s.keys); err != nil || p == nil {
			r.Violate("C14|honest-exchange-failed|server-side", fmt.Sprint(err), si)
			continue
		}
		r.Sample(map[string]any{"session": s.name()})
		type alt struct {
			class, desc string
			f           func(in *[]KeyshareUserChallengeInput[string], h *[]byte)
		}
		var alts []alt
		add := func(class, desc string, f func(in *[]KeyshareUserChallengeInput[string], h *[]byte)) {
			alts = append(alts, alt{class, desc, f})
		}
		unknown := "no-such-key"
		n := len(s.hashInput)
		for i := 0; i < n; i++ {
			i := i
			add("value", fmt.Sprintf("[%d].val+1", i), func(in *[]KeyshareUserChallengeInput[string], _ *[]byte) {
				(*in)[i].Value = new(big.Int).Add((*in)[i].Value, vfInt(1))
			})
			add("value", fmt.Sprintf("[%d].val=0", i), func(in *[]KeyshareUserChallengeInput[string], _ *[]byte) { (*in)[i].Value = vfInt(0) })
			add("value-nil", fmt.Sprintf("[%d].val=nil", i), func(in *[]KeyshareUserChallengeInput[string], _ *[]byte) { (*in)[i].Value = nil })
			add("commitment", fmt.Sprintf("[%d].comm+1", i), func(in *[]KeyshareUserChallengeInput[string], _ *[]byte) {
				(*in)[i].Commitment = new(big.Int).Add((*in)[i].Commitment, vfInt(1))
			})
			add("commitment", fmt.Sprintf("[%d].comm<->val", i), func(in *[]KeyshareUserChallengeInput[string], _ *[]byte) {
				(*in)[i].Commitment, (*in)[i].Value = (*in)[i].Value, (*in)[i].Commitment
			})
			add("commitment-nil", fmt.Sprintf("[%d].comm=nil", i), func(in *[]KeyshareUserChallengeInput[string], _ *[]byte) { (*in)[i].Commitment = nil })
			add("key-id", fmt.Sprintf("[%d].key toggled (present<->absent)", i), func(in *[]KeyshareUserChallengeInput[string], _ *[]byte) {
				if (*in)[i].KeyID == nil {
					id := vfKeyID(vfK("k1024a").Pk)
					(*in)[i].KeyID = &id
				} else {
					(*in)[i].KeyID = nil
				}
			})
			add("key-id-unknown", fmt.Sprintf("[%d].key unknown to the server", i), func(in *[]KeyshareUserChallengeInput[string], _ *[]byte) { (*in)[i].KeyID = &unknown })
			if len(s.hashInput[i].OtherCommitments) > 0 {
				add("other-commitments", fmt.Sprintf("[%d].otherComms[0]+1", i), func(in *[]KeyshareUserChallengeInput[string], _ *[]byte) {
					oc := append([]*big.Int{}, (*in)[i].OtherCommitments...)
					oc[0] = new(big.Int).Add(oc[0], vfInt(1))
					(*in)[i].OtherCommitments = oc
				})
				add("other-commitments", fmt.Sprintf("[%d].otherComms last dropped", i), func(in *[]KeyshareUserChallengeInput[string], _ *[]byte) {
					(*in)[i].OtherCommitments = (*in)[i].OtherCommitments[:len((*in)[i].OtherCommitments)-1]
				})
				add("other-commitments-nil", fmt.Sprintf("[%d].otherComms[0]=nil", i), func(in *[]KeyshareUserChallengeInput[string], _ *[]byte) {
					oc := append([]*big.Int{}, (*in)[i].OtherCommitments...)
					oc[0] = nil
					(*in)[i].OtherCommitments = oc
				})
			}
			add("other-commitments", fmt.Sprintf("[%d].otherComms extended", i), func(in *[]KeyshareUserChallengeInput[string], _ *[]byte) {
				(*in)[i].OtherCommitments = append(append([]*big.Int{}, (*in)[i].OtherCommitments...), vfInt(5))
			})
			add("count", fmt.Sprintf("element %d dropped", i), func(in *[]KeyshareUserChallengeInput[string], _ *[]byte) { *in = append((*in)[:i:i], (*in)[i+1:]...) })
			add("count", fmt.Sprintf("element %d duplicated", i), func(in *[]KeyshareUserChallengeInput[string], _ *[]byte) {
				*in = append((*in)[:i+1:i+1], (*in)[i:]...)
			})
			if i+1 < n {
				add("order", fmt.Sprintf("elements %d<->%d", i, i+1), func(in *[]KeyshareUserChallengeInput[string], _ *[]byte) { (*in)[i], (*in)[i+1] = (*in)[i+1], (*in)[i] })
				add("key-id-swapped", fmt.Sprintf("key ids of %d and %d swapped", i, i+1), func(in *[]KeyshareUserChallengeInput[string], _ *[]byte) {
					(*in)[i].KeyID, (*in)[i+1].KeyID = (*in)[i+1].KeyID, (*in)[i].KeyID
				})
			}
		}
		add("count", "extra element appended", func(in *[]KeyshareUserChallengeInput[string], _ *[]byte) {
			*in = append(*in, KeyshareUserChallengeInput[string]{Value: vfInt(3), Commitment: vfInt(4)})
		})
		add("count", "all elements dropped", func(in *[]KeyshareUserChallengeInput[string], _ *[]byte) { *in = nil })
		for b := 0; b < len(s.commReq.HashedUserCommitments); b++ {
			b := b
			add("hash-byte", fmt.Sprintf("h_W byte %d flipped", b), func(_ *[]KeyshareUserChallengeInput[string], h *[]byte) { (*h)[b] ^= 0x10 })
		}
		add("hash-length", "h_W truncated by one byte", func(_ *[]KeyshareUserChallengeInput[string], h *[]byte) { *h = (*h)[:len(*h)-1] })
		add("hash-length", "h_W empty", func(_ *[]KeyshareUserChallengeInput[string], h *[]byte) { *h = nil })
		add("hash-length", "h_W extended", func(_ *[]KeyshareUserChallengeInput[string], h *[]byte) { *h = append(*h, 0) })
		for _, a := range alts {
			if _, mine := r.Next(); !mine {
				continue
			}
			in := make([]KeyshareUserChallengeInput[string], len(s.hashInput))
			copy(in, s.hashInput)
			for i := range in {
				in[i].Value, in[i].Commitment = vfCopy(in[i].Value), vfCopy(in[i].Commitment)
			}
			h := append([]byte{}, s.commReq.HashedUserCommitments...)
			if pan, _ := vkit.Guard(func() { a.f(&in, &h) }); pan {
				continue
			}
			req := s.respReq
			req.UserChallengeInput = in
			r.Eval()
			r.Nontrivial(fmt.Sprintf("%d|%s", si, a.desc))
			var p *ProofP
			var err error
			pan, msg := vkit.Guard(func() {
				p, err = KeyshareResponse(s.kssSec, s.kssRand, KeyshareCommitmentRequest{HashedUserCommitments: h}, req, s.keys)
			})
			rep := map[string]any{"session": s.name(), "alteration": a.desc}
			r.Outcome(fmt.Sprintf("%s:panic=%v:err=%v", a.class, pan, err != nil))
			switch {
			case pan:
				r.Violate("C14|server-panicked-on-deviating-second-message|"+a.class, fmt.Sprintf("%s, %s: %s", s.name(), a.desc, msg), rep)
			case err == nil || p != nil:
				r.Violate("C14|server-responded-despite-deviation|"+a.class, fmt.Sprintf("%s: %s", s.name(), a.desc), rep)
			}
		}
	}
}

// TestVerifC14UnknownKeys: the user runs the whole exchange honestly - both messages consistent with
// each other - for keys of which the server holds only some.  "Only for keys it knows": wherever the
// element naming the unknown key stands (first, after known ones, after non-participating ones), the
// server must refuse.
func TestVerifC14UnknownKeys(t *testing.T) {
	r := vkit.Start(t, "C14", "keys-unknown-to-the-server", 240*time.Second, 900*time.Second)
	defer r.Finish()
	r.Rule = "every builder list of length 1..3 over {disclosure under a key the server knows, disclosure under a participating key the server does NOT hold, disclosure under a non-participating key} containing at least one element of the second kind; both user messages honest and consistent; non-trivial = distinct list; oracle: KeyshareResponse returns an error and no ProofP (control: the same session with the full key table is answered)"
	vfInstallEnv(t, "C14/unknown", r.Seed)
	kinds := []c14Slot{{vsDisc, "k1024a"}, {vsDisc, "k1024b"}, {vsDisc, "k2048"}}
	var lists [][]c14Slot
	var rec func(cur []c14Slot)
	rec = func(cur []c14Slot) {
		if len(cur) > 0 {
			has := false
			for _, s := range cur {
				has = has || s.key == "k1024b"
			}
			if has {
				lists = append(lists, append([]c14Slot{}, cur...))
			}
		}
		if len(cur) == 3 {
			return
		}
		for _, k := range kinds {
			rec(append(cur, k))
		}
	}
	rec(nil)
	for _, sl := range lists {
		if _, mine := r.Next(); !mine {
			continue
		}
		if r.Expired() {
			return
		}
		s, err := c14Build(sl, map[string]bool{"k1024a": true, "k1024b": true}, false)
		if err != nil {
			r.HarnessError("session: %v", err)
			return
		}
		r.Eval()
		r.Nontrivial(s.name())
		if p, err := KeyshareResponse(s.kssSec, s.kssRand, s.commReq, s.respReq, s.keys); err != nil || p == nil {
			r.Violate("C14|honest-exchange-failed|server-side", fmt.Sprintf("%s: %v", s.name(), err), s.name())
			continue
		}
		fewer := map[string]*gabikeys.PublicKey{}
		for id, k := range s.keys {
			if id != vfKeyID(vfK("k1024b").Pk) {
				fewer[id] = k
			}
		}
		var p *ProofP
		pan, msg := vkit.Guard(func() { p, err = KeyshareResponse(s.kssSec, s.kssRand, s.commReq, s.respReq, fewer) })
		r.Outcome(fmt.Sprintf("unknown-key:panic=%v:err=%v", pan, err != nil))
		switch {
		case pan:
			r.Violate("C14|server-panicked-on-unknown-key", fmt.Sprintf("%s: %s", s.name(), msg), s.name())
		case err == nil || p != nil:
			r.Violate("C14|server-responded-for-a-key-it-does-not-know", s.name()+": the server holds no key for one of the participating elements and answered nevertheless", s.name())
		}
	}
}
