//go:build verif

package gabi

// C03 — linked proofs share one secret key.
//
// All lists of 2..4 builders x all assignments of secrets from {s1,s2,s3} x all labellings (nil,
// every set partition as a label vector).  Builders are driven honestly with the shared
// randomiser; then every adversarial equaliser of the menu is applied to every member.  Oracle
// (reference model): accepted => every label class contains exactly one secret value.

import (
	"fmt"
	"testing"
	"time"

	"github.com/privacybydesign/gabi/big"
	"github.com/privacybydesign/gabi/gabikeys"
	"github.com/privacybydesign/gabi/internal/common"
	"github.com/privacybydesign/gabi/internal/verif/vkit"
)

// all set partitions of n elements as restricted growth strings
func c03Partitions(n int) [][]int {
	var out [][]int
	cur := make([]int, n)
	var rec func(i, max int)
	rec = func(i, max int) {
		if i == n {
			out = append(out, append([]int{}, cur...))
			return
		}
		for v := 0; v <= max+1; v++ {
			cur[i] = v
			m := max
			if v > max {
				m = v
			}
			rec(i+1, m)
		}
	}
	cur[0] = 0
	rec(1, 0)
	return out
}

func c03Assignments(n, k int) [][]int {
	var out [][]int
	cur := make([]int, n)
	var rec func(i int)
	rec = func(i int) {
		if i == n {
			out = append(out, append([]int{}, cur...))
			return
		}
		for v := 0; v < k; v++ {
			cur[i] = v
			rec(i + 1)
		}
	}
	rec(0)
	return out
}

// c03ClassesOK: the reference model. labels nil => one class.
func c03ClassesOK(secretIdx []int, labels []string) bool {
	seen := map[string]int{}
	for i, s := range secretIdx {
		l := ""
		if labels != nil {
			l = labels[i]
		}
		if prev, ok := seen[l]; ok && prev != s {
			return false
		}
		seen[l] = s
	}
	return true
}

func c03Run(t *testing.T, sub string, keys []string, maxLen int, qb, tb time.Duration) {
	r := vkit.Start(t, "C03", sub, qb, tb)
	defer r.Finish()
	r.Rule = "lists of 2..N builders (disclosure/issuance alternating over the given keys) x every assignment of secrets from {s1,s2,s3} x every labelling (nil + every set partition); per list the honest proofs plus every equaliser (ProofU m_user_responses[0] carrying the difference or the whole true response; ProofD a_disclosed[0]/split of attribute 0; a_responses[0] or s_response overwritten with the other member's response; both shifted by k*ord) applied to every non-first member; non-trivial = list with >=2 distinct secrets inside one label class or an equaliser applied; oracle: accepted => one secret per label class; honest single-secret classes => accepted (reported as vacuity if not)"
	vfInstallEnv(t, "C03/"+sub, r.Seed)
	secrets := []*big.Int{vfTag("c03-s1"), vfTag("c03-s2"), new(big.Int).Add(vfTag("c03-s1"), vfInt(1))}
	r.Bounds["max_list_len"] = maxLen
	ctx, nonce := vfContext, vfNonce
	for n := 2; n <= maxLen; n++ {
		for _, pattern := range []string{"DI", "ID", "DD", "II"} {
			for _, asg := range c03Assignments(n, 3) {
				_, mine := r.Next()
				if !mine {
					continue
				}
				if r.Expired() {
					return
				}
				specs := make([]vsSpec, n)
				for i := 0; i < n; i++ {
					kind := vsDisc
					if pattern[i%2] == 'I' {
						kind = vsIssue
					}
					d := []int{1}
					if kind == vsIssue {
						d = nil
					}
					specs[i] = vsSpec{Kind: kind, Key: keys[i%len(keys)], Secret: asg[i], Disclosed: d}
				}
				_, bl, pks := vsBuildList(specs, secrets)
				L, err := bl.BuildProofList(ctx, nonce, false)
				if err != nil {
					r.HarnessError("build: %v", err)
					return
				}
				caseName := fmt.Sprintf("n=%d pattern=%s secrets=%v keys=%v", n, pattern, asg, keys)
				r.Sample(map[string]any{"n": n, "pattern": pattern, "secret_assignment": asg})
				labelings := [][]string{nil}
				for _, part := range c03Partitions(n) {
					ls := make([]string, n)
					for i, p := range part {
						ls[i] = fmt.Sprintf("kss%d", p)
					}
					labelings = append(labelings, ls)
				}
				verify := func(what string, l ProofList, labels []string, applied bool) {
					r.Eval()
					var ok bool
					lc := vsCloneList(l)
					pan, _ := vkit.Guard(func() { ok = lc.Verify(pks, ctx, nonce, false, labels) })
					if pan {
						r.Count("panic during verification (judged by C08)", 1)
						return
					}
					good := c03ClassesOK(asg, labels)
					if !good || applied {
						r.Nontrivial(caseName + "|" + fmt.Sprint(labels) + "|" + what)
					}
					r.Outcome(fmt.Sprintf("%s:classes_ok=%v:accepted=%v", what, good, ok))
					rep := map[string]any{"case": caseName, "labels": labels, "equaliser": what}
					if ok && !good {
						r.Violate("C03|different-secrets-accepted-under-one-label|"+what, fmt.Sprintf("%s labels=%v: accepted although a label class mixes secrets (%s)", caseName, labels, what), rep)
					}
					if !ok && good && !applied {
						r.Count("vacuity: honest single-secret list rejected", 1)
						r.Note("honest list with one secret per label class was rejected: %s labels=%v", caseName, labels)
					}
				}
				for _, labels := range labelings {
					verify("honest", L, labels, false)
				}
				// the same objects verified, mutated in place and verified again (state left in the proof
				// objects by the first verification must not survive the change of a response)
				if !c03ClassesOK(asg, nil) {
					obj := vsCloneList(L)
					var first bool
					if pan, _ := vkit.Guard(func() { first = obj.Verify(pks, ctx, nonce, false, nil) }); !pan {
						for j := 1; j < n; j++ {
							tgt := obj[0].SecretKeyResponse()
							switch q := obj[j].(type) {
							case *ProofU:
								q.SResponse = vfCopy(tgt)
							case *ProofD:
								q.AResponses[0] = vfCopy(tgt)
							}
						}
						r.Eval()
						r.Nontrivial(caseName + "|in-place-equalise-after-verify")
						var second bool
						if pan, _ := vkit.Guard(func() { second = obj.Verify(pks, ctx, nonce, false, nil) }); !pan && second {
							r.Violate("C03|different-secrets-accepted-under-one-label|equaliser:overwrite-in-place-after-a-verification", fmt.Sprintf("%s: first verification=%v, after overwriting the secret-key responses in place the same objects are accepted", caseName, first),
								map[string]any{"case": caseName, "equaliser": "overwrite in place after verify"})
						}
					}
				}
				// equalisers: make member j's secret-key response equal member 0's
				resp := func(p Proof) *big.Int { return p.SecretKeyResponse() }
				for j := 1; j < n; j++ {
					target := resp(L[0])
					for _, variant := range []string{"overwrite", "carry-difference", "carry-whole", "disclose-0", "split-0"} {
						alt := vsCloneList(L)
						switch q := alt[j].(type) {
						case *ProofU:
							switch variant {
							case "overwrite":
								q.SResponse = vfCopy(target)
							case "carry-difference":
								if q.MUserResponses == nil {
									q.MUserResponses = map[int]*big.Int{}
								}
								diff := new(big.Int).Sub(q.SResponse, target)
								if diff.Sign() < 0 {
									// negative responses cannot travel over JSON; use the in-memory form below
									continue
								}
								q.MUserResponses[0] = diff
								q.SResponse = vfCopy(target)
							case "carry-whole":
								// the true response moved to a second entry for the secret-key base, the field the
								// linking check looks at overwritten with the other member's response
								if q.MUserResponses == nil {
									q.MUserResponses = map[int]*big.Int{}
								}
								q.MUserResponses[0] = vfCopy(q.SResponse)
								q.SResponse = vfCopy(target)
							default:
								continue
							}
						case *ProofD:
							switch variant {
							case "overwrite":
								q.AResponses[0] = vfCopy(target)
							case "disclose-0":
								q.ADisclosed[0] = vfCopy(secrets[asg[j]])
								delete(q.AResponses, 0)
							case "split-0":
								// a_disclosed[0]=x with x = s_j - s_0 (if positive) makes the hidden remainder's response equal to target
								x := new(big.Int).Sub(secrets[asg[j]], secrets[asg[0]])
								if x.Sign() <= 0 {
									continue
								}
								q.ADisclosed[0] = x
								q.AResponses[0] = new(big.Int).Sub(q.AResponses[0], new(big.Int).Mul(q.C, x))
							default:
								continue
							}
						}
						for _, labels := range labelings {
							verify("equaliser:"+variant, alt, labels, true)
						}
					}
				}
			}
		}
	}
}

// TestVerifC03RelatedSecrets: colluders who pool their secrets choose them (and the secret-key
// randomisers) related by a linear map f, so that the secret-key responses are related by f as well:
// f(x) = -x, 2x, 256x.  Each member verifies on its own and the list verifies under distinct labels;
// under one label (or none) it must be rejected: the linking check has to compare the responses as
// integers, not their magnitudes, prefixes or lengths.  Negative numbers do not travel over JSON, so
// the lists are handed over as Go objects.
func TestVerifC03RelatedSecrets(t *testing.T) {
	r := vkit.Start(t, "C03", "related-secrets", 120*time.Second, 600*time.Second)
	defer r.Finish()
	r.Rule = "first member in {disclosure proof, issuance commitment} about secret s with randomiser r, second member an issuance commitment about f(s) with randomiser f(r) for f in {-x, 2x, 256x}; and first secret = g times the second (g in {2, 256, 65536, 2^64}), one randomiser, the second member answering the challenge g*c, keys toyA / k1024a (same and different keys), Go objects handed over directly; non-trivial = distinct (first kind, f, keys); oracle: each member verifies on its own and the list verifies under distinct labels (else vacuous), and it is rejected with no labels and with equal labels"
	vfInstallEnv(t, "C03/related", r.Seed)
	ctx, nonce := vfContext, vfNonce
	// scale != 0: the second member holds s/scale... rather: the FIRST secret is scale times the second,
	// both use one randomiser, and the second member answers the challenge scale*c instead of c - its
	// secret-key response then equals the first member's; only the comparison of every member's
	// challenge with the list's challenge stands in the way
	maps := []struct {
		name  string
		f     func(x *big.Int) *big.Int
		scale int64
	}{
		{"-x", func(x *big.Int) *big.Int { return new(big.Int).Neg(x) }, 0},
		{"2x", func(x *big.Int) *big.Int { return new(big.Int).Lsh(x, 1) }, 0},
		{"256x", func(x *big.Int) *big.Int { return new(big.Int).Lsh(x, 8) }, 0},
		{"x/2, answering challenge 2c", nil, 2},
		{"x/256, answering challenge 256c", nil, 256},
		{"x/65536, answering challenge 65536c", nil, 65536},
		{"x/2^64, answering challenge 2^64*c", nil, -64},
	}
	for _, kp := range [][2]string{{"toyA", "toyA"}, {"toyA", "toyB"}, {"k1024a", "k1024a"}, {"k1024a", "k1024b"}} {
		for _, first := range []string{"disclosure", "issuance"} {
			for _, m := range maps {
				if _, mine := r.Next(); !mine {
					continue
				}
				k0, k1 := vfK(kp[0]), vfK(kp[1])
				sec := vfTag("c03-rel-secret")
				var scale *big.Int
				sec1 := sec
				if m.scale != 0 {
					scale = vfInt(m.scale)
					if m.scale < 0 {
						scale = vfPow2(uint(-m.scale))
					}
					// first member: scale*sec1 ; second member: sec1
					sec = new(big.Int).Mul(sec1, scale)
				} else {
					sec1 = m.f(sec)
				}
				rnd, err := common.RandomBigInt(k0.Pk.Params.LmCommit - 9)
				if err != nil {
					r.HarnessError("%v", err)
					return
				}
				desc := fmt.Sprintf("first=%s f=%s keys=%v", first, m.name, kp)
				r.Eval()
				r.Nontrivial(desc)
				var b0 ProofBuilder
				if first == "disclosure" {
					b0, err = vfMint(k0, sec, []*big.Int{vfInt(11), vfInt(22)}, 3).CreateDisclosureProofBuilder([]int{1}, nil, false)
				} else {
					b0, err = NewCredentialBuilder(k0.Pk, ctx, sec, vsNonce2, nil, nil)
				}
				if err != nil {
					r.HarnessError("%v", err)
					return
				}
				b1, err := NewCredentialBuilder(k1.Pk, ctx, sec1, vsNonce2, nil, nil)
				if err != nil {
					r.HarnessError("%v", err)
					return
				}
				var list ProofList
				pan, msg := vkit.Guard(func() {
					c0, err := b0.Commit(map[string]*big.Int{"secretkey": rnd})
					if err != nil {
						panic(err)
					}
					rnd1 := rnd
					if scale == nil {
						rnd1 = m.f(rnd)
					}
					c1, err := b1.Commit(map[string]*big.Int{"secretkey": rnd1})
					if err != nil {
						panic(err)
					}
					ch := createChallenge(ctx, nonce, append(c0, c1...), false)
					ch1 := ch
					if scale != nil {
						ch1 = new(big.Int).Mul(ch, scale)
					}
					list = ProofList{b0.CreateProof(ch), b1.CreateProof(ch1)}
				})
				if pan {
					r.Count("related-secret list not constructible: "+msg, 1)
					continue
				}
				pks := []*gabikeys.PublicKey{k0.Pk, k1.Pk}
				var distinct, unlabeled, equal bool
				if pan, _ := vkit.Guard(func() {
					distinct = list.Verify(pks, ctx, nonce, false, []string{"a", "b"})
					unlabeled = list.Verify(pks, ctx, nonce, false, nil)
					equal = list.Verify(pks, ctx, nonce, false, []string{"kss", "kss"})
				}); pan {
					r.Count("panic during verification (judged by C08)", 1)
					continue
				}
				r.Outcome(fmt.Sprintf("first=%s:f=%s:distinct-labels=%v:no-labels=%v:equal-labels=%v", first, m.name, distinct, unlabeled, equal))
				if !distinct && scale == nil {
					r.Count("vacuity: related-secret list does not verify under distinct labels", 1)
					continue
				}
				if distinct && scale != nil {
					r.Violate("C03|member-answering-another-challenge-accepted|related-secrets:"+m.name, desc+": a member whose challenge is a multiple of the list's challenge is accepted", desc)
				}
				if unlabeled || equal {
					r.Violate("C03|different-secrets-accepted-under-one-label|related-secrets:"+m.name, fmt.Sprintf("%s: proofs about s and f(s) accepted as linked (no labels: %v, equal labels: %v)", desc, unlabeled, equal), desc)
				}
			}
		}
	}
}

func TestVerifC03Toy(t *testing.T) {
	c03Run(t, "toy", []string{"toyA", "toyB"}, vkit.Pick(3, 4), 240*time.Second, 1200*time.Second)
}

func TestVerifC03Mixed(t *testing.T) {
	c03Run(t, "mixed-sizes", []string{"toyA", "k1024a"}, vkit.Pick(2, 3), 240*time.Second, 1200*time.Second)
}

var _ = gabikeys.DefaultEpochLength

// TestVerifC03DegenerateA: forged proofs whose A is not a unit modulo n (see vfDegenerateAForgeries).
func TestVerifC03DegenerateA(t *testing.T) {
	r := vkit.Start(t, "C03", "degenerate-signature-element", 120*time.Second, 300*time.Second)
	defer r.Finish()
	r.Rule = "keys {toyA, k1024a} x A in {0, n, 2n, n(n+1)} x {single proof, second member of a list with the secret-key response of the honest first member}; challenge computed from what the verifier reconstructs; non-trivial = distinct forgery; oracle: never accepted"
	vfDegenerateAForgeries(r, "C03", []string{"toyA", "k1024a"})
}

// TestVerifC03UnboundMember: a member that cannot be reconstructed (an issuance commitment with a
// response for an index that does not exist, or for index 0) is appended to an honest list that was made
// without it; it carries the list's challenge and the honest member's secret-key response although it
// is about another secret.  Whatever the verifier does with a member it cannot reconstruct, it must not
// leave it out of the challenge and then count it as linked.
func TestVerifC03UnboundMember(t *testing.T) {
	r := vkit.Start(t, "C03", "unbound-member", 120*time.Second, 300*time.Second)
	defer r.Finish()
	r.Rule = "keys {toyA, k1024a} x honest first member {disclosure proof, issuance commitment} (a list of its own) x appended issuance commitment about another secret with m_user_responses index in {0, len(R), -1, 1000} and, as control, none (reconstructible, still not part of the hash); appended before and after the honest member; labels {none, equal}; non-trivial = distinct case; oracle: rejected"
	vfInstallEnv(t, "C03/unbound", r.Seed)
	for _, keyName := range []string{"toyA", "k1024a"} {
		k := vfK(keyName)
		pk := k.Pk
		for _, first := range []string{"disclosure", "issuance"} {
			for _, badIdx := range []int{0, len(pk.R), -1, 1000, -99} { // -99: no extra response
				for _, pos := range []string{"after", "before"} {
					if _, mine := r.Next(); !mine {
						continue
					}
					desc := fmt.Sprintf("%s first=%s appended-commitment-with-response-index=%d %s the honest member", keyName, first, badIdx, pos)
					r.Eval()
					r.Nontrivial(desc)
					sec := vfTag("c03-unbound-secret")
					var b0 ProofBuilder
					var err error
					if first == "disclosure" {
						b0, err = vfMint(k, sec, []*big.Int{vfInt(11), vfInt(22)}, 3).CreateDisclosureProofBuilder([]int{1}, nil, false)
					} else {
						b0, err = NewCredentialBuilder(pk, vfContext, sec, vsNonce2, nil, nil)
					}
					if err != nil {
						r.HarnessError("%v", err)
						return
					}
					L, err := ProofBuilderList{b0}.BuildProofList(vfContext, vfNonce, false)
					if err != nil {
						r.HarnessError("%v", err)
						return
					}
					other := vfTag("c03-unbound-other-secret")
					u := new(big.Int).Exp(pk.S, vfInt(12345), pk.N)
					u.Mul(u, new(big.Int).Exp(pk.R[0], other, pk.N)).Mod(u, pk.N)
					var listC *big.Int
					switch q := L[0].(type) {
					case *ProofD:
						listC = q.C
					case *ProofU:
						listC = q.C
					}
					pu := &ProofU{U: u, C: vfCopy(listC), VPrimeResponse: vfInt(777), SResponse: vfCopy(L[0].SecretKeyResponse()), MUserResponses: map[int]*big.Int{}}
					if badIdx != -99 {
						pu.MUserResponses[badIdx] = vfInt(5)
					}
					list := ProofList{L[0], pu}
					pks := []*gabikeys.PublicKey{pk, pk}
					if pos == "before" {
						list = ProofList{pu, L[0]}
					}
					for _, labels := range [][]string{nil, {"kss", "kss"}} {
						var ok bool
						pan, _ := vkit.Guard(func() { ok = list.Verify(pks, vfContext, vfNonce, false, labels) })
						r.Outcome(fmt.Sprintf("unbound-member:%s:panic=%v:accepted=%v", pos, pan, ok))
						if !pan && ok {
							r.Violate("C03|list-with-an-unbound-member-accepted", fmt.Sprintf("%s (labels %v): accepted although the appended member is about another secret and not covered by the challenge", desc, labels), desc)
						}
					}
				}
			}
		}
	}
}
