//go:build verif

package gabi

// C11 — non-revocation proofs are sound and tied to the credential.
//
//  (a) history part (explicit-state search): every sequence of <= D operations from
//      {prepare cache, revoke other, revoke self, update witness, refresh time, prove+verify} on
//      a credential, replayed on fresh real objects and stepped against a model of the issuer's
//      accumulator history;
//  (b) adversarial part: every single-leaf alteration and every transplant of the
//      non-revocation part;
//  (c) environment part: honest proofs under <= 1 deviation of every random draw.

import (
	"encoding/json"
	"fmt"
	"testing"
	"time"

	"github.com/privacybydesign/gabi/big"
	"github.com/privacybydesign/gabi/gabikeys"
	"github.com/privacybydesign/gabi/internal/verif/venv"
	"github.com/privacybydesign/gabi/internal/verif/vkit"
	"github.com/privacybydesign/gabi/revocation"
)

// c11VerifyMany verifies a proof n times through fresh JSON copies (the verdict of an ambiguous
// proof depends on Go's map iteration order); returns how often it was accepted.
func c11VerifyMany(pk *gabikeys.PublicKey, p *ProofD, n int) int {
	ok := 0
	for i := 0; i < n; i++ {
		q := vsCloneProof(p).(*ProofD)
		if (ProofList{q}).Verify([]*gabikeys.PublicKey{pk}, vfContext, vfNonce, false, nil) {
			ok++
		}
	}
	if ok == 0 {
		// the same decoded object verified again (retry; ProofD.Verify after ProofList.Verify): a rejected
		// proof must stay rejected whatever the first verification left in the object
		q := vsCloneProof(p).(*ProofD)
		(ProofList{q}).Verify([]*gabikeys.PublicKey{pk}, vfContext, vfNonce, false, nil)
		if q.Verify(pk, vfContext, vfNonce, false) || (ProofList{q}).Verify([]*gabikeys.PublicKey{pk}, vfContext, vfNonce, false, nil) {
			ok = 1
		}
	}
	if ok == 0 && c11UsedReceiverAccepts(pk, p) {
		ok = 1
	}
	return ok
}

// c11UsedReceiverAccepts: the verifier decodes the message into a ProofD value that already received -
// and verified - the honest proof c11Prior: nothing that verification left in the value (memoised
// accumulator) may vouch for the new content.  (Only when the value differs from the verified honest one afterwards:
// encoding/json merges maps.)
func c11UsedReceiverAccepts(pk *gabikeys.PublicKey, p *ProofD) (accepted bool) {
	if c11Prior == nil {
		return false
	}
	vkit.Guard(func() {
		q := vsCloneProof(c11Prior).(*ProofD)
		if !q.Verify(pk, vfContext, vfNonce, false) {
			return
		}
		// (verification may have filled in fields of its own - the alpha response - and encoding/json merges
		// maps: what counts is that the value no longer equals the verified honest one)
		before, err := json.Marshal(q)
		if err != nil {
			return
		}
		bts, err := json.Marshal(p)
		if err != nil || json.Unmarshal(bts, q) != nil {
			return
		}
		if after, err := json.Marshal(q); err != nil || string(after) == string(before) {
			return
		}
		accepted = q.Verify(pk, vfContext, vfNonce, false) || (ProofList{q}).Verify([]*gabikeys.PublicKey{pk}, vfContext, vfNonce, false, nil)
	})
	return
}

// c11Prior: the honest proof a receiver's ProofD value held (and verified) before the message under test
// is decoded into it; nil = that route is not taken.
var c11Prior *ProofD

// ---- (a) history part -------------------------------------------------------------------------

var c11Ops = []string{"prepare", "revoke-other", "revoke-self", "update", "refresh-time", "prove"}

type c11Model struct {
	accIdx, witIdx int
	revokedAt      int
	witTime        int64
}

func TestVerifC11Histories(t *testing.T) {
	r := vkit.Start(t, "C11", "histories", 240*time.Second, 1500*time.Second)
	defer r.Finish()
	r.Rule = "every sequence of <= D operations over {prepare cache, revoke other, revoke self (once), update witness, refresh time, prove+verify}; a state is the history, replayed on a fresh issuer world and credential (real code), stepped against a model (accumulator index, witness index, revokedAt, witness time); non-trivial = distinct sequence containing at least one prove; oracle: prove succeeds and verifies (16 verifications) iff the model says the witness is valid for the accumulator it points to (always, since a revoked witness cannot advance), accepted proof reports index/time/Nu of the model's witness accumulator, update result class as in the model; in every state the holder's witness verifies against the accumulator it carries"
	D := vkit.Pick(4, 6)
	r.Bounds["max_depth"] = D
	for _, keyName := range vkit.Pick([]string{"toyB"}, []string{"toyB", "k1024a"}) {
		depth := D
		if keyName != "toyB" {
			depth = 4
		}
		k := vfK(keyName)
		env := vfInstallEnv(t, "C11/hist/"+keyName, r.Seed)
		seq := make([]int, 0, depth)
		var rec func()
		run := func() {
			hasProve := false
			for _, o := range seq {
				if c11Ops[o] == "prove" {
					hasProve = true
				}
			}
			// sequences are only interesting up to their last prove / update
			last := c11Ops[seq[len(seq)-1]]
			if last != "prove" && last != "update" {
				return
			}
			if _, mine := r.Next(); !mine {
				return
			}
			env.Reset()
			vfReseedCPRNG("C11/hist")
			w := c11NewWorld(k)
			cred := w.issue(vfTag("c11-secret"), []*big.Int{vfTag("c11-a1"), vfTag("c11-a2")}, 5)
			m := &c11Model{witTime: c11Base}
			name := ""
			for _, o := range seq {
				name += c11Ops[o] + ";"
			}
			r.Eval()
			r.States++
			if hasProve {
				r.Nontrivial(keyName + "|" + name)
			}
			for step, o := range seq {
				r.Transitions++
				r.Traces++
				rep := map[string]any{"key": keyName, "sequence": name, "step": step}
				// invariant of every reachable state: the holder's witness is valid for the accumulator it carries
				// (an operation - also a successful proof - must not damage it)
				if verr := cred.NonRevocationWitness.Verify(k.Pk); verr != nil {
					r.Violate("C11|holders-witness-damaged", fmt.Sprintf("%s: before step %d the witness no longer verifies against its own accumulator: %v", name, step, verr), rep)
					return
				}
				switch c11Ops[o] {
				case "prepare":
					if err := cred.NonrevPrepareCache(); err != nil {
						r.Violate("C11|prepare-cache-failed", fmt.Sprintf("%s step %d: %v", name, step, err), rep)
						return
					}
				case "revoke-other":
					w.revoke(vfRevPrime(100 + step))
					m.accIdx++
				case "revoke-self":
					if m.revokedAt != 0 {
						return // at most once; not a new state
					}
					w.revoke(cred.NonRevocationWitness.E)
					m.accIdx++
					m.revokedAt = m.accIdx
				case "update":
					u := w.update(m.witIdx + 1)
					err := cred.NonRevocationWitness.Update(k.Pk, u)
					switch {
					case m.accIdx == m.witIdx:
						if err != nil {
							r.Violate("C11|noop-update-failed", fmt.Sprintf("%s step %d: %v", name, step, err), rep)
						}
						if w.times[m.accIdx] > m.witTime {
							m.witTime = w.times[m.accIdx]
						}
					case m.revokedAt > m.witIdx:
						if err != revocation.ErrorRevoked {
							r.Violate("C11|revocation-not-reported-on-update", fmt.Sprintf("%s step %d: got %v", name, step, err), rep)
						}
					default:
						if err != nil {
							r.Violate("C11|update-of-valid-witness-failed", fmt.Sprintf("%s step %d: %v", name, step, err), rep)
							return
						}
						m.witIdx = m.accIdx
						m.witTime = w.times[m.accIdx]
					}
				case "refresh-time":
					w.times[w.last()] += 5
				case "prove":
					var p *ProofD
					var err error
					pan, msg := vkit.Guard(func() { p, err = cred.CreateDisclosureProof([]int{1}, nil, true, vfContext, vfNonce) })
					if pan || err != nil {
						r.Violate("C11|honest-nonrev-proof-not-created", fmt.Sprintf("%s step %d: %s %v", name, step, msg, err), rep)
						return
					}
					n := c11VerifyMany(k.Pk, p, 16)
					r.Outcome(fmt.Sprintf("prove:accepted=%d/16:witIdx=%d:accIdx=%d:revoked=%v", n, m.witIdx, m.accIdx, m.revokedAt != 0))
					if n != 16 {
						r.Violate("C11|honest-nonrev-rejected|history", fmt.Sprintf("%s step %d: proof from a witness valid for accumulator %d accepted %d/16 times", name, step, m.witIdx, n), rep)
						continue
					}
					q := vsCloneProof(p).(*ProofD)
					if !(ProofList{q}).Verify([]*gabikeys.PublicKey{k.Pk}, vfContext, vfNonce, false, nil) {
						continue
					}
					acc := q.NonRevocationProof.SignedAccumulator.Accumulator
					if acc == nil {
						r.Violate("C11|accepted-proof-has-no-accumulator", name, rep)
						continue
					}
					if int(acc.Index) != m.witIdx || acc.Nu.Cmp(w.accs[m.witIdx].Nu) != 0 {
						r.Violate("C11|accepted-proof-reports-wrong-accumulator", fmt.Sprintf("%s step %d: proof reports index %d, it was made against index %d", name, step, acc.Index, m.witIdx), rep)
					}
					if acc.Time != m.witTime {
						r.Violate("C11|accepted-proof-reports-wrong-time", fmt.Sprintf("%s step %d: proof reports time %d, the witness' accumulator has time %d", name, step, acc.Time, m.witTime), rep)
					}
					// the verifier's view of revocation: a proof against an accumulator at/after the revocation must not exist
					if m.revokedAt != 0 && int(acc.Index) >= m.revokedAt {
						r.Violate("C11|revoked-credential-proved-nonrevocation", fmt.Sprintf("%s: revoked at %d, accepted proof against accumulator %d", name, m.revokedAt, acc.Index), rep)
					}
				}
			}
			if verr := cred.NonRevocationWitness.Verify(k.Pk); verr != nil {
				r.Violate("C11|holders-witness-damaged", fmt.Sprintf("%s: after the last step the witness no longer verifies against its own accumulator: %v", name, verr), map[string]any{"key": keyName, "sequence": name})
			}
			r.Sample(map[string]any{"key": keyName, "sequence": name})
		}
		rec = func() {
			if r.Expired() {
				return
			}
			if len(seq) > 0 {
				run()
			}
			if len(seq) == depth {
				return
			}
			for o := range c11Ops {
				seq = append(seq, o)
				rec()
				seq = seq[:len(seq)-1]
			}
		}
		rec()
		env.Restore()
	}
}

// ---- (b) adversarial part ---------------------------------------------------------------------

func TestVerifC11Adversarial(t *testing.T) {
	r := vkit.Start(t, "C11", "adversarial", 240*time.Second, 1200*time.Second)
	defer r.Finish()
	r.Rule = "honest non-revocation proofs (toy and 1024-bit) x every single-leaf alteration (each also decoded into a ProofD value that already received and verified the honest proof) of the non-revocation part (C_r, C_u, each response, every 8th byte of the signed accumulator, key counter, responses deleted/added), every transplant (whole part / signed accumulator / single responses) from another credential of the same key, from the same credential at an older accumulator, from a credential under another key; the proof's own accumulator relabelled (later index / time) and signed with another key; every rejected object verified again; the disclosure part of a revoked credential joined under one challenge with the non-revocation part of another credential; proofs from a revoked or foreign witness (guard bypassed by building the commitment from a doctored witness); non-trivial = distinct (key, alteration); oracle: rejected (16 verifications: never accepted)"
	for _, keyName := range vkit.Pick([]string{"toyB"}, []string{"toyB", "k1024a"}) {
		k := vfK(keyName)
		env := vfInstallEnv(t, "C11/adv/"+keyName, r.Seed)
		w := c11NewWorld(k)
		w.revoke(vfRevPrime(1))
		credA := w.issue(vfTag("advA"), []*big.Int{vfTag("a1"), vfTag("a2")}, 6)
		credB := w.issue(vfTag("advB"), []*big.Int{vfTag("b1"), vfTag("b2")}, 7)
		// credOld: same holder as A but its witness is one accumulator behind
		w2 := c11NewWorld(k)
		credOld := w2.issue(vfTag("advA"), []*big.Int{vfTag("a1"), vfTag("a2")}, 6)
		other := vfK(map[string]string{"toyB": "toyA", "k1024a": "k1024b"}[keyName])
		wo := c11NewWorld(other)
		credO := wo.issue(vfTag("advO"), []*big.Int{vfTag("o1"), vfTag("o2")}, 8)
		mk := func(c *Credential) *ProofD {
			p, err := c.CreateDisclosureProof([]int{1}, nil, true, vfContext, vfNonce)
			if err != nil {
				panic(err)
			}
			return p
		}
		honest := mk(credA)
		pB, pOld, pO := mk(credB), mk(credOld), mk(credO)
		c11Prior = honest
		if n := c11VerifyMany(k.Pk, honest, 16); n != 16 {
			r.Violate("C11|honest-nonrev-rejected|adversarial-baseline", fmt.Sprintf("baseline proof accepted %d/16", n), keyName)
			continue
		}
		type alt struct {
			class, desc string
			f           func(p *ProofD)
		}
		var alts []alt
		add := func(class, desc string, f func(p *ProofD)) { alts = append(alts, alt{class, desc, f}) }
		inc := func(v *big.Int) *big.Int { return new(big.Int).Add(v, vfInt(1)) }
		add("C_r", "C_r+1", func(p *ProofD) { p.NonRevocationProof.Cr = inc(p.NonRevocationProof.Cr) })
		add("C_u", "C_u+1", func(p *ProofD) { p.NonRevocationProof.Cu = inc(p.NonRevocationProof.Cu) })
		// (the commitments enter the challenge as integers: a representative of the same residue class is
		// another proof)
		for _, kk := range []int64{1, 2, 1000003} {
			kk := kk
			add("C_r", fmt.Sprintf("C_r+%d*n", kk), func(p *ProofD) {
				p.NonRevocationProof.Cr = new(big.Int).Add(p.NonRevocationProof.Cr, new(big.Int).Mul(vfInt(kk), k.Pk.N))
			})
			add("C_u", fmt.Sprintf("C_u+%d*n", kk), func(p *ProofD) {
				p.NonRevocationProof.Cu = new(big.Int).Add(p.NonRevocationProof.Cu, new(big.Int).Mul(vfInt(kk), k.Pk.N))
			})
		}
		add("C_r", "C_r<->C_u", func(p *ProofD) {
			p.NonRevocationProof.Cr, p.NonRevocationProof.Cu = p.NonRevocationProof.Cu, p.NonRevocationProof.Cr
		})
		for _, name := range []string{"beta", "delta", "epsilon", "zeta"} {
			name := name
			add("response", name+"+1", func(p *ProofD) { p.NonRevocationProof.Responses[name] = inc(p.NonRevocationProof.Responses[name]) })
			add("response", name+"=0", func(p *ProofD) { p.NonRevocationProof.Responses[name] = vfInt(0) })
			add("response-deleted", name+" deleted", func(p *ProofD) { delete(p.NonRevocationProof.Responses, name) })
			add("response-transplant", name+" from credential B", func(p *ProofD) { p.NonRevocationProof.Responses[name] = vfCopy(pB.NonRevocationProof.Responses[name]) })
		}
		// (a prover-supplied "alpha" entry is overwritten by the verifier before use: it does not change
		// what the proof claims, so it is not an alteration and is not judged)
		dl := len(honest.NonRevocationProof.SignedAccumulator.Data)
		for b := 0; b < dl; b += vkit.Pick(8, 1) {
			b := b
			add("sacc-byte", fmt.Sprintf("signed accumulator byte %d flipped", b), func(p *ProofD) { p.NonRevocationProof.SignedAccumulator.Data[b] ^= 1 })
		}
		add("pk-counter", "pk counter+1", func(p *ProofD) { p.NonRevocationProof.SignedAccumulator.PKCounter++ })
		add("transplant-part", "whole nonrev part from credential B", func(p *ProofD) { p.NonRevocationProof = vsCloneProof(pB).(*ProofD).NonRevocationProof })
		add("transplant-part", "whole nonrev part from the same credential at an older accumulator", func(p *ProofD) { p.NonRevocationProof = vsCloneProof(pOld).(*ProofD).NonRevocationProof })
		add("transplant-part", "whole nonrev part from a credential under another key", func(p *ProofD) { p.NonRevocationProof = vsCloneProof(pO).(*ProofD).NonRevocationProof })
		add("transplant-sacc", "signed accumulator of an older index", func(p *ProofD) {
			p.NonRevocationProof.SignedAccumulator = vsCloneProof(pOld).(*ProofD).NonRevocationProof.SignedAccumulator
		})
		add("transplant-sacc", "signed accumulator of another key", func(p *ProofD) {
			p.NonRevocationProof.SignedAccumulator = vsCloneProof(pO).(*ProofD).NonRevocationProof.SignedAccumulator
		})
		// an accumulator the issuer never signed: the accumulator the proof was made against, relabelled
		// (same nu; later index and / or time) and signed with a key of the attacker's
		for _, v := range []struct {
			name   string
			di, dt int64
		}{{"same index, later time", 0, 1000}, {"index+5, later time", 5, 1000}, {"identical content", 0, 0}} {
			v := v
			add("sacc-self-signed", "signed accumulator relabelled ("+v.name+") and signed with another key", func(p *ProofD) {
				cp := &revocation.SignedAccumulator{Data: append([]byte{}, honest.NonRevocationProof.SignedAccumulator.Data...), PKCounter: honest.NonRevocationProof.SignedAccumulator.PKCounter}
				acc, err := cp.UnmarshalVerify(k.Pk)
				if err != nil {
					panic(err)
				}
				forged := *acc
				forged.Index += uint64(v.di)
				forged.Time += v.dt
				sacc, err := (&forged).Sign(other.Sk)
				if err != nil {
					panic(err)
				}
				sacc.PKCounter = k.Pk.Counter
				sacc.Accumulator = nil
				p.NonRevocationProof.SignedAccumulator = sacc
			})
		}
		add("revocation-attribute-response", "a_response of the revocation attribute +1", func(p *ProofD) { p.AResponses[3] = inc(p.AResponses[3]) })
		add("revocation-attribute-response", "a_responses of the revocation attribute and attribute 2 swapped", func(p *ProofD) { p.AResponses[3], p.AResponses[2] = p.AResponses[2], p.AResponses[3] })
		add("nonrev-dropped-from-revocable-proof", "nonrev part removed (must still verify as a plain proof: not an alteration of the nonrev claim)", nil)
		for _, a := range alts {
			if a.f == nil {
				continue
			}
			// (the number of byte-flip alterations follows the length of this process's randomised ECDSA
			// signature: cases are dealt to shards by description)
			if !r.MineKey(keyName + "|" + a.desc) {
				continue
			}
			p := vsCloneProof(honest).(*ProofD)
			if pan, _ := vkit.Guard(func() { a.f(p) }); pan {
				continue
			}
			r.Eval()
			r.Nontrivial(keyName + "|" + a.desc)
			acc := 0
			for i := 0; i < 16; i++ {
				q := &ProofD{}
				if pan, _ := vkit.Guard(func() { vfJSONCopy(p, q) }); pan {
					acc = -1
					break
				}
				var ok bool
				if pan, _ := vkit.Guard(func() { ok = (ProofList{q}).Verify([]*gabikeys.PublicKey{k.Pk}, vfContext, vfNonce, false, nil) }); pan {
					r.Count("panic during verification (judged by C08)", 1)
					continue
				}
				if ok {
					acc++
				}
				// the same decoded object once more (and through ProofD.Verify): a rejected proof stays rejected
				var again bool
				if pan, _ := vkit.Guard(func() {
					again = (ProofList{q}).Verify([]*gabikeys.PublicKey{k.Pk}, vfContext, vfNonce, false, nil) || q.Verify(k.Pk, vfContext, vfNonce, false)
				}); !pan && again && !ok {
					acc++
				}
			}
			if acc == 0 && c11UsedReceiverAccepts(k.Pk, p) {
				r.Violate("C11|altered-nonrev-part-accepted-by-a-used-receiver|"+a.class, fmt.Sprintf("%s: %s accepted when decoded into a ProofD value that had received and verified the honest proof", keyName, a.desc), map[string]any{"key": keyName, "alteration": a.desc})
			}
			r.Outcome(fmt.Sprintf("%s:accepted=%d", a.class, acc))
			if acc > 0 {
				r.Violate("C11|altered-nonrev-part-accepted|"+a.class, fmt.Sprintf("%s: %s accepted %d/16 times", keyName, a.desc, acc), map[string]any{"key": keyName, "alteration": a.desc})
			}
		}
		r.Sample(map[string]any{"key": keyName, "alterations": len(alts)})
		// revoked / foreign witness: the prover bypasses NewProofCommit's guard by presenting a witness
		// that does not satisfy u^e = nu (revoked: witness of an older accumulator paired with the newest
		// signed accumulator; foreign: u of another credential)
		for _, variant := range []string{"revoked-witness-newest-accumulator", "foreign-u", "foreign-e"} {
			if _, mine := r.Next(); !mine {
				continue
			}
			c := w.issue(vfTag("advR"), []*big.Int{vfTag("r1"), vfTag("r2")}, 9)
			switch variant {
			case "revoked-witness-newest-accumulator":
				w.revoke(c.NonRevocationWitness.E)
				acc := *w.accs[w.last()]
				sacc, _ := (&acc).Sign(k.Sk)
				c.NonRevocationWitness.SignedAccumulator = sacc
			case "foreign-u":
				c.NonRevocationWitness.U = vfCopy(credB.NonRevocationWitness.U)
			case "foreign-e":
				c.NonRevocationWitness.E = vfCopy(credB.NonRevocationWitness.E)
			}
			r.Eval()
			r.Nontrivial(keyName + "|" + variant)
			p, err := c.CreateDisclosureProof([]int{1}, nil, true, vfContext, vfNonce)
			if err != nil {
				r.Outcome(variant + ":prover-refused")
				continue
			}
			if n := c11VerifyMany(k.Pk, p, 16); n > 0 {
				r.Violate("C11|invalid-witness-proof-accepted|"+variant, fmt.Sprintf("%s accepted %d/16", variant, n), variant)
			}
		}
		// joint forgery with a friend's witness: the holder of a revoked credential A builds the disclosure
		// part from A and the non-revocation part from a friend's valid credential B under ONE challenge,
		// gives A's revocation attribute the randomiser of B's non-revocation proof and leaves B's own
		// response for the witness value ("alpha") in the proof
		if _, mine := r.Next(); mine {
			w3 := c11NewWorld(k)
			cA := w3.issue(vfTag("advJA"), []*big.Int{vfTag("ja1"), vfTag("ja2")}, 2)
			cB := w3.issue(vfTag("advJB"), []*big.Int{vfTag("jb1"), vfTag("jb2")}, 3)
			w3.revoke(cA.NonRevocationWitness.E)
			if err := cB.NonRevocationWitness.Update(k.Pk, w3.update(1)); err != nil {
				r.HarnessError("friend's witness update: %v", err)
				return
			}
			for _, keepAlpha := range []bool{true, false} {
				r.Eval()
				desc := fmt.Sprintf("disclosure part from revoked credential A + non-revocation part from credential B under one challenge (B's alpha kept: %v)", keepAlpha)
				r.Nontrivial(keyName + "|" + desc)
				var forged *ProofD
				pan, msg := vkit.Guard(func() {
					revIdx := len(cA.Attributes) - 1
					bA, err := cA.CreateDisclosureProofBuilder([]int{1}, nil, false)
					if err != nil {
						panic(err)
					}
					nb, err := cB.NonrevBuildProofBuilder()
					if err != nil {
						panic(err)
					}
					bA.attrRandomizers[revIdx] = nb.randomizer
					rnd, _ := NewProofRandomizers()
					l1, err := bA.Commit(rnd)
					if err != nil {
						panic(err)
					}
					l2, err := nb.Commit()
					if err != nil {
						panic(err)
					}
					c := createChallenge(vfContext, vfNonce, append(l1, l2...), false)
					forged = bA.CreateProof(c).(*ProofD)
					forged.NonRevocationProof = nb.CreateProof(c)
					if !keepAlpha {
						delete(forged.NonRevocationProof.Responses, "alpha")
					}
				})
				if pan || forged == nil {
					r.Count("joint forgery not constructible: "+msg, 1)
					continue
				}
				n := c11VerifyMany(k.Pk, forged, 16)
				var direct bool
				vkit.Guard(func() { direct = forged.Verify(k.Pk, vfContext, vfNonce, false) })
				r.Outcome(fmt.Sprintf("joint-forgery:alpha-kept=%v:accepted=%d/16:direct=%v", keepAlpha, n, direct))
				if n > 0 || direct {
					r.Violate("C11|revoked-credential-accepted-with-a-friends-witness", fmt.Sprintf("%s: accepted %d/16 (Go object directly: %v)", desc, n, direct), map[string]any{"key": keyName, "forgery": desc})
				}
			}
		}
		// forgery with degenerate group elements: a holder WITHOUT a valid witness (revoked, or never
		// given one) attaches a non-revocation part whose commitments are 0, 1, N-1 or N, computes the
		// challenge the way the verifier will, and presents the newest signed accumulator
		{
			N := k.Pk.N
			w.revoke(vfRevPrime(7))
			newest := *w.accs[w.last()]
			sacc, _ := (&newest).Sign(k.Sk)
			victim := vfMint(k, vfTag("advF"), []*big.Int{vfTag("f1"), vfTag("f2"), vfRevPrime(9)}, 4) // no witness at all
			type dgen struct {
				name string
				v    *big.Int
			}
			// a slice, not a map: the case numbering must be the same in every shard
			degenerate := []dgen{{"0", vfInt(0)}, {"1", vfInt(1)}, {"N-1", new(big.Int).Sub(N, vfInt(1))}, {"N", new(big.Int).Set(N)}, {"p-multiple-unknown(2)", vfInt(2)}}
			for _, dr := range degenerate {
				for _, du := range degenerate {
					crName, cr, cuName, cu := dr.name, dr.v, du.name, du.v
					for _, resp := range []int64{0, 1, 12345} {
						if _, mine := r.Next(); !mine {
							continue
						}
						r.Eval()
						desc := fmt.Sprintf("forged nonrev part: C_r=%s C_u=%s responses=%d", crName, cuName, resp)
						r.Nontrivial(keyName + "|" + desc)
						b, err := victim.CreateDisclosureProofBuilder([]int{1}, nil, false)
						if err != nil {
							r.HarnessError("builder: %v", err)
							return
						}
						// the forger makes the response of attribute 3 small enough to be taken for the revocation attribute
						b.attrRandomizers[3] = vfPow2(300)
						forged := vfForge(b, k.Pk, func(p *ProofD) {
							p.NonRevocationProof = &revocation.Proof{Cr: vfCopy(cr), Cu: vfCopy(cu), SignedAccumulator: &revocation.SignedAccumulator{Data: append([]byte{}, sacc.Data...), PKCounter: sacc.PKCounter},
								Responses: map[string]*big.Int{"beta": vfInt(resp), "delta": vfInt(resp), "epsilon": vfInt(resp), "zeta": vfInt(resp)}}
						}, false)
						if forged == nil {
							r.Outcome("forgery:no-fixed-point")
							continue
						}
						n := c11VerifyMany(k.Pk, forged, 16)
						r.Outcome(fmt.Sprintf("forgery:fixed-point:accepted=%d/16", n))
						if n > 0 {
							r.Violate("C11|forged-nonrev-proof-accepted|degenerate-commitments", fmt.Sprintf("%s: a holder without any witness obtained a verifying non-revocation proof against accumulator %d (%s), accepted %d/16", keyName, newest.Index, desc, n),
								map[string]any{"key": keyName, "forgery": desc})
						}
					}
				}
			}
		}
		env.Restore()
	}
}

// ---- (c) environment part ------------------------------------------------------------------------

func TestVerifC11Env(t *testing.T) {
	r := vkit.Start(t, "C11", "environment", 240*time.Second, 1200*time.Second)
	defer r.Finish()
	r.Rule = "honest non-revocation proof (1 or 2 hidden ordinary attributes, toy / 1024 / 2048-bit keys, with and without prepared cache) with every single random draw of the proof forced to min / max / short (two leading zero bytes); each proof verified 16 times through fresh JSON copies; non-trivial = distinct (key, variant, deviation); oracle: an honest proof from a valid witness is always accepted"
	keys := vkit.Pick([]string{"toyB", "k1024a"}, []string{"toyB", "k1024a", "k2048"})
	for _, keyName := range keys {
		k := vfK(keyName)
		env := vfInstallEnv(t, "C11/env/"+keyName, r.Seed)
		for _, disclosed := range [][]int{{1}, {}} {
			for _, prepared := range []bool{false, true} {
				if _, mine := r.Next(); !mine {
					continue
				}
				w := c11NewWorld(k)
				base := w.issue(vfTag("envS"), []*big.Int{vfTag("e1"), vfTag("e2")}, 10)
				env.Explore(1, []venv.Answer{venv.Min, venv.Max, venv.Short}, func(devs []venv.Deviation) bool {
					wc := *base.NonRevocationWitness
					cred := &Credential{Signature: base.Signature, Pk: base.Pk, Attributes: base.Attributes, NonRevocationWitness: &wc}
					vfReseedCPRNG("C11/env")
					if prepared {
						if err := cred.NonrevPrepareCache(); err != nil {
							r.HarnessError("prepare: %v", err)
							return false
						}
					}
					var p *ProofD
					var err error
					pan, msg := vkit.Guard(func() { p, err = cred.CreateDisclosureProof(disclosed, nil, true, vfContext, vfNonce) })
					r.Eval()
					rep := map[string]any{"key": keyName, "disclosed": disclosed, "prepared": prepared, "env": fmt.Sprint(devs)}
					if pan || err != nil {
						r.Violate("C11|honest-nonrev-proof-not-created|env", fmt.Sprintf("%v: %s %v", rep, msg, err), rep)
						return true
					}
					r.Nontrivial(fmt.Sprintf("%s|%v|%v|%v", keyName, disclosed, prepared, devs))
					// a forced extreme of the v/e commitment randomisers (an event of probability <= 2^-80 by
					// the choice of Lstatzk) can make a response negative, which the wire format refuses:
					// that is the protocol's designed statistical slack, not a verdict on the proof
					if p.VResponse.Sign() < 0 || p.EResponse.Sign() < 0 {
						r.Outcome("response negative under a forced extreme (2^-80 event by design, not judged)")
						r.Count("negative response under forced extreme", 1)
						return true
					}
					n := c11VerifyMany(k.Pk, p, 16)
					// how many hidden responses could be mistaken for the revocation attribute's
					small := 0
					bound := vfPow2(revocation.Parameters.AttributeSize + revocation.Parameters.ChallengeLength + revocation.Parameters.ZkStat + 1)
					for _, s := range p.AResponses {
						if s.Cmp(bound) < 0 {
							small++
						}
					}
					r.Outcome(fmt.Sprintf("accepted=%d/16:responses_below_2^580=%d", n, small))
					if n != 16 {
						cls := "other"
						if small > 1 {
							cls = "another-hidden-response-below-revocation-bound"
						}
						r.Violate("C11|honest-nonrev-rejected|"+cls, fmt.Sprintf("key %s disclosed=%v prepared=%v env=%v: honest proof accepted %d/16 (%d hidden responses < 2^580)", keyName, disclosed, prepared, devs, n, small), rep)
					}
					return !r.Expired()
				})
				r.Sample(map[string]any{"key": keyName, "disclosed": disclosed, "prepared": prepared, "draws": env.Draws()})
			}
		}
		env.Restore()
	}
}
