//go:build verif

package gabi

// C02 — proofs verify only in the session they were made for.
//
// For every composition of 1..3(4) builders of all kinds over one or two keys an honest proof
// list L is built for session tuple T=(context, nonce, issig, keys).  Then every neighbour of
// (T, L) in the menu below is verified; the oracle is "accepted iff (T',L') equals (T,L) by value".

import (
	"fmt"
	"testing"
	"time"

	"github.com/privacybydesign/gabi/big"
	"github.com/privacybydesign/gabi/gabikeys"
	"github.com/privacybydesign/gabi/internal/verif/vkit"
)

type c02Comp struct {
	name  string
	specs []vsSpec
}

func c02Compositions(keyA, keyB string, maxLen int) []c02Comp {
	kinds := []vsKind{vsDisc, vsDiscNonrev, vsDiscRange, vsIssue, vsIssueBlind}
	mk := func(k vsKind, key string) vsSpec {
		d := []int{2}
		if k == vsIssue || k == vsIssueBlind {
			d = nil
		}
		return vsSpec{Kind: k, Key: key, Secret: 0, Disclosed: d}
	}
	var out []c02Comp
	for _, k := range kinds {
		out = append(out, c02Comp{k.String(), []vsSpec{mk(k, keyA)}})
	}
	if maxLen >= 2 {
		for _, k1 := range kinds {
			for _, k2 := range kinds {
				out = append(out, c02Comp{k1.String() + "," + k2.String() + "@AB", []vsSpec{mk(k1, keyA), mk(k2, keyB)}})
			}
		}
		out = append(out, c02Comp{"disc,disc@AA", []vsSpec{mk(vsDisc, keyA), mk(vsDisc, keyA)}})
		out = append(out, c02Comp{"issue,disc@AA", []vsSpec{mk(vsIssue, keyA), mk(vsDisc, keyA)}})
	}
	if maxLen >= 3 {
		out = append(out, c02Comp{"disc,issue,disc+nonrev@ABA", []vsSpec{mk(vsDisc, keyA), mk(vsIssue, keyB), mk(vsDiscNonrev, keyA)}})
		out = append(out, c02Comp{"issue+blind,disc+range,disc@BAB", []vsSpec{mk(vsIssueBlind, keyB), mk(vsDiscRange, keyA), mk(vsDisc, keyB)}})
	}
	if maxLen >= 4 {
		out = append(out, c02Comp{"disc,disc+nonrev,issue,disc+range@ABBA", []vsSpec{mk(vsDisc, keyA), mk(vsDiscNonrev, keyB), mk(vsIssue, keyB), mk(vsDiscRange, keyA)}})
	}
	// a long list (7 members, more than 40 challenge contributions): everything that is bound for short
	// lists must be bound for the members at the far end of a long one as well
	out = append(out, c02Comp{"long:nonrev,range,nonrev,range,nonrev,disc,issue@ABABABA", []vsSpec{mk(vsDiscNonrev, keyA), mk(vsDiscRange, keyB), mk(vsDiscNonrev, keyA),
		mk(vsDiscRange, keyB), mk(vsDiscNonrev, keyA), mk(vsDisc, keyB), mk(vsIssue, keyA)}})
	return out
}

func c02FlipBit(v *big.Int, i int) *big.Int {
	n := new(big.Int).Set(v)
	return n.SetBit(n, i, n.Bit(i)^1)
}

func c02Run(t *testing.T, sub, keyA, keyB string, maxLen int, bitStride int, qb, tb time.Duration) {
	r := vkit.Start(t, "C02", sub, qb, tb)
	defer r.Finish()
	r.Rule = "compositions of 1..4 builders and one of 7 (more than 40 challenge contributions) (disclosure, +nonrev, +range, issuance, +blind) over 1-2 keys x both session kinds; neighbours: every single-bit flip (stride s) of context and nonce, +-1, 0, swapped, all pairs of sessions with context and nonce in {0,1,2}, flag flipped, every key permutation/substitution, every list permutation (keys alike or not), every proper sub-list (for the long list: neighbour transpositions, end swap, reversal; prefixes, suffixes, one member dropped), every duplication, every splice with a list of another session, members that cannot be reconstructed spliced in next to the member they copy, empty list; also each ProofD/ProofU singly; non-trivial = neighbour that differs from (T,L) by value; oracle: accepted iff unchanged; the caller's context and nonce objects are unchanged by verification"
	vfInstallEnv(t, "C02/"+sub, r.Seed)
	secrets := []*big.Int{vfTag("c02-secret")}
	r.Bounds["bit_stride"] = bitStride
	r.Bounds["max_list_len"] = maxLen
	other := vfK(keyB)
	if keyB == keyA {
		other = vfK("toyB")
	}
	for ci, comp := range c02Compositions(keyA, keyB, maxLen) {
		for _, issig := range []bool{false, true} {
			_, mine := r.Next()
			if !mine {
				continue
			}
			if r.Expired() {
				return
			}
			ctx, nonce := vfContext, vfNonce
			_, bl, pks := vsBuildList(comp.specs, secrets)
			L, err := bl.BuildProofList(ctx, nonce, issig)
			if err != nil {
				r.Violate("C02|honest-list-not-built", fmt.Sprintf("%s issig=%v: %v", comp.name, issig, err), comp.name)
				continue
			}
			// a list for another session T2 (different nonce) from fresh builders, for splicing
			_, bl2, _ := vsBuildList(comp.specs, secrets)
			nonceB := new(big.Int).Add(nonce, vfInt(0x1000))
			L2, err := bl2.BuildProofList(ctx, nonceB, issig)
			if err != nil {
				r.HarnessError("second list: %v", err)
				return
			}
			caseBase := fmt.Sprintf("%s|issig=%v", comp.name, issig)
			r.Sample(map[string]any{"composition": comp.name, "issig": issig, "keys": []string{keyA, keyB}})
			try := func(what string, changed bool, l ProofList, ks []*gabikeys.PublicKey, c, n *big.Int, sig bool) {
				r.Eval()
				var ok bool
				l = vsCloneList(l)
				cText, nText := c.String(), n.String()
				pan, msg := vkit.Guard(func() { ok = l.Verify(ks, c, n, sig, nil) })
				if c.String() != cText || n.String() != nText {
					// the verifier's own session values are the caller's objects: verification must leave them alone
					r.Violate("C02|verification-changed-context-or-nonce", fmt.Sprintf("%s (%s): context or nonce object changed by ProofList.Verify", caseBase, what), map[string]any{"composition": comp.name, "neighbour": what})
					c.SetString(cText, 10)
					n.SetString(nText, 10)
				}
				if changed {
					r.Nontrivial(caseBase + "|" + what)
				}
				cls := what
				if i := indexByte(what, ':'); i > 0 {
					cls = what[:i]
				}
				r.Outcome(fmt.Sprintf("%s:%v", cls, ok))
				replay := map[string]any{"composition": comp.name, "issig": issig, "neighbour": what}
				if pan {
					r.Count("panic during verification (judged by C08)", 1)
					_ = msg
					return
				}
				if changed && ok {
					r.Violate("C02|accepted-in-other-session|"+cls, fmt.Sprintf("%s: list made for T verifies after: %s", caseBase, what), replay)
				}
				if !changed && !ok {
					r.Violate("C02|honest-list-rejected", fmt.Sprintf("%s: unchanged list rejected (%s)", caseBase, what), replay)
				}
			}
			try("identity", false, L, pks, ctx, nonce, issig)
			try("flag flipped", true, L, pks, ctx, nonce, !issig)
			for i := 0; i < 256; i += bitStride {
				try(fmt.Sprintf("context bit:%d", i), true, L, pks, c02FlipBit(ctx, i), nonce, issig)
			}
			for i := 0; i < 130; i += bitStride {
				try(fmt.Sprintf("nonce bit:%d", i), true, L, pks, ctx, c02FlipBit(nonce, i), issig)
			}
			for _, d := range []int64{1, -1} {
				try(fmt.Sprintf("context%+d", d), true, L, pks, new(big.Int).Add(ctx, vfInt(d)), nonce, issig)
				try(fmt.Sprintf("nonce%+d", d), true, L, pks, ctx, new(big.Int).Add(nonce, vfInt(d)), issig)
			}
			try("context negated", true, L, pks, new(big.Int).Neg(ctx), nonce, issig)
			try("nonce negated", true, L, pks, ctx, new(big.Int).Neg(nonce), issig)
			try("context and nonce negated", true, L, pks, new(big.Int).Neg(ctx), new(big.Int).Neg(nonce), issig)
			try("context shifted by 2^256", true, L, pks, new(big.Int).Add(ctx, vfPow2(256)), nonce, issig)
			try("nonce shifted by 2^256", true, L, pks, ctx, new(big.Int).Add(nonce, vfPow2(256)), issig)
			try("context=0", true, L, pks, vfInt(0), nonce, issig)
			try("nonce=0", true, L, pks, ctx, vfInt(0), issig)
			try("context<->nonce", true, L, pks, nonce, ctx, issig)
			try("context=nonce", true, L, pks, nonce, nonce, issig)
			// sessions whose context and nonce are tiny (0, 1, 2: the values at which "absent", "zero" and "default"
			// meet): a list made for one of the nine tuples verifies for that tuple only
			if ci < 3 {
				for a := int64(0); a <= 2; a++ {
					for b := int64(0); b <= 2; b++ {
						_, bls, _ := vsBuildList(comp.specs, secrets)
						Ls, err := bls.BuildProofList(vfInt(a), vfInt(b), issig)
						if err != nil {
							r.Violate("C02|honest-list-not-built", fmt.Sprintf("%s issig=%v context=%d nonce=%d: %v", comp.name, issig, a, b, err), comp.name)
							continue
						}
						for c := int64(0); c <= 2; c++ {
							for d := int64(0); d <= 2; d++ {
								try(fmt.Sprintf("small-session-values: made for (context,nonce)=(%d,%d), verified for (%d,%d)", a, b, c, d), a != c || b != d, Ls, pks, vfInt(c), vfInt(d), issig)
							}
						}
					}
				}
			}
			// keys
			n := len(L)
			for i := 0; i < n; i++ {
				ks := append([]*gabikeys.PublicKey{}, pks...)
				ks[i] = other.Pk
				try(fmt.Sprintf("key substituted:%d", i), ks[i] != pks[i], L, ks, ctx, nonce, issig)
				ks2 := append([]*gabikeys.PublicKey{}, pks...)
				ks2 = append(ks2[:i], ks2[i+1:]...)
				try(fmt.Sprintf("key dropped:%d", i), true, L, ks2, ctx, nonce, issig)
			}
			try("key appended", true, L, append(append([]*gabikeys.PublicKey{}, pks...), pks[0]), ctx, nonce, issig)
			perms := vfPerms(min(n, 4))
			if n > 4 {
				// long lists: transpositions of neighbours, of the two ends, and the reversal instead of all n!
				perms = nil
				ident := make([]int, n)
				for i := range ident {
					ident[i] = i
				}
				for i := 0; i+1 < n; i++ {
					q := append([]int{}, ident...)
					q[i], q[i+1] = q[i+1], q[i]
					perms = append(perms, q)
				}
				q := append([]int{}, ident...)
				q[0], q[n-1] = q[n-1], q[0]
				perms = append(perms, q)
				rev := make([]int, n)
				for i := range rev {
					rev[i] = n - 1 - i
				}
				perms = append(perms, rev)
			}
			for _, perm := range perms {
				id := true
				for i, p := range perm {
					if p != i {
						id = false
					}
				}
				if id {
					continue
				}
				pl := make(ProofList, n)
				pk2 := make([]*gabikeys.PublicKey, n)
				keysSame := true
				for i, p := range perm {
					pl[i] = L[p]
					pk2[i] = pks[p]
					if pks[p] != pks[i] {
						keysSame = false
					}
				}
				try(fmt.Sprintf("list+keys permuted:%v", perm), true, pl, pk2, ctx, nonce, issig)
				try(fmt.Sprintf("list permuted:%v", perm), true, pl, pks, ctx, nonce, issig)
				try(fmt.Sprintf("keys permuted:%v", perm), !keysSame, L, pk2, ctx, nonce, issig)
			}
			// sub-lists (proper, non-empty) and the empty list
			for m := 0; m < 1<<n-1; m++ {
				if n > 4 {
					// long lists: prefixes, suffixes and lists with one member dropped instead of all 2^n
					drop, contiguous := 0, true
					seen0 := false
					for i := 0; i < n; i++ {
						if m&(1<<i) == 0 {
							drop++
						}
					}
					lo, hi := -1, -1
					for i := 0; i < n; i++ {
						if m&(1<<i) != 0 {
							if lo < 0 {
								lo = i
							}
							hi = i
						}
					}
					for i := lo; i >= 0 && i <= hi; i++ {
						if m&(1<<i) == 0 {
							contiguous = false
						}
					}
					_ = seen0
					if !(drop == 1 || m == 0 || contiguous && (lo == 0 || hi == n-1)) {
						continue
					}
				}
				var pl ProofList
				var ks []*gabikeys.PublicKey
				for i := 0; i < n; i++ {
					if m&(1<<i) != 0 {
						pl = append(pl, L[i])
						ks = append(ks, pks[i])
					}
				}
				try(fmt.Sprintf("sub-list:%b", m), true, pl, ks, ctx, nonce, issig)
			}
			for i := 0; i < n; i++ {
				pl := append(append(ProofList{}, L[:i+1]...), L[i:]...)
				ks := append(append([]*gabikeys.PublicKey{}, pks[:i+1]...), pks[i:]...)
				try(fmt.Sprintf("duplicated:%d", i), true, pl, ks, ctx, nonce, issig)
				sp := append(ProofList{}, L...)
				sp[i] = L2[i]
				try(fmt.Sprintf("spliced from other session:%d", i), true, sp, pks, ctx, nonce, issig)
				try(fmt.Sprintf("spliced, other session's nonce:%d", i), n > 1, sp, pks, ctx, nonceB, issig)
			}
			// members that cannot be reconstructed (index both disclosed and hidden; key with too few bases),
			// spliced in before / after a member they copy challenge and responses from
			for i := 0; i < n; i++ {
				d, isD := L[i].(*ProofD)
				if !isD {
					continue
				}
				for _, before := range []bool{true, false} {
					ins := func(extra Proof, key *gabikeys.PublicKey) (ProofList, []*gabikeys.PublicKey) {
						at := i
						if !before {
							at = i + 1
						}
						pl := append(append(append(ProofList{}, L[:at]...), extra), L[at:]...)
						ks := append(append(append([]*gabikeys.PublicKey{}, pks[:at]...), key), pks[at:]...)
						return pl, ks
					}
					forged := vsCloneProof(d).(*ProofD)
					for idx, resp := range forged.AResponses {
						if idx != 0 {
							forged.ADisclosed[idx] = vfCopy(resp) // now both disclosed and hidden
							break
						}
					}
					pl, ks := ins(forged, pks[i])
					try(fmt.Sprintf("unreconstructible copy of member spliced in (before=%v):%d", before, i), true, pl, ks, ctx, nonce, issig)
					short := vfFreshPk(&vfKey{Pk: pks[i]})
					short.R = short.R[:1]
					pl, ks = ins(vsCloneProof(d), short)
					try(fmt.Sprintf("duplicate of member under a key with one base (before=%v):%d", before, i), true, pl, ks, ctx, nonce, issig)
				}
			}
			try("other session's list under this nonce", true, L2, pks, ctx, nonce, issig)
			try("other session's list under its nonce", false, L2, pks, ctx, nonceB, issig)
			// the same decoded proof objects verified repeatedly (a verifier that keeps the received list
			// around): state left behind by an accepting verification must not make a later verification
			// for another session tuple succeed, nor a later honest one fail
			{
				reuse := vsCloneList(L)
				again := func(what string, want bool, ks []*gabikeys.PublicKey, c, nn *big.Int, sig bool) {
					r.Eval()
					r.Nontrivial(caseBase + "|reuse|" + what)
					var ok bool
					if pan, _ := vkit.Guard(func() { ok = reuse.Verify(ks, c, nn, sig, nil) }); pan {
						r.Count("panic during verification (judged by C08)", 1)
						return
					}
					rep := map[string]any{"composition": comp.name, "issig": issig, "neighbour": "same objects, " + what}
					if ok && !want {
						r.Violate("C02|accepted-in-other-session|object-reuse|"+what, fmt.Sprintf("%s: after an accepting verification the same proof objects verify for: %s", caseBase, what), rep)
					}
					if !ok && want {
						r.Violate("C02|honest-list-rejected|object-reuse", fmt.Sprintf("%s: %s", caseBase, what), rep)
					}
				}
				again("identity (1st)", true, pks, ctx, nonce, issig)
				for i := 0; i < n; i++ {
					ks := append([]*gabikeys.PublicKey{}, pks...)
					ks[i] = other.Pk
					if ks[i] != pks[i] {
						again(fmt.Sprintf("key %d substituted", i), false, ks, ctx, nonce, issig)
					}
				}
				if n >= 2 && pks[0] != pks[1] {
					again("all keys = key 0", false, append([]*gabikeys.PublicKey{pks[0], pks[0]}, pks[2:]...), ctx, nonce, issig)
					again("keys 0,1 swapped", false, append([]*gabikeys.PublicKey{pks[1], pks[0]}, pks[2:]...), ctx, nonce, issig)
				}
				again("nonce+1", false, pks, ctx, new(big.Int).Add(nonce, vfInt(1)), issig)
				again("context+1", false, pks, new(big.Int).Add(ctx, vfInt(1)), nonce, issig)
				again("flag flipped", false, pks, ctx, nonce, !issig)
				again("identity (again)", true, pks, ctx, nonce, issig)
			}
			// single proofs through their own Verify
			if n == 1 {
				single := func(what string, changed bool, c, nn *big.Int, sig bool) {
					r.Eval()
					p := vsCloneProof(L[0])
					var ok bool
					pan, _ := vkit.Guard(func() {
						switch q := p.(type) {
						case *ProofD:
							ok = q.Verify(pks[0], c, nn, sig)
						case *ProofU:
							if sig {
								ok = false // ProofU.Verify has no flag: issuance proofs are never signature-session proofs
								return
							}
							ok = q.Verify(pks[0], c, nn)
						}
					})
					if pan {
						return
					}
					r.Nontrivial(caseBase + "|single|" + what)
					if changed && ok {
						r.Violate("C02|single-proof-accepted-in-other-session|"+what, caseBase+": "+what, map[string]any{"composition": comp.name, "issig": issig, "neighbour": "single:" + what})
					}
					if !changed && !ok {
						// a ProofU made for a signature session is outside ProofU.Verify's domain
						if _, isU := p.(*ProofU); isU && issig {
							return
						}
						r.Violate("C02|single-honest-proof-rejected", caseBase, nil)
					}
				}
				single("identity", false, ctx, nonce, issig)
				single("flag flipped", true, ctx, nonce, !issig)
				single("nonce+1", true, ctx, new(big.Int).Add(nonce, vfInt(1)), issig)
				single("context+1", true, new(big.Int).Add(ctx, vfInt(1)), nonce, issig)
			}
		}
	}
}

func indexByte(s string, c byte) int {
	for i := 0; i < len(s); i++ {
		if s[i] == c {
			return i
		}
	}
	return -1
}

func TestVerifC02Toy(t *testing.T) {
	c02Run(t, "toy", "toyA", "toyB", vkit.Pick(3, 4), vkit.Pick(4, 1), 240*time.Second, 1200*time.Second)
}

func TestVerifC02K1024(t *testing.T) {
	c02Run(t, "k1024", "k1024a", "k1024b", vkit.Pick(1, 2), vkit.Pick(32, 8), 240*time.Second, 1200*time.Second)
}
