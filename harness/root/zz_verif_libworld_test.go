//go:build verif

package gabi

// The issuer side of revocation as the harnesses drive it: a chain of accumulators with their
// events, revocation of a credential, update messages from any index, issuance of a credential with
// a witness for the current accumulator.

import (
	"time"

	"github.com/privacybydesign/gabi/big"
	"github.com/privacybydesign/gabi/revocation"
)

// ---- issuer world ---------------------------------------------------------------------------

type c11World struct {
	k      *vfKey
	accs   []*revocation.Accumulator
	events []*revocation.Event
	times  []int64 // current (possibly refreshed) time per accumulator index
}

const c11Base = 1_800_000_000

func c11NewWorld(k *vfKey) *c11World {
	upd, err := revocation.NewAccumulator(k.Sk)
	if err != nil {
		panic(err)
	}
	acc := upd.SignedAccumulator.Accumulator
	acc.Time = c11Base
	return &c11World{k: k, accs: []*revocation.Accumulator{acc}, events: []*revocation.Event{upd.Events[0]}, times: []int64{c11Base}}
}

func (w *c11World) last() int { return len(w.accs) - 1 }

func (w *c11World) revoke(e *big.Int) {
	acc, ev, err := w.accs[w.last()].Remove(w.k.Sk, e, w.events[w.last()])
	if err != nil {
		panic(err)
	}
	acc.Time = c11Base + int64(len(w.accs))*10
	w.accs, w.events, w.times = append(w.accs, acc), append(w.events, ev), append(w.times, acc.Time)
}

// update returns an update message with events from..last (from > last: no events) for the
// current (possibly refreshed) latest accumulator.
func (w *c11World) update(from int) *revocation.Update {
	acc := *w.accs[w.last()]
	acc.Time = w.times[w.last()]
	var evs []*revocation.Event
	if from <= w.last() {
		evs = append(evs, w.events[from:]...)
	} else {
		evs = []*revocation.Event{}
	}
	u, err := revocation.NewUpdate(w.k.Sk, &acc, evs)
	if err != nil {
		panic(err)
	}
	return u
}

func (w *c11World) issue(secret *big.Int, attrs []*big.Int, eIdx int) *Credential {
	wit, err := revocation.RandomWitness(w.k.Sk, w.accs[w.last()])
	if err != nil {
		panic(err)
	}
	acc := *w.accs[w.last()]
	acc.Time = w.times[w.last()]
	sacc, err := (&acc).Sign(w.k.Sk)
	if err != nil {
		panic(err)
	}
	wit.SignedAccumulator = sacc
	wit.Updated = time.Unix(acc.Time, 0)
	all := append(append([]*big.Int{}, attrs...), wit.E)
	c := vfMint(w.k, secret, all, eIdx)
	c.NonRevocationWitness = wit
	return c
}

func vfRevPrime(i int) *big.Int {
	// primes well inside the revocation attribute range
	v := new(big.Int).Add(vfPow2(150), vfInt(int64(i)*1000))
	for !v.Go().ProbablyPrime(20) {
		v.Add(v, vfInt(1))
	}
	return v
}
