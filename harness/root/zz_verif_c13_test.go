//go:build verif

package gabi

// C13 — every true supported inequality is provable.
//
// For every difference in a dense window around 0 and at 2^k boundaries, both signs, factors 1..8
// (four squares) and factor 1 with the three-square table (every table entry), single and combined
// statements: statement true => CreateDisclosureProof succeeds, the proof verifies and
// Proves(statement); false => error.

import (
	"fmt"
	"sort"
	"testing"
	"time"

	"github.com/privacybydesign/gabi/big"
	"github.com/privacybydesign/gabi/gabikeys"
	"github.com/privacybydesign/gabi/internal/verif/venv"
	"github.com/privacybydesign/gabi/internal/verif/vkit"
	"github.com/privacybydesign/gabi/rangeproof"
)

// c13Statement: sign*(factor*m - bound) = diff.
func c13Statement(m *big.Int, sign int, factor uint, diff *big.Int, sp rangeproof.SquareSplitter) *rangeproof.Statement {
	fm := new(big.Int).Mul(new(big.Int).SetUint64(uint64(factor)), m)
	var bound *big.Int
	if sign == 1 {
		bound = new(big.Int).Sub(fm, diff)
	} else {
		bound = new(big.Int).Add(fm, diff)
	}
	return &rangeproof.Statement{Sign: sign, Factor: factor, Bound: bound, Splitter: sp}
}

func TestVerifC13(t *testing.T) {
	r := vkit.Start(t, "C13", "completeness", 240*time.Second, 1500*time.Second)
	defer r.Finish()
	r.Rule = "attribute m (large, so that bounds stay non-negative); statement sign*(factor*m-bound)=diff for diff in [-3,W] and 2^k, 2^k-1 (k up to 255), sign in {+1,-1}, factor 1..8 with four squares; attributes at the edges of the attribute range {2^Lm-10, 2^Lm-1, 2^(Lm-1), 0, 1, 9} x sign x factor 1..8 x diff {0,5,-1}; factor 1 with GenerateSquaresTable(limit) for limit in {5,16,17,31,33,64,100} (thorough: + 15,32,63,65,255,256,257) and every diff in [-2, limit+1]; combinations of 2-3 statements on one and two attributes; query sequences of 3 proofs from one reused Statement object whose bound the caller moves in place between queries (earlier proofs must keep verifying and reporting their bound); honest proofs also with every range-proof random draw forced to min/max/short (<=1 deviation); a failure of the random source at every draw of Commit followed by a second Commit on the same builder; non-trivial = distinct (splitter, sign, factor, diff); oracle: diff>=0 (and within the documented table limit) => proof created, verifies, Proves(statement); diff<0 => ErrFalseStatement"
	k := vfK("toyA")
	pk := k.Pk
	env := vfInstallEnv(t, "C13", r.Seed)
	m := new(big.Int).Add(vfPow2(250), vfInt(12345))
	cred := vfMint(k, vfTag("c13-secret"), []*big.Int{m, vfTag("c13-a2"), new(big.Int).Add(m, vfInt(77))}, 1)
	W := int64(vkit.Pick(40, 300))
	r.Bounds["window"] = W
	// table limits on both sides of the powers of 4 and 2 (l_d and the length comparison depend on them)
	tables := map[int64]*rangeproof.SquaresTable{}
	for _, lim := range vkit.Pick([]int64{5, 16, 17, 31, 33, 64, 100}, []int64{5, 15, 16, 17, 31, 32, 33, 63, 64, 65, 100, 255, 256, 257}) {
		tables[lim] = rangeproof.GenerateSquaresTable(lim)
	}
	try := func(desc string, stmts map[int][]*rangeproof.Statement, wantOK bool, class string) {
		r.Eval()
		var p *ProofD
		var err error
		pan, msg := vkit.Guard(func() { p, err = cred.CreateDisclosureProof([]int{2}, stmts, false, vfContext, vfNonce) })
		rep := map[string]any{"case": desc}
		r.Outcome(fmt.Sprintf("%s:want=%v:created=%v", class, wantOK, !pan && err == nil))
		if pan {
			r.Violate("C13|proof-creation-panicked|"+class, desc+": "+msg, rep)
			return
		}
		if !wantOK {
			if err == nil {
				if acc, _ := c12Verify(pk, p); acc {
					r.Violate("C13|false-statement-proved|"+class, desc, rep)
				}
			}
			return
		}
		if err != nil {
			r.Violate("C13|true-statement-not-provable|"+class, fmt.Sprintf("%s: %v", desc, err), rep)
			return
		}
		if acc, _ := c12Verify(pk, p); !acc {
			r.Violate("C13|true-statement-proof-rejected|"+class, desc, rep)
			return
		}
		for idx, sts := range stmts {
			if len(p.RangeProofs[idx]) != len(sts) {
				r.Violate("C13|range-proof-missing|"+class, desc, rep)
				continue
			}
			for i, st := range sts {
				if !p.RangeProofs[idx][i].Proves(st) {
					r.Violate("C13|proof-does-not-report-requested-statement|"+class, fmt.Sprintf("%s: statement %d on attribute %d", desc, i, idx), rep)
				}
			}
		}
	}
	// four squares: dense window, both signs, factors 1..8
	for _, sign := range []int{1, -1} {
		for factor := uint(1); factor <= 8; factor++ {
			if _, mine := r.Next(); !mine {
				continue
			}
			if r.Expired() {
				return
			}
			for d := int64(-3); d <= W; d++ {
				desc := fmt.Sprintf("4sq sign=%d factor=%d diff=%d", sign, factor, d)
				r.Nontrivial(desc)
				try(desc, map[int][]*rangeproof.Statement{1: {c13Statement(m, sign, factor, vfInt(d), nil)}}, d >= 0, fmt.Sprintf("4sq|sign=%d|%s", sign, c13DiffClass(d)))
			}
			r.Sample(map[string]any{"splitter": "four squares", "sign": sign, "factor": factor, "diffs": fmt.Sprintf("[-3,%d]", W)})
		}
	}
	// four squares: boundary differences
	for _, kk := range []uint{8, 16, 31, 32, 63, 64, 65, 127, 128, 129, 200, 254, 255} {
		if _, mine := r.Next(); !mine {
			continue
		}
		for _, sign := range []int{1, -1} {
			for _, d := range []*big.Int{vfPow2(kk), new(big.Int).Sub(vfPow2(kk), vfInt(1)), new(big.Int).Add(vfPow2(kk), vfInt(1))} {
				if sign == 1 && d.Cmp(m) > 0 {
					continue // bound would be negative
				}
				desc := fmt.Sprintf("4sq sign=%d factor=1 diff~2^%d (%s)", sign, kk, vfShort(d))
				r.Nontrivial(desc)
				try(desc, map[int][]*rangeproof.Statement{1: {c13Statement(m, sign, 1, d, nil)}}, true, fmt.Sprintf("4sq|sign=%d|diff=2^k", sign))
			}
		}
	}
	// attributes at the edges of the attribute range (factor*m is then as long as it can get, or tiny)
	edge := []*big.Int{new(big.Int).Sub(vfPow2(pk.Params.Lm), vfInt(10)), new(big.Int).Sub(vfPow2(pk.Params.Lm), vfInt(1)), vfPow2(pk.Params.Lm - 1), vfInt(0), vfInt(1), vfInt(9)}
	for ei, em := range edge {
		if _, mine := r.Next(); !mine {
			continue
		}
		ecred := vfMint(k, vfTag("c13-secret"), []*big.Int{em, vfTag("c13-a2")}, 1)
		for _, sign := range []int{1, -1} {
			for factor := uint(1); factor <= 8; factor++ {
				for _, d := range []int64{0, 5, -1} {
					st := c13Statement(em, sign, factor, vfInt(d), nil)
					if st.Bound.Sign() < 0 {
						continue
					}
					desc := fmt.Sprintf("4sq edge attribute #%d (%s) sign=%d factor=%d diff=%d", ei, vfShort(em), sign, factor, d)
					r.Nontrivial(desc)
					r.Eval()
					var p *ProofD
					var err error
					pan, msg := vkit.Guard(func() {
						p, err = ecred.CreateDisclosureProof([]int{2}, map[int][]*rangeproof.Statement{1: {st}}, false, vfContext, vfNonce)
					})
					cls := fmt.Sprintf("4sq-edge-attribute|sign=%d|%s", sign, c13DiffClass(d))
					r.Outcome(fmt.Sprintf("%s:created=%v", cls, !pan && err == nil))
					switch {
					case pan:
						r.Violate("C13|proof-creation-panicked|"+cls, desc+": "+msg, desc)
					case d < 0:
						if err == nil {
							if acc, _ := c12Verify(pk, p); acc {
								r.Violate("C13|false-statement-proved|"+cls, desc, desc)
							}
						}
					case err != nil:
						r.Violate("C13|true-statement-not-provable|"+cls, fmt.Sprintf("%s: %v", desc, err), desc)
					default:
						if acc, _ := c12Verify(pk, p); !acc {
							r.Violate("C13|true-statement-proof-rejected|"+cls, desc, desc)
						} else if len(p.RangeProofs[1]) != 1 || !p.RangeProofs[1][0].Proves(st) {
							r.Violate("C13|proof-does-not-report-requested-statement|"+cls, desc, desc)
						}
					}
				}
			}
		}
	}
	// three squares: every table entry
	var limits []int64
	for lim := range tables {
		limits = append(limits, lim)
	}
	sort.Slice(limits, func(i, j int) bool { return limits[i] < limits[j] }) // stable case numbering across shards
	for _, limit := range limits {
		tab := tables[limit]
		for _, sign := range []int{1, -1} {
			if _, mine := r.Next(); !mine {
				continue
			}
			for d := int64(-2); d <= limit+1; d++ {
				desc := fmt.Sprintf("3sq table(%d) sign=%d diff=%d", limit, sign, d)
				r.Nontrivial(desc)
				if d > limit {
					// beyond the documented table range: either outcome of creation is fine, but never a bogus proof
					continue
				}
				cls := fmt.Sprintf("3sq|sign=%d|%s", sign, c13DiffClass(d))
				if d > 0 && d <= limit {
					cls = fmt.Sprintf("3sq|sign=%d|diff-in-table", sign)
					if 4*d+2 > limit {
						cls = fmt.Sprintf("3sq|sign=%d|diff-in-table-but-scaled-value-beyond-len", sign)
					}
				}
				try(desc, map[int][]*rangeproof.Statement{1: {c13Statement(m, sign, 1, vfInt(d), tab)}}, d >= 0, cls)
			}
			r.Sample(map[string]any{"splitter": fmt.Sprintf("GenerateSquaresTable(%d)", limit), "sign": sign, "diffs": fmt.Sprintf("[-2,%d]", limit)})
		}
	}
	// combinations
	if _, mine := r.Next(); mine {
		tab := tables[64]
		m3 := cred.Attributes[3]
		combos := []map[int][]*rangeproof.Statement{
			{1: {c13Statement(m, 1, 1, vfInt(0), nil), c13Statement(m, -1, 1, vfInt(0), nil)}},
			{1: {c13Statement(m, 1, 2, vfInt(5), nil), c13Statement(m, -1, 3, vfInt(7), nil), c13Statement(m, 1, 1, vfInt(9), tab)}},
			{1: {c13Statement(m, 1, 1, vfInt(3), tab)}, 3: {c13Statement(m3, -1, 1, vfInt(4), nil)}},
			{1: {c13Statement(m, 1, 1, vfInt(1), nil), c13Statement(m, -1, 1, vfInt(2), nil)}, 3: {c13Statement(m3, 1, 5, vfInt(11), nil), c13Statement(m3, -1, 1, vfInt(12), tab)}},
		}
		for ci, c := range combos {
			desc := fmt.Sprintf("combination %d", ci)
			r.Nontrivial(desc)
			try(desc, c, true, "combination")
		}
		// one false member makes the whole proof fail
		try("combination with one false member", map[int][]*rangeproof.Statement{1: {c13Statement(m, 1, 1, vfInt(3), nil), c13Statement(m, -1, 1, vfInt(-1), nil)}}, false, "combination-false-member")
	}
	// query sequences on one reused Statement object: the caller moves the bound in place between
	// queries (as the repository's own tests do); every earlier proof must keep verifying and keep
	// reporting the bound it was requested for, and the library must leave the caller's statement alone
	for _, spn := range []string{"4sq", "3sq"} {
		for _, sign := range []int{1, -1} {
			for _, step := range []int64{1, 2, -1} {
				if _, mine := r.Next(); !mine {
					continue
				}
				var sp rangeproof.SquareSplitter
				if spn == "3sq" {
					sp = tables[64]
				}
				desc := fmt.Sprintf("query sequence %s sign=%d: 3 proofs from one Statement object, bound moved in place by %d between queries", spn, sign, step)
				r.Nontrivial(desc)
				cls := fmt.Sprintf("sequence|%s|sign=%d", spn, sign)
				st := c13Statement(m, sign, 1, vfInt(9), sp)
				var proofs []*ProofD
				var requested []*big.Int
				okSeq := true
				for q := 0; q < 3 && okSeq; q++ {
					want := vfCopy(st.Bound)
					r.Eval()
					p, err := cred.CreateDisclosureProof([]int{2}, map[int][]*rangeproof.Statement{1: {st}}, false, vfContext, vfNonce)
					if err != nil {
						r.Violate("C13|true-statement-not-provable|"+cls, fmt.Sprintf("%s: query %d: %v", desc, q, err), desc)
						okSeq = false
						break
					}
					if st.Bound.Cmp(want) != 0 || st.Sign != sign || st.Factor != 1 {
						r.Violate("C13|library-changed-the-callers-statement|"+cls, fmt.Sprintf("%s: query %d", desc, q), desc)
					}
					proofs, requested = append(proofs, p), append(requested, want)
					// next query: the statement stays true (difference 9 -> 9-2*step.. >= 3)
					st.Bound.Add(st.Bound, vfInt(int64(sign)*step))
				}
				for q, p := range proofs {
					r.Eval()
					acc, _ := c12Verify(pk, p)
					r.Outcome(fmt.Sprintf("sequence:earlier-proof-accepted=%v", acc))
					if !acc {
						r.Violate("C13|true-statement-proof-rejected|"+cls, fmt.Sprintf("%s: proof of query %d no longer verifies after the caller moved the statement's bound", desc, q), desc)
						continue
					}
					fresh := &rangeproof.Statement{Sign: sign, Factor: 1, Bound: requested[q], Splitter: sp}
					if !p.RangeProofs[1][0].Proves(fresh) {
						r.Violate("C13|proof-does-not-report-requested-statement|"+cls, fmt.Sprintf("%s: proof of query %d does not report bound %v it was requested for", desc, q, requested[q]), desc)
					}
				}
			}
		}
	}
	// environment deviations on an honest range proof
	if _, mine := r.Next(); mine {
		st := map[int][]*rangeproof.Statement{1: {c13Statement(m, 1, 1, vfInt(10), nil), c13Statement(m, -1, 1, vfInt(6), tables[64])}}
		env.Explore(1, []venv.Answer{venv.Min, venv.Max, venv.Short}, func(devs []venv.Deviation) bool {
			r.Eval()
			p, err := cred.CreateDisclosureProof([]int{2}, st, false, vfContext, vfNonce)
			r.Nontrivial(fmt.Sprintf("env|%v", devs))
			if err != nil {
				r.Violate("C13|true-statement-not-provable|env", fmt.Sprintf("%v: %v", devs, err), fmt.Sprint(devs))
				return true
			}
			if p.VResponse.Sign() < 0 || p.EResponse.Sign() < 0 {
				r.Count("negative response under forced extreme (2^-80 event by design)", 1)
				return true
			}
			if acc, _ := c12Verify(pk, p); !acc {
				r.Violate("C13|true-statement-proof-rejected|env="+c01DevClass(devs), fmt.Sprintf("honest range proof rejected under %v", devs), fmt.Sprint(devs))
			}
			return !r.Expired()
		})
	}
	// a transient failure of the random source at EVERY draw of Commit, then Commit again on the same
	// builder (a caller that retries): the proof made afterwards must verify and report its statements
	if _, mine := r.Next(); mine {
		stmts := func() map[int][]*rangeproof.Statement {
			return map[int][]*rangeproof.Statement{1: {c13Statement(m, 1, 1, vfInt(10), nil), c13Statement(m, -1, 1, vfInt(6), nil), c13Statement(m, 1, 1, vfInt(3), tables[64])}, 3: {c13Statement(cred.Attributes[3], -1, 1, vfInt(4), nil)}}
		}
		// dry run: how many draws builder creation and Commit take
		env.Reset()
		b0, err := cred.CreateDisclosureProofBuilder([]int{2}, stmts(), false)
		if err != nil {
			r.HarnessError("builder: %v", err)
			return
		}
		base := env.Draws()
		rnd0, _ := NewProofRandomizers()
		afterRnd := env.Draws()
		if _, err := b0.Commit(rnd0); err != nil {
			r.HarnessError("commit: %v", err)
			return
		}
		total := env.Draws()
		r.Bounds["commit_draws"] = total - afterRnd
		for i := afterRnd; i < total; i++ {
			r.Eval()
			desc := fmt.Sprintf("random source fails at draw %d of %d of Commit, then Commit is repeated", i-afterRnd, total-afterRnd)
			r.Nontrivial(desc)
			env.Reset(venv.Deviation{Draw: i, Ans: venv.Error})
			var p *ProofD
			var firstErr error
			pan, msg := vkit.Guard(func() {
				b, err := cred.CreateDisclosureProofBuilder([]int{2}, stmts(), false)
				if err != nil {
					panic(err)
				}
				_ = base
				rnd, err := NewProofRandomizers()
				if err != nil {
					panic(err)
				}
				_, firstErr = b.Commit(rnd)
				list, err := b.Commit(rnd)
				if err != nil {
					panic(fmt.Sprintf("second Commit: %v", err))
				}
				c := createChallenge(vfContext, vfNonce, list, false)
				p = b.CreateProof(c).(*ProofD)
			})
			r.Outcome(fmt.Sprintf("fault+retry:first commit failed=%v:constructed=%v", firstErr != nil, !pan))
			if pan {
				r.Violate("C13|true-statement-not-provable|after-failed-commit", desc+": "+msg, desc)
				continue
			}
			if acc, _ := c12Verify(pk, p); !acc {
				r.Violate("C13|true-statement-proof-rejected|after-failed-commit", desc+fmt.Sprintf(" (first Commit returned %v)", firstErr), desc)
			}
		}
		env.Reset()
	}
	_ = gabikeys.DefaultEpochLength
}

func c13DiffClass(d int64) string {
	switch {
	case d < 0:
		return "diff<0"
	case d == 0:
		return "diff=0"
	default:
		return "diff>0"
	}
}

// TestVerifC13KeySizes: the completeness statement for the real key sizes - 1024, 2048 and 4096 bits,
// whose parameter sets differ in more than the modulus (l_m = 512 and other response lengths at 4096).
// (k4096w is built from two ordinary 2048-bit primes: safe primes of that size cannot be generated
// here, and neither the holder nor the verifier can tell.)
func TestVerifC13KeySizes(t *testing.T) {
	r := vkit.Start(t, "C13", "completeness-per-key-size", 240*time.Second, 900*time.Second)
	defer r.Finish()
	r.Rule = "keys {1024, 2048, 4096 bits} x hidden attribute in {2^(lm-1)+12345, 2^lm-10, 77} x sign x factor {1,3,8} x difference {0, 5, 2^64} x splitter {four squares, table(64) for factor 1 and differences in the table}; non-trivial = distinct (key, attribute, statement); oracle: proof created, verifies (wire copy, single and in a list), Proves(statement)"
	vfInstallEnv(t, "C13/keysizes", r.Seed)
	table := rangeproof.GenerateSquaresTable(64)
	for _, keyName := range []string{"k1024a", "k2048", "k4096w"} {
		k := vfK(keyName)
		pk := k.Pk
		lm := pk.Params.Lm
		vals := []*big.Int{new(big.Int).Add(vfPow2(lm-1), vfInt(12345)), new(big.Int).Sub(vfPow2(lm), vfInt(10)), vfInt(77)}
		cred := vfMint(k, vfTag("c13-ks-secret"), vals, 1)
		for ai, m := range vals {
			for _, sign := range []int{1, -1} {
				for _, factor := range []uint{1, 3, 8} {
					if _, mine := r.Next(); !mine {
						continue
					}
					if r.Expired() {
						return
					}
					for _, d := range []*big.Int{vfInt(0), vfInt(5), vfPow2(64)} {
						for _, sp := range []rangeproof.SquareSplitter{nil, table} {
							if sp != nil && (factor != 1 || d.BitLen() > 6 || sign == -1 && d.Sign() == 0) {
								continue // outside the table, or the known three-square equality case (K01)
							}
							st := c13Statement(m, sign, factor, d, sp)
							if st.Bound.Sign() < 0 {
								continue
							}
							desc := fmt.Sprintf("%s attribute #%d sign=%d factor=%d diff=%s 3sq=%v", keyName, ai, sign, factor, vfShort(d), sp != nil)
							r.Eval()
							r.Nontrivial(desc)
							var p *ProofD
							var err error
							pan, msg := vkit.Guard(func() {
								p, err = cred.CreateDisclosureProof([]int{}, map[int][]*rangeproof.Statement{ai + 1: {st}}, false, vfContext, vfNonce)
							})
							cls := fmt.Sprintf("%s|3sq=%v", keyName, sp != nil)
							r.Outcome(fmt.Sprintf("%s:created=%v", cls, !pan && err == nil))
							switch {
							case pan:
								r.Violate("C13|proof-creation-panicked|"+cls, desc+": "+msg, desc)
							case err != nil:
								r.Violate("C13|true-statement-not-provable|"+cls, fmt.Sprintf("%s: %v", desc, err), desc)
							default:
								if acc, _ := c12Verify(pk, p); !acc {
									r.Violate("C13|true-statement-proof-rejected|"+cls, desc, desc)
								} else if len(p.RangeProofs[ai+1]) != 1 || !p.RangeProofs[ai+1][0].Proves(st) {
									r.Violate("C13|proof-does-not-report-requested-statement|"+cls, desc, desc)
								}
							}
						}
					}
				}
			}
		}
	}
}
