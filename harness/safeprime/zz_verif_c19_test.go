//go:build verif

package safeprime

// C19 (safe primes): ProbablySafePrime against a sieve for all x < 2^16; Generate for sizes
// 8..16 with every candidate byte string supplied through a scripted crypto/rand.Reader.

import (
	"crypto/rand"
	"fmt"
	"io"
	"testing"
	"time"

	"github.com/privacybydesign/gabi/big"
	"github.com/privacybydesign/gabi/internal/verif/vkit"
)

func c19prime(n int64) bool {
	if n < 2 {
		return false
	}
	for d := int64(2); d*d <= n; d++ {
		if n%d == 0 {
			return false
		}
	}
	return true
}

type c19once struct {
	b    []byte
	used bool
}

func (c *c19once) Read(p []byte) (int, error) {
	if c.used {
		return 0, io.EOF
	}
	c.used = true
	return copy(p, c.b), nil
}

func TestVerifC19SafePrime(t *testing.T) {
	r := vkit.Start(t, "C19", "safeprime", 150*time.Second, 600*time.Second)
	defer r.Finish()
	r.Rule = "ProbablySafePrime: all x < 2^16 (thorough 2^18) vs trial-division sieve; Generate(size in 8..16 (thorough ..17)): every candidate byte string via scripted rand.Reader followed by EOF; oracle: returned => safe prime of exactly the requested bit size; a candidate that encodes q with 2q+1 a safe prime of that size is returned; every safe prime of that size with q's top two bits set is reachable; non-trivial = distinct x / (size,candidate)"
	N := int64(vkit.Pick(1<<16, 1<<18))
	for x := int64(0); x < N; x++ {
		if x%4096 == 0 {
			if _, mine := r.Next(); !mine {
				x += 4095
				continue
			}
		}
		r.Eval()
		want := x > 2 && c19prime(x) && c19prime((x-1)/2)
		if got := ProbablySafePrime(big.NewInt(x), 20); got != want {
			r.Violate("C19|ProbablySafePrime|wrong", fmt.Sprintf("ProbablySafePrime(%d)=%v want %v", x, got, want), x)
		}
		if x%4096 == 0 {
			r.Nontrivial(fmt.Sprintf("psp|%d", x))
		}
	}
	r.Sample(map[string]any{"fn": "ProbablySafePrime", "x": "0..N-1"})
	prev := rand.Reader
	defer func() { rand.Reader = prev }()
	maxSize := vkit.Pick(16, 17)
	for size := 8; size <= maxSize; size++ {
		if _, mine := r.Next(); !mine {
			continue
		}
		qbits := size - 1
		nb := (qbits + 7) / 8
		reach := map[int64]bool{}
		for cand := 0; cand < 1<<(8*nb); cand++ {
			bs := make([]byte, nb)
			for i := 0; i < nb; i++ {
				bs[nb-1-i] = byte(cand >> (8 * i))
			}
			rand.Reader = &c19once{b: bs}
			r.Eval()
			var p *big.Int
			var err error
			if pan, msg := vkit.Guard(func() { p, err = Generate(size, nil) }); pan {
				r.Violate("C19|safeprime.Generate|panic", msg, []int{size, cand})
				continue
			}
			// encoded q per the documented bit manipulation: keep low qbits, set top two bits, set low bit
			q := int64(cand) & (int64(1)<<qbits - 1)
			q |= 3 << (qbits - 2)
			q |= 1
			enc := 2*q + 1
			if err == nil && p != nil {
				v := p.Int64()
				reach[v] = true
				if !(c19prime(v) && c19prime((v-1)/2)) {
					r.Violate("C19|safeprime.Generate|not-a-safe-prime", fmt.Sprintf("Generate(%d) with candidate %x returned %d", size, bs, v), []int{size, cand})
				}
				if p.BitLen() != size {
					r.Violate("C19|safeprime.Generate|wrong-size", fmt.Sprintf("Generate(%d) returned %d (%d bits)", size, v, p.BitLen()), []int{size, cand})
				}
			} else if c19prime(q) && c19prime(enc) {
				r.Violate("C19|safeprime.Generate|safe-prime-candidate-discarded", fmt.Sprintf("Generate(%d): candidate %x encodes q=%d, 2q+1=%d safe prime, not returned (err=%v)", size, bs, q, enc, err), []int{size, cand})
			}
		}
		lo, hi := int64(3)<<(qbits-2), int64(1)<<qbits
		for q := lo | 1; q < hi; q += 2 {
			if c19prime(q) && c19prime(2*q+1) && !reach[2*q+1] {
				r.Violate("C19|safeprime.Generate|safe-prime-unreachable", fmt.Sprintf("size %d: safe prime %d never returned", size, 2*q+1), []int64{int64(size), 2*q + 1})
			}
		}
		r.Nontrivial(fmt.Sprintf("gen|%d", size))
		r.Sample(map[string]any{"fn": "safeprime.Generate", "size": size, "candidates": 1 << (8 * nb), "reachable_safe_primes": len(reach)})
	}
}
