//go:build verif

package zkproof

// C19 (group exponentiation): Group.Exp on toy safe-prime groups for every exponent in
// (-order, order), both generators, against math/big.

import (
	"fmt"
	"testing"
	"time"

	"github.com/privacybydesign/gabi/big"
	"github.com/privacybydesign/gabi/internal/verif/vkit"
)

func TestVerifC19GroupExp(t *testing.T) {
	r := vkit.Start(t, "C19", "group-exp", 100*time.Second, 400*time.Second)
	defer r.Finish()
	r.Rule = "BuildGroup(p) for every safe prime p < 2^11 (thorough 2^13) and non-safe primes/composites (must be refused); Group.Exp(g|h, e) for every e in (-order,order); oracle: base^(e mod order) mod p by math/big; non-trivial = distinct p"
	N := int64(vkit.Pick(1<<11, 1<<13))
	isP := func(n int64) bool {
		if n < 2 {
			return false
		}
		for d := int64(2); d*d <= n; d++ {
			if n%d == 0 {
				return false
			}
		}
		return true
	}
	for p := int64(5); p < N; p++ {
		if _, mine := r.Next(); !mine {
			continue
		}
		safe := isP(p) && isP((p-1)/2)
		g, ok := BuildGroup(big.NewInt(p))
		r.Eval()
		if ok != safe {
			r.Violate("C19|BuildGroup|safe-prime-misjudged", fmt.Sprintf("BuildGroup(%d) ok=%v, safe prime=%v", p, ok, safe), p)
			continue
		}
		if !ok {
			continue
		}
		order := (p - 1) / 2
		for _, name := range []string{"g", "h"} {
			base := g.Base(name)
			for e := -order + 1; e < order; e++ {
				r.Eval()
				var ret big.Int
				if pan, msg := vkit.Guard(func() { g.Exp(&ret, name, big.NewInt(e), g.P) }); pan {
					r.Violate("C19|Group.Exp|panic", fmt.Sprintf("p=%d e=%d: %s", p, e, msg), []int64{p, e})
					continue
				}
				ee := e
				if ee < 0 {
					ee += order
				}
				want := new(big.Int).Exp(base, big.NewInt(ee), g.P)
				if ret.Cmp(want) != 0 {
					r.Violate("C19|Group.Exp|wrong-value", fmt.Sprintf("p=%d %s^%d = %v want %v", p, name, e, &ret, want), []int64{p, e})
				}
			}
		}
		r.Nontrivial(fmt.Sprintf("grp|%d", p))
		r.Sample(map[string]any{"fn": "Group.Exp", "p": p, "order": order})
	}
}
