//go:build verif

package common

// C19 — results do not alias package constants, arguments or earlier results.
//
// A helper that hands out one of the package's shared constants (or an argument, or a cached value)
// as its result computes the right value once and poisons every later call when the caller goes on
// to use the result as an accumulator - which callers of big-integer helpers routinely do.  Every
// helper is called on all small inputs; after each call everything it returned is overwritten in
// place; then the call is repeated with fresh arguments and compared with the brute-force reference,
// the arguments of the first call are compared with their original values, and the package
// constants are compared with their literal values.

import (
	"fmt"
	"testing"
	"time"

	"github.com/privacybydesign/gabi/big"
	"github.com/privacybydesign/gabi/internal/verif/vkit"
)

func c19ConstantsIntact() string {
	for _, c := range []struct {
		name string
		v    *big.Int
		want int64
	}{{"bigZERO", bigZERO, 0}, {"bigONE", bigONE, 1}, {"bigTWO", bigTWO, 2}, {"bigTHREE", bigTHREE, 3}, {"bigFOUR", bigFOUR, 4}, {"bigFIVE", bigFIVE, 5}, {"bigEIGHT", bigEIGHT, 8}} {
		if !c.v.IsInt64() || c.v.Int64() != c.want {
			return fmt.Sprintf("%s = %v", c.name, c.v)
		}
	}
	if SmallPrimesProduct.Uint64() != 16294579238595022365 || !SmallPrimesProduct.IsUint64() {
		return fmt.Sprintf("SmallPrimesProduct = %v", SmallPrimesProduct)
	}
	return ""
}

func TestVerifC19Aliasing(t *testing.T) {
	r := vkit.Start(t, "C19", "result-aliasing", 120*time.Second, 600*time.Second)
	defer r.Finish()
	defer r.Watch(300*time.Second, nil)()
	r.Rule = "ModInverse, ModPow, Crt, PrimeSqrt, ModSqrt, LegendreSymbol, SumFourSquares on every input of a small domain (moduli < 2^B, all residues; n < 2^(2B) for four squares): call, overwrite every returned integer in place (set to 987654321), call again with fresh arguments and compare with the first result's value and the brute-force reference; arguments unchanged by the call; package constants equal their literal values after every call; non-trivial = distinct (function, input)"
	B := int64(vkit.Pick(6, 8))
	r.Bounds["modulus_bits"] = B
	poison := func(vs ...*big.Int) {
		for _, v := range vs {
			if v != nil {
				v.SetInt64(987654321)
			}
		}
	}
	check := func(fn string, in []int64, args []*big.Int, what string) {
		for i, a := range args {
			if a != nil && (!a.IsInt64() || a.Int64() != in[i]) {
				r.Violate("C19|"+fn+"|argument-or-result-aliased", fmt.Sprintf("%s%v: argument %d is %v after %s", fn, in, i, a, what), in)
			}
		}
		if bad := c19ConstantsIntact(); bad != "" {
			r.Violate("C19|"+fn+"|package-constant-changed", fmt.Sprintf("%s%v: %s after %s", fn, in, bad, what), in)
			// repair so that the remaining cases are judged on their own
			bigZERO.SetInt64(0)
			bigONE.SetInt64(1)
			bigTWO.SetInt64(2)
			bigTHREE.SetInt64(3)
			bigFOUR.SetInt64(4)
			bigFIVE.SetInt64(5)
			bigEIGHT.SetInt64(8)
			SmallPrimesProduct.SetUint64(16294579238595022365)
		}
	}
	same := func(a, b *big.Int) bool { return (a == nil) == (b == nil) && (a == nil || a.Cmp(b) == 0) }
	for n := int64(2); n < 1<<B; n++ {
		if _, mine := r.Next(); !mine {
			continue
		}
		if r.Expired() {
			return
		}
		prime := c19isPrime(n)
		for a := int64(0); a < n; a++ {
			// ModInverse
			{
				in := []int64{a, n}
				x, y := bi(a), bi(n)
				v1, ok1 := ModInverse(x, y)
				var keep *big.Int
				if v1 != nil {
					keep = new(big.Int).Set(v1)
				}
				poison(v1)
				check("ModInverse", in, []*big.Int{x, y}, "overwriting the result")
				v2, ok2 := ModInverse(bi(a), bi(n))
				r.EvalN(2)
				if ok1 != ok2 || ok1 && !same(keep, v2) {
					r.Violate("C19|ModInverse|second-call-differs", fmt.Sprintf("ModInverse(%d,%d): %v/%v then %v/%v", a, n, keep, ok1, v2, ok2), in)
				}
				if ok1 && c19mod(keep.Int64()*a, n) != 1%n {
					r.Violate("C19|ModInverse|wrong-value", fmt.Sprint(in), in)
				}
				r.Nontrivial(fmt.Sprintf("inv|%d|%d", a, n))
			}
			// ModPow with exponents -2..3
			for e := int64(-2); e <= 3; e++ {
				in := []int64{a, e, n}
				x, y, m := bi(a), bi(e), bi(n)
				v1, err1 := ModPow(x, y, m)
				var keep *big.Int
				if v1 != nil {
					keep = new(big.Int).Set(v1)
				}
				poison(v1)
				check("ModPow", in, []*big.Int{x, y, m}, "overwriting the result")
				v2, err2 := ModPow(bi(a), bi(e), bi(n))
				r.EvalN(2)
				if (err1 == nil) != (err2 == nil) || err1 == nil && !same(keep, v2) {
					r.Violate("C19|ModPow|second-call-differs", fmt.Sprint(in), in)
				}
			}
			if prime && n > 2 {
				in := []int64{a, n}
				x, y := bi(a), bi(n)
				l1 := LegendreSymbol(x, y)
				check("LegendreSymbol", in, []*big.Int{x, y}, "the call")
				v1, ok1 := PrimeSqrt(x, y)
				var keep *big.Int
				if v1 != nil {
					keep = new(big.Int).Set(v1)
				}
				poison(v1)
				check("PrimeSqrt", in, []*big.Int{x, y}, "overwriting the result")
				v2, ok2 := PrimeSqrt(bi(a), bi(n))
				l2 := LegendreSymbol(bi(a), bi(n))
				r.EvalN(4)
				if ok1 != ok2 || ok1 && !same(keep, v2) || l1 != l2 {
					r.Violate("C19|PrimeSqrt|second-call-differs", fmt.Sprintf("PrimeSqrt(%d,%d): %v/%v then %v/%v", a, n, keep, ok1, v2, ok2), in)
				}
				if ok1 && c19mod(keep.Int64()*keep.Int64(), n) != a {
					r.Violate("C19|PrimeSqrt|wrong-value", fmt.Sprint(in), in)
				}
				r.Nontrivial(fmt.Sprintf("sqrt|%d|%d", a, n))
			}
		}
		// Crt and ModSqrt over pairs of small coprime primes
		if prime && n > 2 {
			for q := int64(3); q < n && q < 1<<(B-1); q++ {
				if !c19isPrime(q) {
					continue
				}
				for a := int64(0); a < n; a += 1 + n/7 {
					for b := int64(0); b < q; b += 1 + q/5 {
						in := []int64{a, n, b, q}
						x, pa, y, pb := bi(a), bi(n), bi(b), bi(q)
						v1 := Crt(x, pa, y, pb)
						keep := new(big.Int).Set(v1)
						poison(v1)
						check("Crt", in, []*big.Int{x, pa, y, pb}, "overwriting the result")
						v2 := Crt(bi(a), bi(n), bi(b), bi(q))
						r.EvalN(2)
						if !same(keep, v2) || c19mod(keep.Int64(), n) != a || c19mod(keep.Int64(), q) != b {
							r.Violate("C19|Crt|second-call-differs-or-wrong", fmt.Sprint(in), in)
						}
					}
				}
				for a := int64(0); a < n*q; a += 1 + n*q/40 {
					in := []int64{a, n, q}
					x, f1, f2 := bi(a), bi(n), bi(q)
					v1, ok1 := ModSqrt(x, []*big.Int{f1, f2})
					var keep *big.Int
					if v1 != nil {
						keep = new(big.Int).Set(v1)
					}
					poison(v1)
					check("ModSqrt", in, []*big.Int{x, f1, f2}, "overwriting the result")
					v2, ok2 := ModSqrt(bi(a), []*big.Int{bi(n), bi(q)})
					r.EvalN(2)
					if ok1 != ok2 || ok1 && !same(keep, v2) {
						r.Violate("C19|ModSqrt|second-call-differs", fmt.Sprintf("ModSqrt(%d, [%d %d]): %v/%v then %v/%v", a, n, q, keep, ok1, v2, ok2), in)
					}
					if ok1 && c19mod(keep.Int64()*keep.Int64(), n*q) != a {
						r.Violate("C19|ModSqrt|wrong-value", fmt.Sprint(in), in)
					}
				}
				r.Nontrivial(fmt.Sprintf("crt|%d|%d", n, q))
			}
		}
	}
	// four squares
	for n := int64(0); n < 1<<(2*B); n++ {
		if _, mine := r.Next(); !mine {
			continue
		}
		in := []int64{n}
		x := bi(n)
		a, b, c, d := SumFourSquares(x)
		ka, kb, kc, kd := a.Int64(), b.Int64(), c.Int64(), d.Int64()
		poison(a, b, c, d)
		check("SumFourSquares", in, []*big.Int{x}, "overwriting the results")
		a2, b2, c2, d2 := SumFourSquares(bi(n))
		r.EvalN(2)
		if ka*ka+kb*kb+kc*kc+kd*kd != n || a2.Int64() != ka || b2.Int64() != kb || c2.Int64() != kc || d2.Int64() != kd {
			r.Violate("C19|SumFourSquares|second-call-differs-or-wrong", fmt.Sprint(in), in)
		}
		if a == b || a == c || a == d || b == c || b == d || c == d {
			r.Violate("C19|SumFourSquares|results-share-one-object", fmt.Sprint(in), in)
		}
		r.Nontrivial(fmt.Sprintf("4sq|%d", n))
	}
}
