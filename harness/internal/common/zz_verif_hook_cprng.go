//go:build verif

package common

// Additive verification hooks (mounted by overlay only): make the process-wide fast random
// generator deterministic and observable.

// VerifSeedCPRNG replaces the global generator by one with a known key and counter 0.
func VerifSeedCPRNG(seed [32]byte) {
	c, err := NewCPRNG(&seed)
	if err != nil {
		panic(err)
	}
	globalCprng = c
}

// VerifCPRNGCounter returns the number of keystream blocks handed out so far.
func VerifCPRNGCounter() uint64 { return globalCprng.counter }
