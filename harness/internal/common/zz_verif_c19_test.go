//go:build verif

package common

// C19 — number-theoretic helpers compute what they claim.  Exhaustive small domains against
// brute-force int64 references; structured large operands against math/big.

import (
	"errors"
	"fmt"
	"io"
	mbig "math/big"
	"testing"
	"time"

	"github.com/privacybydesign/gabi/big"
	"github.com/privacybydesign/gabi/internal/verif/vkit"
)

func c19gcd(a, b int64) int64 {
	if a < 0 {
		a = -a
	}
	if b < 0 {
		b = -b
	}
	for b != 0 {
		a, b = b, a%b
	}
	return a
}

func c19mod(a, n int64) int64 {
	r := a % n
	if r < 0 {
		r += n
	}
	return r
}

func c19powmod(x, y, m int64) int64 {
	r := int64(1) % m
	x = c19mod(x, m)
	for i := int64(0); i < y; i++ {
		r = r * x % m
	}
	return r
}

func c19isPrime(n int64) bool {
	if n < 2 {
		return false
	}
	for d := int64(2); d*d <= n; d++ {
		if n%d == 0 {
			return false
		}
	}
	return true
}

func bi(x int64) *big.Int { return big.NewInt(x) }

func TestVerifC19ModInverseModPow(t *testing.T) {
	r := vkit.Start(t, "C19", "modinverse-modpow", 120*time.Second, 600*time.Second)
	defer r.Finish()
	defer r.Watch(300*time.Second, nil)() // every evaluation here is micro- to milliseconds of arithmetic
	tally := vkit.Tally{}
	defer tally.Flush(r)
	r.Rule = "ModInverse: all n in [2,2^9), all a in [0,n); ModPow: all m in [1,64), x in [0,64), y in [-8,8]; oracle: brute-force int64 reference incl. 'no inverse' reporting; non-trivial = distinct (function,args)"
	for n := int64(2); n < 512; n++ {
		if _, mine := r.Next(); !mine {
			continue
		}
		for a := int64(0); a < n; a++ {
			r.Eval()
			ia, ok := ModInverse(bi(a), bi(n))
			tally[fmt.Sprintf("ModInverse:exists=%v", ok)]++
			want := c19gcd(a, n) == 1
			r.Nontrivial(fmt.Sprintf("inv|%d|%d", a, n))
			if ok != want {
				r.Violate("C19|ModInverse|existence-misreported", fmt.Sprintf("ModInverse(%d,%d) ok=%v, gcd=%d", a, n, ok, c19gcd(a, n)), []int64{a, n})
				continue
			}
			if ok {
				v := ia.Int64()
				if !ia.IsInt64() || v <= 0 || v >= n || v*a%n != 1 {
					r.Violate("C19|ModInverse|wrong-inverse", fmt.Sprintf("ModInverse(%d,%d)=%v", a, n, ia), []int64{a, n})
				}
			}
		}
	}
	r.Sample(map[string]any{"fn": "ModInverse", "a": 7, "n": 40})
	for m := int64(1); m < 64; m++ {
		if _, mine := r.Next(); !mine {
			continue
		}
		for x := int64(0); x < 64; x++ {
			for y := int64(-8); y <= 8; y++ {
				r.Eval()
				r.Nontrivial(fmt.Sprintf("pow|%d|%d|%d", x, y, m))
				got, err := ModPow(bi(x), bi(y), bi(m))
				tally[fmt.Sprintf("ModPow:negative-exponent=%v:error=%v", y < 0, err != nil)]++
				if y < 0 && c19gcd(x, m) != 1 {
					if err == nil {
						r.Violate("C19|ModPow|missing-inverse-not-reported", fmt.Sprintf("ModPow(%d,%d,%d)=%v without error although gcd=%d", x, y, m, got, c19gcd(x, m)), []int64{x, y, m})
					} else if !errors.Is(err, ErrNoModInverse) {
						r.Count("ModPow other error", 1)
					}
					continue
				}
				if err != nil {
					r.Violate("C19|ModPow|spurious-error", fmt.Sprintf("ModPow(%d,%d,%d) err=%v", x, y, m, err), []int64{x, y, m})
					continue
				}
				var want int64
				if y >= 0 {
					want = c19powmod(x, y, m)
				} else {
					// inverse by search
					inv := int64(0)
					for c := int64(0); c < m; c++ {
						if c*x%m == 1%m {
							inv = c
							break
						}
					}
					want = c19powmod(inv, -y, m)
				}
				if !got.IsInt64() || got.Int64() != want {
					r.Violate("C19|ModPow|wrong-value", fmt.Sprintf("ModPow(%d,%d,%d)=%v want %d", x, y, m, got, want), []int64{x, y, m})
				}
			}
		}
	}
	r.Sample(map[string]any{"fn": "ModPow", "x": 3, "y": -5, "m": 35})
}

func TestVerifC19LegendreCrt(t *testing.T) {
	r := vkit.Start(t, "C19", "legendre-crt", 120*time.Second, 600*time.Second)
	defer r.Finish()
	defer r.Watch(300*time.Second, nil)() // every evaluation here is micro- to milliseconds of arithmetic
	tally := vkit.Tally{}
	defer tally.Flush(r)
	r.Rule = "LegendreSymbol vs math/big.Jacobi: all odd p in [1,2^12), a in [-p,2p]; Crt: all coprime pa,pb in [2,64), all residues; oracle: Jacobi / brute-force congruence check; non-trivial = distinct (function,args)"
	maxP := int64(vkit.Pick(1<<11, 1<<12))
	r.Bounds["legendre_max_p"] = maxP
	for p := int64(1); p < maxP; p += 2 {
		if _, mine := r.Next(); !mine {
			continue
		}
		for a := -p; a <= 2*p; a++ {
			r.Eval()
			got := LegendreSymbol(bi(a), bi(p))
			tally[fmt.Sprintf("LegendreSymbol=%d", got)]++
			want := mbig.Jacobi(mbig.NewInt(a), mbig.NewInt(p))
			if got != want {
				r.Violate("C19|LegendreSymbol|!=Jacobi", fmt.Sprintf("LegendreSymbol(%d,%d)=%d, Jacobi=%d", a, p, got, want), []int64{a, p})
			}
		}
		r.Nontrivial(fmt.Sprintf("leg|%d", p))
	}
	r.Sample(map[string]any{"fn": "LegendreSymbol", "a": -5, "p": 21})
	for pa := int64(2); pa < 64; pa++ {
		if _, mine := r.Next(); !mine {
			continue
		}
		for pb := int64(2); pb < 64; pb++ {
			if c19gcd(pa, pb) != 1 {
				continue
			}
			for a := int64(0); a < pa; a++ {
				for b := int64(0); b < pb; b++ {
					r.Eval()
					var x *big.Int
					if pan, msg := vkit.Guard(func() { x = Crt(bi(a), bi(pa), bi(b), bi(pb)) }); pan {
						r.Violate("C19|Crt|panic-on-coprime-input", msg, []int64{a, pa, b, pb})
						continue
					}
					v := x.Int64()
					if !x.IsInt64() || v < 0 || v >= pa*pb || v%pa != a || v%pb != b {
						r.Violate("C19|Crt|wrong-value", fmt.Sprintf("Crt(%d mod %d, %d mod %d)=%v", a, pa, b, pb, x), []int64{a, pa, b, pb})
					}
				}
			}
			r.Nontrivial(fmt.Sprintf("crt|%d|%d", pa, pb))
		}
	}
	r.Sample(map[string]any{"fn": "Crt", "a": 3, "pa": 7, "b": 10, "pb": 15})
}

func TestVerifC19Sqrt(t *testing.T) {
	r := vkit.Start(t, "C19", "primesqrt-modsqrt", 150*time.Second, 900*time.Second)
	defer r.Finish()
	defer r.Watch(300*time.Second, nil)() // every evaluation here is micro- to milliseconds of arithmetic
	tally := vkit.Tally{}
	defer tally.Flush(r)
	r.Rule = "PrimeSqrt: all primes p<2^12 (quick 2^11), 2 included, all a in [0,p); ModSqrt: every ordered list of <=3 pairwise coprime factors from {2, 4} U {odd primes<P} (P=24 quick, 48 thorough), all a in [0,n); oracle: existence by brute force, r^2=a mod n; non-trivial = distinct modulus/factor list"
	maxP := int64(vkit.Pick(1<<11, 1<<12))
	for p := int64(2); p < maxP; p++ {
		if !c19isPrime(p) {
			continue
		}
		if _, mine := r.Next(); !mine {
			continue
		}
		sq := map[int64]bool{}
		for x := int64(0); x < p; x++ {
			sq[x*x%p] = true
		}
		for a := int64(0); a < p; a++ {
			r.Eval()
			res, ok := PrimeSqrt(bi(a), bi(p))
			tally[fmt.Sprintf("PrimeSqrt:root-exists=%v", ok)]++
			if ok != sq[a] {
				r.Violate("C19|PrimeSqrt|existence-misreported", fmt.Sprintf("PrimeSqrt(%d,%d) ok=%v want %v", a, p, ok, sq[a]), []int64{a, p})
				continue
			}
			if ok {
				v := c19mod(res.Int64(), p)
				if !res.IsInt64() || v*v%p != a {
					r.Violate("C19|PrimeSqrt|wrong-root", fmt.Sprintf("PrimeSqrt(%d,%d)=%v", a, p, res), []int64{a, p})
				}
			}
		}
		r.Nontrivial(fmt.Sprintf("psqrt|%d", p))
	}
	r.Sample(map[string]any{"fn": "PrimeSqrt", "a": 2, "p": 17})
	P := int64(vkit.Pick(24, 48))
	facs := []int64{2, 4}
	for p := int64(3); p < P; p += 2 {
		if c19isPrime(p) {
			facs = append(facs, p)
		}
	}
	var lists [][]int64
	for _, a := range facs {
		lists = append(lists, []int64{a})
		for _, b := range facs {
			if a == b {
				continue
			}
			lists = append(lists, []int64{a, b})
			for _, c := range facs {
				if c == a || c == b {
					continue
				}
				lists = append(lists, []int64{a, b, c})
			}
		}
	}
	r.Bounds["modsqrt_factor_lists"] = len(lists)
	for _, fl := range lists {
		twos := 0
		for _, f := range fl {
			if f == 2 || f == 4 {
				twos++
			}
		}
		if twos > 1 {
			continue // 2 and 4 are not coprime
		}
		if _, mine := r.Next(); !mine {
			continue
		}
		if r.Expired() {
			return
		}
		n := int64(1)
		var fb []*big.Int
		for _, f := range fl {
			n *= f
			fb = append(fb, bi(f))
		}
		sq := make([]bool, n)
		for x := int64(0); x < n; x++ {
			sq[x*x%n] = true
		}
		for a := int64(0); a < n; a++ {
			r.Eval()
			var res *big.Int
			var ok bool
			pan, msg := vkit.Guard(func() { res, ok = ModSqrt(bi(a), fb) })
			tally[fmt.Sprintf("ModSqrt:factors=%d:root-exists=%v", len(fb), ok)]++
			if pan {
				r.Violate("C19|ModSqrt|panic", msg, map[string]any{"a": a, "factors": fl})
				continue
			}
			if ok != sq[a] {
				r.Violate("C19|ModSqrt|existence-misreported", fmt.Sprintf("ModSqrt(%d,%v) ok=%v want %v", a, fl, ok, sq[a]), map[string]any{"a": a, "factors": fl})
				continue
			}
			if ok {
				v := c19mod(res.Int64(), n)
				if !res.IsInt64() || v*v%n != a {
					r.Violate("C19|ModSqrt|wrong-root", fmt.Sprintf("ModSqrt(%d,%v)=%v", a, fl, res), map[string]any{"a": a, "factors": fl})
				}
			}
		}
		r.Nontrivial(fmt.Sprintf("msqrt|%v", fl))
	}
	r.Sample(map[string]any{"fn": "ModSqrt", "a": 9, "factors": []int64{4, 5, 7}})
}

func TestVerifC19FourSquares(t *testing.T) {
	r := vkit.Start(t, "C19", "sumfoursquares", 200*time.Second, 1200*time.Second)
	defer r.Finish()
	defer r.Watch(300*time.Second, nil)() // every evaluation here is micro- to milliseconds of arithmetic
	tally := vkit.Tally{}
	defer tally.Flush(r)
	r.Rule = "SumFourSquares: all n < 2^16 (quick) / 2^20 (thorough) plus the families 2^k, 2^k+-1, 2^k-c, 4^j*m for k up to 512; oracle: a^2+b^2+c^2+d^2 == n; non-trivial = distinct n"
	N := int64(vkit.Pick(1<<16, 1<<20))
	r.Bounds["exhaustive_below"] = N
	chunk := int64(1024)
	check := func(n *big.Int) {
		r.Eval()
		var a, b, c, d *big.Int
		pan, msg := vkit.Guard(func() { a, b, c, d = SumFourSquares(new(big.Int).Set(n)) })
		if !pan {
			nz := 0
			for _, v := range []*big.Int{a, b, c, d} {
				if v != nil && v.Sign() != 0 {
					nz++
				}
			}
			tally[fmt.Sprintf("SumFourSquares:nonzero-squares=%d", nz)]++
		}
		if pan {
			r.Violate("C19|SumFourSquares|panic", msg, n.String())
			return
		}
		s := new(big.Int)
		for _, v := range []*big.Int{a, b, c, d} {
			s.Add(s, new(big.Int).Mul(v, v))
		}
		if s.Cmp(n) != 0 {
			r.Violate("C19|SumFourSquares|wrong-sum|n mod 8="+fmt.Sprint(new(big.Int).And(n, bi(7))), fmt.Sprintf("SumFourSquares(%v)=(%v,%v,%v,%v), squares sum to %v", n, a, b, c, d, s), n.String())
		}
		for _, v := range []*big.Int{a, b, c, d} {
			if v.Sign() < 0 {
				r.Count("negative component", 1)
			}
		}
	}
	for lo := int64(0); lo < N; lo += chunk {
		if _, mine := r.Next(); !mine {
			continue
		}
		if r.Expired() {
			return
		}
		for n := lo; n < lo+chunk && n < N; n++ {
			check(bi(n))
		}
		r.Nontrivial(fmt.Sprintf("chunk|%d", lo))
	}
	r.Sample(map[string]any{"fn": "SumFourSquares", "n": "0..N-1 exhaustively"})
	for k := uint(17); k <= 512; k += 5 {
		if _, mine := r.Next(); !mine {
			continue
		}
		p := new(big.Int).Lsh(bi(1), k)
		for _, c := range []int64{0, 1, -1, 2, -2, 3, -3, 4, -4, 5, 6, 7, -7, 8, 12, 15, -15, 16} {
			check(new(big.Int).Add(p, bi(c)))
		}
		check(new(big.Int).Mul(p, bi(7)))
		check(new(big.Int).Mul(p, bi(15)))
		r.Nontrivial(fmt.Sprintf("family|%d", k))
	}
}

func TestVerifC19FastMod(t *testing.T) {
	r := vkit.Start(t, "C19", "fastmod", 200*time.Second, 1200*time.Second)
	defer r.Finish()
	defer r.Watch(300*time.Second, nil)() // every evaluation here is micro- to milliseconds of arithmetic
	tally := vkit.Tally{}
	defer tally.Flush(r)
	r.Rule = "FastMod: every modulus p in [2,2^B) (B=8 quick, 9 thorough) with every x in [-4p^2,4p^2], and every p in [2,2^12) with x in [-2p,4p] U [p^2-2p,p^2+2p] U [4p^2-2p,4p^2]; each once with ret distinct from x and once aliased; one object re-Set along every sequence of 2 moduli in [2,2^6) and 3 moduli in [2,2^4) (and sequences mixing production-sized 2^b-c with general moduli), checked after every Set; oracle: Euclidean x mod p; non-trivial = distinct p"
	B := uint(vkit.Pick(8, 9))
	r.Bounds["full_window_bits"] = B
	one := func(fm *FastMod, p, x int64) {
		r.EvalN(2)
		want := c19mod(x, p)
		tally["FastMod:x "+c19fmClass(p, x)]++
		var ret big.Int
		ret.SetInt64(12345) // pre-existing junk
		fm.Mod(&ret, bi(x))
		if !ret.IsInt64() || ret.Int64() != want {
			r.Violate("C19|FastMod|wrong-value|"+c19fmClass(p, x), fmt.Sprintf("FastMod(p=%d).Mod(ret,%d)=%v want %d", p, x, &ret, want), []int64{p, x})
		}
		al := bi(x)
		fm.Mod(al, al)
		if !al.IsInt64() || al.Int64() != want {
			r.Violate("C19|FastMod|wrong-value-aliased|"+c19fmClass(p, x), fmt.Sprintf("FastMod(p=%d).Mod(x,x) with x=%d gave %v want %d", p, x, al, want), []int64{p, x})
		}
	}
	for p := int64(2); p < 1<<12; p++ {
		if _, mine := r.Next(); !mine {
			continue
		}
		if r.Expired() {
			return
		}
		var fm FastMod
		fm.Set(bi(p))
		if p < 1<<B {
			for x := -4 * p * p; x <= 4*p*p; x++ {
				one(&fm, p, x)
			}
		} else {
			for x := -2 * p; x <= 4*p; x++ {
				one(&fm, p, x)
			}
			for x := p*p - 2*p; x <= p*p+2*p; x++ {
				one(&fm, p, x)
			}
			for x := 4*p*p - 2*p; x <= 4*p*p; x++ {
				one(&fm, p, x)
			}
		}
		r.Nontrivial(fmt.Sprintf("fm|%d", p))
	}
	r.Sample(map[string]any{"fn": "FastMod", "p": 251, "x": "[-4p^2,4p^2]"})
	// non-initial states: ONE FastMod object re-Set along every sequence of 2 moduli from [2,2^6) and of
	// 3 moduli from [2,2^4) (fast-shaped 2^b-c and general moduli in every order); after every Set the
	// object must behave like a fresh one
	window := func(fm *FastMod, p int64) {
		for x := -2 * p; x <= 4*p; x++ {
			one(fm, p, x)
		}
		for x := p*p - p; x <= p*p+p; x++ {
			one(fm, p, x)
		}
	}
	for p1 := int64(2); p1 < 1<<6; p1++ {
		if _, mine := r.Next(); !mine {
			continue
		}
		for p2 := int64(2); p2 < 1<<6; p2++ {
			var fm FastMod
			fm.Set(bi(p1))
			window(&fm, p1)
			fm.Set(bi(p2))
			window(&fm, p2)
			r.Nontrivial(fmt.Sprintf("fmseq|%d,%d", p1, p2))
			if p1 < 1<<4 && p2 < 1<<4 {
				for p3 := int64(2); p3 < 1<<4; p3++ {
					var f3 FastMod
					f3.Set(bi(p1))
					f3.Set(bi(p2))
					f3.Set(bi(p3))
					window(&f3, p3)
					r.Nontrivial(fmt.Sprintf("fmseq|%d,%d,%d", p1, p2, p3))
				}
			}
		}
	}
	// the same with the production-sized shapes: 2^b-c then a general modulus then 2^b'-c' on one object
	{
		mk := func(b uint, c int64) *big.Int { return new(big.Int).Sub(new(big.Int).Lsh(bi(1), b), bi(c)) }
		general := new(big.Int).Add(new(big.Int).Lsh(bi(0x5a5a5a5a5a5a5a5), 200), bi(12347))
		seqs := [][]*big.Int{{mk(787, 7341), general}, {general, mk(787, 7341)}, {mk(787, 7341), general, mk(127, 1)}, {mk(127, 1), mk(521, 1), general}, {mk(521, 1), mk(61, 1)}}
		for si, seq := range seqs {
			var fm FastMod
			for _, p := range seq {
				fm.Set(p)
				for _, x := range []*big.Int{new(big.Int).Mul(p, p), new(big.Int).Sub(new(big.Int).Mul(p, p), bi(1)), new(big.Int).Lsh(p, 900), new(big.Int).Neg(new(big.Int).Lsh(p, 300)), new(big.Int).Add(p, bi(1)), new(big.Int).Lsh(bi(1), 1000)} {
					r.EvalN(1)
					want := new(mbig.Int).Mod(x.Go(), p.Go())
					al := new(big.Int).Set(x)
					fm.Mod(al, al)
					if al.Go().Cmp(want) != 0 {
						r.Violate("C19|FastMod|wrong-value-after-re-Set", fmt.Sprintf("sequence %d: modulus of %d bits, x bits=%d sign=%d", si, p.BitLen(), x.BitLen(), x.Sign()), si)
					}
				}
			}
			r.Nontrivial(fmt.Sprintf("fmseqbig|%d", si))
		}
	}
	// huge arguments for the convenient-prime shaped moduli 2^b - c
	for _, bc := range [][2]int64{{787, 7341}, {127, 1}, {521, 1}, {64, 59}, {61, 1}, {255, 19}, {1008, 3317}} {
		p := new(big.Int).Sub(new(big.Int).Lsh(bi(1), uint(bc[0])), bi(bc[1]))
		var fm FastMod
		fm.Set(p)
		xs := []*big.Int{new(big.Int).Mul(p, p), new(big.Int).Sub(new(big.Int).Mul(p, p), bi(1)), new(big.Int).Lsh(p, 5000), new(big.Int).Neg(new(big.Int).Lsh(p, 700)), new(big.Int).Sub(p, bi(1)), new(big.Int).Set(p), new(big.Int).Add(p, bi(1)), new(big.Int).Sub(new(big.Int).Lsh(bi(1), uint(bc[0])), bi(1)), new(big.Int).Lsh(bi(1), uint(bc[0]))}
		for _, x := range xs {
			r.EvalN(1)
			want := new(mbig.Int).Mod(x.Go(), p.Go())
			al := new(big.Int).Set(x)
			fm.Mod(al, al)
			if al.Go().Cmp(want) != 0 {
				r.Violate("C19|FastMod|wrong-value-large", fmt.Sprintf("p=2^%d-%d x bits=%d sign=%d", bc[0], bc[1], x.BitLen(), x.Sign()), []int64{bc[0], bc[1]})
			}
		}
		r.Nontrivial(fmt.Sprintf("fmbig|%v", bc))
	}
}

func c19fmClass(p, x int64) string {
	switch {
	case x < 0:
		return "negative"
	case x < p:
		return "below-p"
	case x < 2*p:
		return "p..2p"
	default:
		return "large"
	}
}

type c19Reader struct {
	q [][]byte
}

func (c *c19Reader) Read(p []byte) (int, error) {
	if len(c.q) == 0 {
		return 0, io.EOF
	}
	n := copy(p, c.q[0])
	if n < len(c.q[0]) {
		c.q[0] = c.q[0][n:]
	} else {
		c.q = c.q[1:]
	}
	return n, nil
}

func TestVerifC19RandomPrime(t *testing.T) {
	r := vkit.Start(t, "C19", "randomprimeinrange", 150*time.Second, 600*time.Second)
	defer r.Finish()
	defer r.Watch(300*time.Second, nil)() // every evaluation here is micro- to milliseconds of arithmetic
	r.Rule = "RandomPrimeInRange(start in 2..14, length in 1..L (L=10 quick, 12 thorough)): every candidate byte string (scripted reader, then EOF); oracle: returned => prime and inside [2^start,2^start+2^length]; every odd prime in the interval is returned for some candidate; a candidate that encodes an odd prime in range is returned; non-trivial = distinct (start,length,candidate)"
	L := uint(vkit.Pick(10, 12))
	for start := uint(2); start <= 14; start++ {
		for length := uint(1); length <= L; length++ {
			if _, mine := r.Next(); !mine {
				continue
			}
			if r.Expired() {
				return
			}
			nb := int((length + 7) / 8)
			lo := int64(1) << start
			hi := lo + int64(1)<<length
			returned := map[int64]bool{}
			for cand := 0; cand < 1<<(8*nb); cand++ {
				bs := make([]byte, nb)
				for i := 0; i < nb; i++ {
					bs[nb-1-i] = byte(cand >> (8 * i))
				}
				r.Eval()
				p, err := RandomPrimeInRange(&c19Reader{q: [][]byte{bs}}, start, length)
				// what the candidate encodes per the documented algorithm: offset = cand masked to `length` bits, forced odd
				off := int64(cand) & (int64(1)<<length - 1)
				off |= 1
				enc := lo + off
				if err == nil {
					v := p.Int64()
					returned[v] = true
					if !c19isPrime(v) {
						r.Violate("C19|RandomPrimeInRange|returned-composite", fmt.Sprintf("start=%d length=%d candidate=%x returned %d", start, length, bs, v), []any{start, length, cand})
					}
					if v < lo || v > hi {
						r.Violate("C19|RandomPrimeInRange|outside-interval", fmt.Sprintf("start=%d length=%d candidate=%x returned %d not in [%d,%d]", start, length, bs, v, lo, hi), []any{start, length, cand})
					}
				} else if c19isPrime(enc) && enc <= hi {
					r.Violate("C19|RandomPrimeInRange|prime-candidate-discarded", fmt.Sprintf("start=%d length=%d candidate=%x encodes prime %d but was not returned (%v)", start, length, bs, enc, err), []any{start, length, cand})
				}
			}
			for v := lo | 1; v < hi; v += 2 {
				if c19isPrime(v) && !returned[v] {
					r.Violate("C19|RandomPrimeInRange|prime-unreachable", fmt.Sprintf("start=%d length=%d: prime %d in range is never returned", start, length, v), []any{start, length, v})
				}
			}
			r.Nontrivial(fmt.Sprintf("rp|%d|%d", start, length))
		}
	}
	r.Sample(map[string]any{"fn": "RandomPrimeInRange", "start": 6, "length": 9, "candidates": "all 65536 two-byte strings"})
	if _, err := RandomPrimeInRange(&c19Reader{}, 1, 4); err == nil {
		r.Violate("C19|RandomPrimeInRange|start<2-accepted", "start=1 must be refused", nil)
	}
}
