//go:build verif

package common

// C20 (b) — the process-wide fast random generator never hands the same keystream block to two
// callers.  2-3 threads x 1-2 reads of sizes {1,16,17,32,200} on a generator with a known key,
// every interleaving of the instrumented atomic step up to the preemption bound; each output is
// decrypted with the key to recover the counter values it was produced from.

import (
	"bytes"
	"crypto/aes"
	"encoding/binary"
	"fmt"
	"strings"
	"sync"
	"testing"
	"time"

	"github.com/privacybydesign/gabi/big"
	"github.com/privacybydesign/gabi/internal/verif/vkit"
	"github.com/privacybydesign/gabi/internal/verif/vsched"
)

type c20Read struct {
	thread, size int
	buf          []byte
	n            int
	err          error
	startT, endT int
}

var c20Key = [32]byte{1, 2, 3, 4, 5, 6, 7, 8, 9, 10, 11, 12, 13, 14, 15, 16, 17, 18, 19, 20, 21, 22, 23, 24, 25, 26, 27, 28, 29, 30, 31, 32}

// c20Judge recovers the counter interval of every read and checks disjointness, contiguity,
// total and real-time order.  Reads of >= 16 bytes are attributed by decrypting their first
// block; shorter reads are ambiguous by themselves (a 1-byte prefix matches many counters) and are
// attributed by a perfect matching onto the counters left uncovered by the others.
func c20Judge(reads []c20Read, finalCounter uint64, realTime bool) (string, string) {
	blk, _ := aes.NewCipher(c20Key[:])
	enc := func(c uint64) [16]byte {
		var in, ct [16]byte
		binary.LittleEndian.PutUint64(in[:], c)
		blk.Encrypt(ct[:], in[:])
		return ct
	}
	total := uint64(0)
	for i, r := range reads {
		if r.err != nil || r.n != r.size {
			return "read-failed", fmt.Sprintf("read %d: n=%d err=%v", i, r.n, r.err)
		}
		total += uint64((r.size-1)/16 + 1)
	}
	first := make([]int64, len(reads))
	owner := map[uint64]int{}
	var short []int
	for i, r := range reads {
		first[i] = -1
		if r.size < 16 {
			short = append(short, i)
			continue
		}
		var pt [16]byte
		blk.Decrypt(pt[:], r.buf[:16])
		f := binary.LittleEndian.Uint64(pt[:8])
		if !bytes.Equal(pt[8:], make([]byte, 8)) || f >= total+uint64(len(reads))+1024 {
			return "output-not-keystream", fmt.Sprintf("read %d: first block does not decrypt to a counter", i)
		}
		nb := uint64((r.size-1)/16 + 1)
		for b := uint64(0); b < nb; b++ {
			ct := enc(f + b)
			lo := int(b * 16)
			hi := lo + 16
			if hi > r.size {
				hi = r.size
			}
			if !bytes.Equal(ct[:hi-lo], r.buf[lo:hi]) {
				return "blocks-not-consecutive", fmt.Sprintf("read %d: block %d is not E(counter %d)", i, b, f+b)
			}
			if j, dup := owner[f+b]; dup {
				return "keystream-block-handed-out-twice", fmt.Sprintf("counter %d is in reads %d and %d", f+b, j, i)
			}
			owner[f+b] = i
		}
		first[i] = int64(f)
	}
	// short reads: perfect matching onto uncovered counters below total
	var holes []uint64
	for c := uint64(0); c < total; c++ {
		if _, ok := owner[c]; !ok {
			holes = append(holes, c)
		}
	}
	if len(holes) != len(short) {
		return "keystream-gap-or-overlap", fmt.Sprintf("%d counters below the total %d are not covered by full reads, but there are %d short reads", len(holes), total, len(short))
	}
	cand := make([][]int, len(short))
	for si, ri := range short {
		for hi, c := range holes {
			ct := enc(c)
			if bytes.Equal(ct[:reads[ri].size], reads[ri].buf) {
				cand[si] = append(cand[si], hi)
			}
		}
	}
	matchHole := make([]int, len(holes))
	for i := range matchHole {
		matchHole[i] = -1
	}
	var try func(si int, seen []bool) bool
	try = func(si int, seen []bool) bool {
		for _, h := range cand[si] {
			if seen[h] {
				continue
			}
			seen[h] = true
			if matchHole[h] < 0 || try(matchHole[h], seen) {
				matchHole[h] = si
				return true
			}
		}
		return false
	}
	for si := range short {
		if !try(si, make([]bool, len(holes))) {
			return "keystream-block-handed-out-twice", fmt.Sprintf("short read %d (%d bytes) cannot be attributed to a counter not used by another read", short[si], reads[short[si]].size)
		}
	}
	for h, si := range matchHole {
		first[short[si]] = int64(holes[h])
	}
	if realTime {
		for i := range reads {
			for j := range reads {
				if i != j && reads[i].endT < reads[j].startT && first[i] > first[j] {
					// ambiguous short reads could be swapped among equal-prefix holes; only definite ones are judged
					if reads[i].size >= 16 && reads[j].size >= 16 {
						return "real-time-order-violated", fmt.Sprintf("read %d returned before read %d started but reserved later counters", i, j)
					}
				}
			}
		}
	}
	if finalCounter != total {
		return "final-counter-wrong", fmt.Sprintf("counter=%d, blocks handed out=%d", finalCounter, total)
	}
	return "", ""
}

func TestVerifC20CPRNG(t *testing.T) {
	r := vkit.Start(t, "C20", "cprng", 200*time.Second, 900*time.Second)
	defer r.Finish()
	r.Rule = "CPRNG.Read on a generator with known key: thread configurations (2 or 3 threads, 1-2 reads each, sizes from {1,16,17,32,200}); every interleaving of the atomic reservation step with <= B preemptions; non-trivial = distinct (configuration, schedule); oracle: each output decrypts to consecutive counters, intervals pairwise disjoint and gap-free, final counter = sum, real-time order respected (linearizable w.r.t. a sequential counter)"
	bound := vkit.Pick(2, 3)
	r.Bounds["max_preemptions"] = bound
	sizes := []int{1, 16, 17, 32, 200}
	var configs [][][]int
	for _, a := range sizes {
		for _, b := range sizes {
			configs = append(configs, [][]int{{a}, {b}})
			configs = append(configs, [][]int{{a, b}, {b}})
		}
	}
	configs = append(configs, [][]int{{1}, {17}, {200}}, [][]int{{16, 1}, {32}, {17}}, [][]int{{200, 200}, {1, 1}, {16}})
	deadline := time.Now().Add(time.Duration(r.Bounds["budget_s"].(float64)) * time.Second)
	for ci, cfg := range configs {
		if !r.Mine(ci) {
			continue
		}
		var reads []c20Read
		var gen *CPRNG
		fresh := func() vsched.Scenario {
			reads = nil
			gen, _ = NewCPRNG(&c20Key)
			clock := 0
			var mu sync.Mutex
			return vsched.Scenario{Body: func() {
				done := make(chan struct{}, len(cfg))
				for ti, szs := range cfg {
					ti, szs := ti, szs
					vsched.Go(func() {
						for _, sz := range szs {
							buf := make([]byte, sz)
							mu.Lock()
							clock++
							st := clock
							mu.Unlock()
							n, err := gen.Read(buf)
							mu.Lock()
							clock++
							reads = append(reads, c20Read{ti, sz, buf, n, err, st, clock})
							mu.Unlock()
						}
						vsched.Send(done)
						done <- struct{}{}
						vsched.SendDone(done)
					})
				}
				for range cfg {
					vsched.Recv(done)
					<-done
				}
			}, Check: func(x *vsched.Exec) {
				r.Eval()
				r.Nontrivial(fmt.Sprintf("%d|%v", ci, x.Choices))
				sig, detail := "", ""
				if len(x.Panics) > 0 {
					sig, detail = "panic", strings.Join(x.Panics, ";")
				} else if x.Deadlock {
					sig, detail = "deadlock", strings.Join(x.Blocked, ";")
				} else {
					sig, detail = c20Judge(reads, gen.counter, true)
				}
				if sig == "" {
					// order of reservations = distinct end state
					var order []string
					for _, rd := range reads {
						order = append(order, fmt.Sprint(rd.thread))
					}
					r.Outcome("ok|completion-order=" + strings.Join(order, ""))
					return
				}
				r.Outcome(sig)
				r.Violate("C20|cprng|"+sig, fmt.Sprintf("config %v schedule %v: %s", cfg, x.Choices, detail), map[string]any{"config": cfg, "choices": x.Choices, "trace": x.Trace})
			}}
		}
		res := vsched.Explore(vsched.Options{MaxPreemptions: bound, Deadline: deadline}, fresh)
		r.Schedules += int64(res.Executions)
		r.States += res.Points
		r.Transitions += res.Points
		r.Traces += int64(res.Executions)
		if ci%10 == 1 || len(cfg) == 3 {
			r.Sample(map[string]any{"config": cfg, "executions": res.Executions, "scheduling_points": res.Points, "complete": res.Complete})
		}
		if res.Diverged != "" {
			r.HarnessError("config %v: %s", cfg, res.Diverged)
			return
		}
		if !res.Complete {
			r.Cap(fmt.Sprintf("config %v: %s", cfg, res.Cap))
		}
	}
	// FastRandomBigInt on the global generator is what callers use: sequential sanity that it
	// draws from the instrumented Read (counter advances)
	VerifSeedCPRNG(c20Key)
	before := VerifCPRNGCounter()
	_ = FastRandomBigInt(new(big.Int).Lsh(big.NewInt(1), 300))
	if VerifCPRNGCounter() == before {
		r.Violate("C20|cprng|global-generator-not-used", "FastRandomBigInt did not advance the global counter", nil)
	}
}

// free-running body for the race pass
func TestVerifC20RaceCPRNG(t *testing.T) {
	r := vkit.Start(t, "C20", "race-pass-cprng", 100*time.Second, 600*time.Second)
	defer r.Finish()
	r.Rule = "free-running -race pass: 2..64 goroutines x reads of 1..200 bytes on one generator, barrier-released; oracle: the keystream-interval judge on the collected outputs + race detector; non-trivial = distinct (goroutines,repetition)"
	reps := vkit.Pick(10, 100)
	for _, gs := range []int{2, 8, 64} {
		for rep := 0; rep < reps; rep++ {
			gen, _ := NewCPRNG(&c20Key)
			var mu sync.Mutex
			var reads []c20Read
			var wg sync.WaitGroup
			start := make(chan struct{})
			for g := 0; g < gs; g++ {
				g := g
				wg.Add(1)
				go func() {
					defer wg.Done()
					<-start
					for _, sz := range []int{1 + g%200, 16, 17} {
						buf := make([]byte, sz)
						n, err := gen.Read(buf)
						mu.Lock()
						reads = append(reads, c20Read{g, sz, buf, n, err, 0, 0})
						mu.Unlock()
					}
				}()
			}
			close(start)
			wg.Wait()
			r.Eval()
			r.Nontrivial(fmt.Sprintf("%d|%d", gs, rep))
			if sig, detail := c20Judge(reads, gen.counter, false); sig != "" {
				r.Violate("C20|cprng|"+sig+"|free-running", detail, map[string]any{"goroutines": gs})
			}
		}
	}
	r.Sample(map[string]any{"goroutines": []int{2, 8, 64}, "repetitions": reps})
}
