//go:build verif

package common

// C20 — the arithmetic and hashing helpers under concurrent callers (free-running -race pass).
//
// Key generation, key proofs and provers running in parallel all end up in these helpers.  Inside the
// full operations the race detector is often blinded by incidental synchronisation (the atomic counter
// of the random generator orders the goroutines), so the helpers are also hammered directly: G
// goroutines run the same list of calls with nothing between them but a start barrier; every result is
// compared with the one computed sequentially beforehand, and the race detector watches.

import (
	"fmt"
	"os"
	"sync"
	"testing"
	"time"

	"github.com/privacybydesign/gabi/big"
	"github.com/privacybydesign/gabi/internal/verif/vkit"
)

func TestVerifC20RaceHelpers(t *testing.T) {
	prop := vkit.PropertyOr("C20")
	r := vkit.Start(t, prop, "race-pass-helpers", 200*time.Second, 600*time.Second)
	defer r.Finish()
	r.Rule = "free-running -race pass (detector over observed executions, not exhaustive): ModInverse, ModPow, LegendreSymbol, Crt, PrimeSqrt, ModSqrt, SumFourSquares, RepresentToBases (incl. messages longer than l_m), HashCommit, GetHashNumber, IntHashSha256, RandomBigInt, FastMod (one object per goroutine) called by 2..16 goroutines with no synchronisation between the calls; non-trivial = distinct (function, goroutines); oracle: every result equals the sequentially computed one (RandomBigInt: in range, and no two goroutines draw the same 256-bit value); race detector silent"
	if os.Getenv("VERIF_RACE") == "" {
		r.Note("built without -race: this sub-check then only validates results")
	}
	p, q := big.NewInt(10007), big.NewInt(10039)
	n := new(big.Int).Mul(p, q)
	bigp, _ := new(big.Int).SetString("170141183460469231731687303715884105727", 10) // 2^127-1
	long := new(big.Int).Lsh(big.NewInt(0x1234567), 300)
	long2 := new(big.Int).Lsh(big.NewInt(0x7654321), 333)
	bases := []*big.Int{big.NewInt(4), big.NewInt(9), big.NewInt(25), big.NewInt(49)}
	type call struct {
		name string
		f    func(i int) string
	}
	calls := []call{
		{"ModInverse", func(i int) string { v, ok := ModInverse(big.NewInt(int64(3+i)), n); return fmt.Sprint(v, ok) }},
		{"ModPow", func(i int) string {
			v, err := ModPow(big.NewInt(int64(2+i)), big.NewInt(int64(i-50)), n)
			return fmt.Sprint(v, err)
		}},
		{"LegendreSymbol", func(i int) string {
			return fmt.Sprint(LegendreSymbol(big.NewInt(int64(i*7+1)), p), LegendreSymbol(new(big.Int).Lsh(big.NewInt(int64(i+3)), 70), bigp))
		}},
		{"Crt", func(i int) string { return Crt(big.NewInt(int64(i)), p, big.NewInt(int64(2*i+1)), q).String() }},
		{"PrimeSqrt", func(i int) string { v, ok := PrimeSqrt(big.NewInt(int64(i*i+i)), p); return fmt.Sprint(v, ok) }},
		{"ModSqrt", func(i int) string {
			v, ok := ModSqrt(big.NewInt(int64(i*i)), []*big.Int{p, q})
			return fmt.Sprint(v, ok)
		}},
		{"SumFourSquares", func(i int) string {
			a, b, c, d := SumFourSquares(big.NewInt(int64(1000 + 37*i)))
			return fmt.Sprint(a, b, c, d)
		}},
		{"RepresentToBases", func(i int) string {
			return RepresentToBases(bases, []*big.Int{big.NewInt(int64(i)), long, big.NewInt(5), long2}, n, 256).String()
		}},
		{"HashCommit", func(i int) string { return HashCommit([]*big.Int{big.NewInt(int64(i)), long, n}, i%2 == 0).String() }},
		{"GetHashNumber", func(i int) string { return GetHashNumber(big.NewInt(int64(i)), long, i, 600).String() }},
		{"IntHashSha256", func(i int) string { return IntHashSha256([]byte{byte(i), 1, 2, 3}).String() }},
		{"FastMod", func(i int) string {
			var fm FastMod
			fm.Set(bigp)
			ret := new(big.Int)
			fm.Mod(ret, new(big.Int).Lsh(big.NewInt(int64(i+1)), 400))
			return ret.String()
		}},
	}
	const N = 200
	for _, c := range calls {
		want := make([]string, N)
		for i := range want {
			want[i] = c.f(i)
		}
		for _, gs := range []int{2, 4, 16} {
			r.Eval()
			r.Nontrivial(fmt.Sprintf("%s|%d", c.name, gs))
			var wg sync.WaitGroup
			start := make(chan struct{})
			bad := make([]string, gs)
			for g := 0; g < gs; g++ {
				g := g
				wg.Add(1)
				go func() {
					defer wg.Done()
					<-start
					for rep := 0; rep < 3; rep++ {
						for i := 0; i < N; i++ {
							if got := c.f(i); got != want[i] && bad[g] == "" {
								bad[g] = fmt.Sprintf("%s(case %d) = %s, sequentially %s", c.name, i, got, want[i])
							}
						}
					}
				}()
			}
			close(start)
			wg.Wait()
			ok := true
			for _, b := range bad {
				if b != "" {
					ok = false
					r.Violate(prop+"|helper-result-differs-under-concurrent-callers|"+c.name, b, map[string]any{"function": c.name, "goroutines": gs})
					break
				}
			}
			r.Outcome(fmt.Sprintf("%s:goroutines=%d:results as sequential=%v", c.name, gs, ok))
		}
	}
	// RandomBigInt: values of concurrent callers must differ
	for _, gs := range []int{2, 4, 16} {
		r.Eval()
		r.Nontrivial(fmt.Sprintf("RandomBigInt|%d", gs))
		var wg sync.WaitGroup
		start := make(chan struct{})
		vals := make([][]string, gs)
		for g := 0; g < gs; g++ {
			g := g
			wg.Add(1)
			go func() {
				defer wg.Done()
				<-start
				for i := 0; i < 2000; i++ {
					v, err := RandomBigInt(256)
					if err != nil || v.BitLen() > 256 || v.Sign() < 0 {
						vals[g] = append(vals[g], "bad")
						continue
					}
					vals[g] = append(vals[g], v.String())
				}
			}()
		}
		close(start)
		wg.Wait()
		seen := map[string]int{}
		dup := false
		for g, l := range vals {
			for _, v := range l {
				if v == "bad" {
					r.Violate(prop+"|RandomBigInt-out-of-range-under-concurrent-callers", "", gs)
				} else if h, ok := seen[v]; ok && !dup {
					dup = true
					r.Violate(prop+"|RandomBigInt-same-value-for-two-callers", fmt.Sprintf("goroutines %d and %d drew the same 256-bit value", h, g), gs)
				}
				seen[v] = g
			}
		}
		r.Outcome(fmt.Sprintf("RandomBigInt:goroutines=%d:all values distinct=%v", gs, !dup))
	}
}
