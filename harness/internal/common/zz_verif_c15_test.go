//go:build verif

package common

// C15 — Fiat-Shamir challenge encoding equals its specification.
//
// Reference: hand-written DER (no encoding/asn1) + SHA-256.  Everything below is exhaustive
// enumeration of a finite alphabet of integers / list shapes, compared case by case with the
// implementation (common.HashCommit, common.GetHashNumber, common.IntHashSha256).

import (
	"bytes"
	"crypto/sha256"
	"fmt"
	mbig "math/big"
	"testing"
	"time"

	"github.com/privacybydesign/gabi/big"
	"github.com/privacybydesign/gabi/internal/verif/vkit"
)

// ---- reference -------------------------------------------------------------------------

func c15RefLen(n int) []byte {
	if n < 128 {
		return []byte{byte(n)}
	}
	var b []byte
	for x := n; x > 0; x >>= 8 {
		b = append([]byte{byte(x)}, b...)
	}
	return append([]byte{0x80 | byte(len(b))}, b...)
}

// minimal two's complement content octets of v
func c15RefIntContent(v *mbig.Int) []byte {
	switch v.Sign() {
	case 0:
		return []byte{0}
	case 1:
		b := v.Bytes()
		if b[0]&0x80 != 0 {
			b = append([]byte{0}, b...)
		}
		return b
	default:
		// two's complement: ^(|v|-1)
		m := new(mbig.Int).Neg(v)
		m.Sub(m, mbig.NewInt(1))
		b := m.Bytes()
		for i := range b {
			b[i] ^= 0xff
		}
		if len(b) == 0 || b[0]&0x80 == 0 {
			b = append([]byte{0xff}, b...)
		}
		return b
	}
}

func c15RefInt(v *mbig.Int) []byte {
	c := c15RefIntContent(v)
	out := append([]byte{0x02}, c15RefLen(len(c))...)
	return append(out, c...)
}

func c15RefEncode(values []*mbig.Int, issig bool) []byte {
	var body []byte
	if issig {
		body = append(body, 0x01, 0x01, 0xff)
	}
	body = append(body, c15RefInt(mbig.NewInt(int64(len(values))))...)
	for _, v := range values {
		body = append(body, c15RefInt(v)...)
	}
	out := append([]byte{0x30}, c15RefLen(len(body))...)
	return append(out, body...)
}

func c15RefHash(values []*mbig.Int, issig bool) *mbig.Int {
	h := sha256.Sum256(c15RefEncode(values, issig))
	return new(mbig.Int).SetBytes(h[:])
}

func c15ToGabi(vs []*mbig.Int) []*big.Int {
	out := make([]*big.Int, len(vs))
	for i, v := range vs {
		out[i] = big.Convert(new(mbig.Int).Set(v))
	}
	return out
}

// ---- alphabet ----------------------------------------------------------------------------

func c15Pow2(k int) *mbig.Int { return new(mbig.Int).Lsh(mbig.NewInt(1), uint(k)) }

func c15Alphabet(full bool) []*mbig.Int {
	var a []*mbig.Int
	add := func(v *mbig.Int) { a = append(a, v) }
	for _, s := range []int64{0, 1, -1, 2, 127, 128, 255, 256, -128, -129, -127, -255, -256, -257, 32767, 32768, -32768, -32769, 65535, 65536,
		1<<31 - 1, 1 << 31, -(1 << 31), -(1 << 31) - 1, 1<<32 - 1, 1 << 32} {
		add(mbig.NewInt(s))
	}
	// machine-word boundaries
	for _, k := range []int{63, 64} {
		p := c15Pow2(k)
		add(new(mbig.Int).Sub(p, mbig.NewInt(1)))
		add(p)
		add(new(mbig.Int).Neg(p))
		add(new(mbig.Int).Neg(new(mbig.Int).Add(p, mbig.NewInt(1))))
	}
	ks := []int{8 * 126, 8 * 127, 8 * 128, 8 * 255, 8 * 256, 5000}
	if !full {
		ks = []int{8 * 127, 8 * 128, 5000}
	}
	for _, k := range ks {
		p := c15Pow2(k)
		add(new(mbig.Int).Sub(p, mbig.NewInt(1)))
		add(p)
		add(new(mbig.Int).Add(p, mbig.NewInt(1)))
		if full {
			add(new(mbig.Int).Neg(p))
			add(new(mbig.Int).Neg(new(mbig.Int).Add(p, mbig.NewInt(1))))
		}
		// 2^(k-1): top byte 0x80, needs the extra zero octet
		add(c15Pow2(k - 1))
	}
	return a
}

type c15Case struct {
	Marker bool     `json:"marker"`
	List   []string `json:"list_hex"`
}

func c15Describe(vs []*mbig.Int, issig bool) c15Case {
	c := c15Case{Marker: issig}
	for _, v := range vs {
		s := v.Text(16)
		if len(s) > 40 {
			s = fmt.Sprintf("%s…(%d bits)", s[:16], v.BitLen())
		}
		c.List = append(c.List, s)
	}
	return c
}

// ---- checks ------------------------------------------------------------------------------

func TestVerifC15Lists(t *testing.T) {
	r := vkit.Start(t, "C15", "hashcommit-lists", 150*time.Second, 900*time.Second)
	defer r.Finish()
	r.Rule = "every list of length<=3 (quick: len 3 over the reduced alphabet) over a DER-boundary alphabet x both markers; non-trivial = list whose reference encoding is new; oracle: HashCommit == hand-written DER+SHA-256 reference, and digests pairwise distinct across distinct (marker,list)"
	full := c15Alphabet(true)
	small := c15Alphabet(false)
	r.Bounds["alphabet_full"] = len(full)
	r.Bounds["alphabet_len3"] = vkit.Pick(len(small), len(full))
	seen := map[[32]byte]string{}
	check := func(vs []*mbig.Int, issig bool) {
		idx, mine := r.Next()
		_ = idx
		if !mine {
			return
		}
		r.Eval()
		enc := c15RefEncode(vs, issig)
		want := new(mbig.Int).SetBytes(func() []byte { h := sha256.Sum256(enc); return h[:] }())
		var got *big.Int
		if p, msg := vkit.Guard(func() { got = HashCommit(c15ToGabi(vs), issig) }); p {
			r.Violate("C15|hashcommit-panic", msg, c15Describe(vs, issig))
			return
		}
		r.Nontrivial(string(enc))
		r.Sample(c15Describe(vs, issig))
		r.Outcome(fmt.Sprintf("HashCommit:marker=%v:DER length form=%s:equals reference=%v", issig, c15LenForm(len(enc)), got != nil && got.Go().Cmp(want) == 0))
		if got.Go().Cmp(want) != 0 {
			r.Violate("C15|hashcommit!=reference|"+c15Class(vs, issig), fmt.Sprintf("HashCommit=%x reference=%x", got.Go(), want), c15Describe(vs, issig))
		}
		var d [32]byte
		copy(d[32-len(got.Bytes()):], got.Bytes())
		key := string(enc)
		if prev, ok := seen[d]; ok && prev != key {
			r.Violate("C15|digest-collision", "two different (marker,list) inputs gave the same challenge", c15Describe(vs, issig))
		}
		seen[d] = key
	}
	for _, issig := range []bool{false, true} {
		check(nil, issig)
		for _, a := range full {
			check([]*mbig.Int{a}, issig)
			for _, b := range full {
				check([]*mbig.Int{a, b}, issig)
			}
		}
		l3 := vkit.Pick(small, full)
		for _, a := range l3 {
			if r.Expired() {
				return
			}
			for _, b := range l3 {
				for _, c := range l3 {
					check([]*mbig.Int{a, b, c}, issig)
				}
			}
		}
	}
}

func c15Class(vs []*mbig.Int, issig bool) string {
	neg := false
	big_ := false
	for _, v := range vs {
		if v.Sign() < 0 {
			neg = true
		}
		if v.BitLen() > 64 {
			big_ = true
		}
	}
	return fmt.Sprintf("marker=%v,len=%d,neg=%v,big=%v", issig, len(vs), neg, big_)
}

// distinctness under local perturbations: marker, count, order, any one integer
func TestVerifC15Perturb(t *testing.T) {
	r := vkit.Start(t, "C15", "hashcommit-perturb", 60*time.Second, 300*time.Second)
	defer r.Finish()
	r.Rule = "for every base list (len 1..4 over a 12-value alphabet): flip marker, drop/duplicate each element, swap each adjacent pair, +-1 on each element, append 0, prepend count; oracle: digest differs from the base digest iff the (marker,list) differs; non-trivial = perturbation that changes the value"
	alpha := []*mbig.Int{mbig.NewInt(0), mbig.NewInt(1), mbig.NewInt(-1), mbig.NewInt(127), mbig.NewInt(128), mbig.NewInt(255), mbig.NewInt(256),
		c15Pow2(1016), new(mbig.Int).Sub(c15Pow2(1024), mbig.NewInt(1)), c15Pow2(2047), mbig.NewInt(2), mbig.NewInt(3)}
	maxLen := vkit.Pick(3, 4)
	r.Bounds["max_len"] = maxLen
	var rec func(cur []*mbig.Int)
	same := func(a, b []*mbig.Int) bool {
		if len(a) != len(b) {
			return false
		}
		for i := range a {
			if a[i].Cmp(b[i]) != 0 {
				return false
			}
		}
		return true
	}
	cmpCase := func(base []*mbig.Int, bm bool, alt []*mbig.Int, am bool, what string) {
		r.Eval()
		h1 := HashCommit(c15ToGabi(base), bm)
		h2 := HashCommit(c15ToGabi(alt), am)
		changed := bm != am || !same(base, alt)
		r.Outcome(fmt.Sprintf("perturbation:%s:input changed=%v:digest changed=%v", what, changed, h1.Cmp(h2) != 0))
		if changed {
			r.Nontrivial(string(c15RefEncode(base, bm)) + "|" + string(c15RefEncode(alt, am)))
		}
		if changed && h1.Cmp(h2) == 0 {
			r.Violate("C15|perturbation-not-reflected|"+what, "digest unchanged although "+what, []any{c15Describe(base, bm), c15Describe(alt, am)})
		}
		if !changed && h1.Cmp(h2) != 0 {
			r.Violate("C15|nondeterministic", "same input, different digest", c15Describe(base, bm))
		}
	}
	rec = func(cur []*mbig.Int) {
		if len(cur) >= 1 {
			if _, mine := r.Next(); mine {
				r.Sample(c15Describe(cur, false))
				for _, m := range []bool{false, true} {
					cmpCase(cur, m, cur, !m, "marker flipped")
					for i := range cur {
						drop := append(append([]*mbig.Int{}, cur[:i]...), cur[i+1:]...)
						cmpCase(cur, m, drop, m, "element dropped")
						dup := append(append(append([]*mbig.Int{}, cur[:i+1]...), cur[i]), cur[i+1:]...)
						cmpCase(cur, m, dup, m, "element duplicated")
						for _, d := range []int64{1, -1} {
							alt := append([]*mbig.Int{}, cur...)
							alt[i] = new(mbig.Int).Add(cur[i], mbig.NewInt(d))
							cmpCase(cur, m, alt, m, "element +-1")
						}
						if i+1 < len(cur) {
							alt := append([]*mbig.Int{}, cur...)
							alt[i], alt[i+1] = alt[i+1], alt[i]
							cmpCase(cur, m, alt, m, "adjacent swap")
						}
					}
					cmpCase(cur, m, append(append([]*mbig.Int{}, cur...), mbig.NewInt(0)), m, "zero appended")
					// count confusion: [n-1 elems] vs. list whose first element equals the count
					cmpCase(cur, m, append([]*mbig.Int{mbig.NewInt(int64(len(cur)))}, cur...), m, "count prepended as element")
				}
			}
		}
		if len(cur) == maxLen || r.Expired() {
			return
		}
		for _, a := range alpha {
			rec(append(append([]*mbig.Int{}, cur...), a))
		}
	}
	rec(nil)
}

func TestVerifC15Sizes(t *testing.T) {
	r := vkit.Start(t, "C15", "hashcommit-sizes", 120*time.Second, 600*time.Second)
	defer r.Finish()
	r.Rule = "list lengths 0..300 of small entries; single integers of every content size 0..700 bytes and 65530..65540 bytes in the four patterns 7F.., 80.., FF.., 01 00..; non-trivial = distinct reference encoding; oracle: equality with reference"
	one := func(vs []*mbig.Int, issig bool, class string) {
		r.Eval()
		enc := c15RefEncode(vs, issig)
		h := sha256.Sum256(enc)
		got := HashCommit(c15ToGabi(vs), issig)
		r.Nontrivial(string(h[:]))
		r.Outcome(fmt.Sprintf("sizes:%s:DER length form=%s", class, c15LenForm(len(enc))))
		if !bytes.Equal(got.Bytes(), new(mbig.Int).SetBytes(h[:]).Bytes()) {
			r.Violate("C15|hashcommit!=reference|"+class, fmt.Sprintf("%s: HashCommit=%x reference=%x (reference encoding %d bytes)", class, got.Go(), h, len(enc)), map[string]any{"class": class, "marker": issig, "n": len(vs), "bits0": func() int {
				if len(vs) > 0 {
					return vs[0].BitLen()
				}
				return 0
			}()})
		}
	}
	for _, issig := range []bool{false, true} {
		for n := 0; n <= 300; n++ {
			if _, mine := r.Next(); !mine {
				continue
			}
			vs := make([]*mbig.Int, n)
			for i := range vs {
				vs[i] = mbig.NewInt(int64(i % 5))
			}
			one(vs, issig, "length-sweep")
			if n == 129 {
				r.Sample(map[string]any{"marker": issig, "list": "129 entries i%5"})
			}
		}
		sizes := []int{}
		for k := 0; k <= 700; k++ {
			sizes = append(sizes, k)
		}
		for k := 65530; k <= 65540; k++ {
			sizes = append(sizes, k)
		}
		for _, k := range sizes {
			if _, mine := r.Next(); !mine {
				continue
			}
			if r.Expired() {
				return
			}
			var pats []*mbig.Int
			if k == 0 {
				pats = []*mbig.Int{mbig.NewInt(0)}
			} else {
				b7f := bytes.Repeat([]byte{0xff}, k)
				b7f[0] = 0x7f
				b80 := make([]byte, k)
				b80[0] = 0x80
				bff := bytes.Repeat([]byte{0xff}, k)
				b01 := make([]byte, k)
				b01[0] = 0x01
				for _, b := range [][]byte{b7f, b80, bff, b01} {
					pats = append(pats, new(mbig.Int).SetBytes(b))
				}
				pats = append(pats, new(mbig.Int).Neg(new(mbig.Int).SetBytes(b80)), new(mbig.Int).Neg(new(mbig.Int).SetBytes(b7f)))
			}
			for _, p := range pats {
				one([]*mbig.Int{p}, issig, "size-sweep")
				one([]*mbig.Int{mbig.NewInt(5), p, mbig.NewInt(7)}, issig, "size-sweep-mid")
			}
			if k == 128 {
				r.Sample(map[string]any{"marker": issig, "content_bytes": k, "patterns": "7F.. 80.. FF.. 01.. -80.. -7F.."})
			}
		}
	}
}

func c15RefHashNumber(a, b *mbig.Int, index int, bitlen uint) *mbig.Int {
	var base []*mbig.Int
	if a != nil {
		base = append(base, a)
	}
	if b != nil {
		base = append(base, b)
	}
	base = append(base, mbig.NewInt(int64(index)))
	res := new(mbig.Int)
	for j, k := 0, uint(0); k < bitlen; j, k = j+1, k+256 {
		in := append(append([]*mbig.Int{}, base...), mbig.NewInt(int64(j)))
		h := c15RefHash(in, false)
		res.Add(res, h.Lsh(h, k))
	}
	return res
}

func TestVerifC15HashNumber(t *testing.T) {
	r := vkit.Start(t, "C15", "gethashnumber", 120*time.Second, 600*time.Second)
	defer r.Finish()
	r.Rule = "all (a,b in {nil,0,1,2^1024-1,2^2047}) x index 0..5 x bitlen 0..1100 (quick: step 1 up to 600, then boundary values); oracle: sum_j H(a,b,index,j)<<256j reference; plus every index below 4096 (thorough 65536) with a=12345 one of whose digest blocks 0..3 begins with a zero byte, at lengths that make that block the last and an inner one; IntHashSha256 on byte strings of length 0..100 in 3 patterns; non-trivial = distinct output"
	vals := []*mbig.Int{nil, mbig.NewInt(0), mbig.NewInt(1), new(mbig.Int).Sub(c15Pow2(1024), mbig.NewInt(1)), c15Pow2(2047)}
	var bitlens []uint
	for b := uint(0); b <= 1100; b++ {
		if vkit.Thorough() || b <= 300 || b%64 <= 1 || b%64 == 63 {
			bitlens = append(bitlens, b)
		}
	}
	toG := func(v *mbig.Int) *big.Int {
		if v == nil {
			return nil
		}
		return big.Convert(new(mbig.Int).Set(v))
	}
	for ai, a := range vals {
		for bi, b := range vals {
			for idx := 0; idx <= 5; idx++ {
				if _, mine := r.Next(); !mine {
					continue
				}
				if r.Expired() {
					return
				}
				for _, bl := range bitlens {
					r.Eval()
					want := c15RefHashNumber(a, b, idx, bl)
					got := GetHashNumber(toG(a), toG(b), idx, bl)
					r.Nontrivial(want.Text(16))
					r.Outcome(fmt.Sprintf("GetHashNumber:blocks=%d:b present=%v", (bl+255)/256, b != nil))
					if got.Go().Cmp(want) != 0 {
						r.Violate(fmt.Sprintf("C15|gethashnumber!=reference|a#%d,b#%d", ai, bi), fmt.Sprintf("a#%d b#%d index=%d bitlen=%d: got %x want %x", ai, bi, idx, bl, got.Go(), want), map[string]any{"a": ai, "b": bi, "index": idx, "bitlen": bl})
					}
				}
				if ai == 3 && bi == 0 && idx == 2 {
					r.Sample(map[string]any{"a": "2^1024-1", "b": "nil", "index": idx, "bitlens": len(bitlens)})
				}
			}
		}
	}
	// digest blocks that begin with zero bytes: the expansion places every 256-bit digest in its own
	// slot, whatever its numeric size.  The reference is used to FIND inputs one of whose blocks j = 0..3
	// begins with a zero byte (about 1 in 64 indices), and those are compared for lengths that make that
	// block an inner one and the last one.
	{
		a := mbig.NewInt(12345)
		found, foundLong := 0, 0
		for idx := 0; idx < vkit.Pick(4096, 65536); idx++ {
			for j := 0; j < 4; j++ {
				in := []*mbig.Int{a, mbig.NewInt(int64(idx)), mbig.NewInt(int64(j))}
				h := c15RefHash(in, false)
				if h.BitLen() > 248 {
					continue
				}
				found++
				if h.BitLen() <= 240 {
					foundLong++
				}
				if _, mine := r.Next(); !mine {
					continue
				}
				for _, bl := range []uint{uint(256*j) + 1, uint(256*j) + 255, uint(256 * (j + 1)), uint(256*(j+1)) + 1, uint(256*(j+1)) + 200, uint(256 * (j + 2)), 1100} {
					r.Eval()
					want := c15RefHashNumber(a, nil, idx, bl)
					got := GetHashNumber(toG(a), nil, idx, bl)
					r.Nontrivial(want.Text(16))
					r.Outcome(fmt.Sprintf("GetHashNumber:block-with-leading-zero-byte:inner=%v", bl > uint(256*(j+1))))
					if got.Go().Cmp(want) != 0 {
						r.Violate("C15|gethashnumber!=reference|block-with-leading-zero-byte", fmt.Sprintf("a=12345 index=%d bitlen=%d (block %d begins with a zero byte): got %x want %x", idx, bl, j, got.Go(), want), map[string]any{"index": idx, "bitlen": bl, "block": j})
					}
				}
			}
		}
		r.Bounds["blocks_with_leading_zero_byte"] = found
		r.Bounds["blocks_with_two_leading_zero_bytes"] = foundLong
		if found == 0 {
			r.HarnessError("no digest block with a leading zero byte found")
		}
	}
	for n := 0; n <= 100; n++ {
		for pat := 0; pat < 3; pat++ {
			bs := make([]byte, n)
			for i := range bs {
				switch pat {
				case 1:
					bs[i] = 0xff
				case 2:
					bs[i] = byte(i*37 + 11)
				}
			}
			r.Eval()
			h := sha256.Sum256(bs)
			want := new(mbig.Int).SetBytes(h[:])
			got := IntHashSha256(bs)
			r.Nontrivial("ih" + want.Text(16))
			if got.Go().Cmp(want) != 0 {
				r.Violate("C15|inthashsha256!=reference", fmt.Sprintf("len=%d pattern=%d", n, pat), map[string]any{"len": n, "pattern": pat})
			}
		}
	}
}

// c15LenForm classifies the DER length form of an encoding of n bytes (short form, or number of length bytes).
func c15LenForm(n int) string {
	switch {
	case n < 128+2:
		return "short"
	case n < 256+3:
		return "0x81"
	case n < 65536+4:
		return "0x82"
	default:
		return "0x83"
	}
}
