//go:build verif

package revocation

// C07 — non-revocation proofs made directly through the revocation package: every sequence of proofs
// from one witness object with library-chosen (nil) and caller-chosen randomisers; the two-transcript
// extractor applied to every pair and every response must not recover the secret behind it.

import (
	"fmt"
	"testing"
	"time"

	"github.com/privacybydesign/gabi/big"
	"github.com/privacybydesign/gabi/internal/verif/vkit"
)

func TestVerifC07RevocationCommits(t *testing.T) {
	prop := vkit.PropertyOr("C07")
	r := vkit.Start(t, prop, "revocation-package-commits", 60*time.Second, 300*time.Second)
	defer r.Finish()
	r.Rule = "one witness object (and a second one at a later accumulator after an update): every sequence of 2..4 calls NewProofCommit(pk, w, randomizer) with randomizer in {nil (library chooses), fresh caller-chosen}, each followed by BuildProof with a distinct challenge; non-trivial = distinct (witness state, sequence); oracle: for every pair of proofs and every response name, (s1-s2)/(c1-c2) is not the value it hides (alpha: the witness value e), C_r and C_u never repeat"
	rvInstallEnv(t, "C07rev", r.Seed)
	sk, pk := rvKeys(32, 0)
	var es []*big.Int
	for i := 0; i < 3; i++ {
		es = append(es, rvPrime(2+i))
	}
	world := rvNewWorld(sk, pk, es)
	for _, state := range []string{"fresh witness", "updated witness"} {
		w := world.Witness(0, rvPrime(0))
		if state == "updated witness" {
			if err := w.Update(pk, world.Window(1, 2, 0)); err != nil {
				r.HarnessError("update: %v", err)
				return
			}
		}
		for n := 2; n <= 4; n++ {
			for mask := 0; mask < 1<<n; mask++ {
				if _, mine := r.Next(); !mine {
					continue
				}
				r.Eval()
				seq := ""
				type tr struct {
					c *big.Int
					p *Proof
				}
				var trs []tr
				ok := true
				for i := 0; i < n; i++ {
					var rnd *big.Int
					if mask&(1<<i) != 0 {
						rnd = NewProofRandomizer()
						seq += "caller;"
					} else {
						seq += "nil;"
					}
					_, commit, err := NewProofCommit(pk, w, rnd)
					if err != nil {
						r.Violate(prop+"|nonrev-commit-failed", fmt.Sprintf("%s %s: %v", state, seq, err), seq)
						ok = false
						break
					}
					c := big.NewInt(int64(1000003 + 7919*i))
					trs = append(trs, tr{c, commit.BuildProof(c)})
				}
				r.Nontrivial(state + "|" + seq)
				if !ok {
					continue
				}
				sig := ""
				for i := 0; i < len(trs) && sig == ""; i++ {
					for j := i + 1; j < len(trs) && sig == ""; j++ {
						if trs[i].p.Cr.Cmp(trs[j].p.Cr) == 0 || trs[i].p.Cu.Cmp(trs[j].p.Cu) == 0 {
							sig = "repeated-commitment"
						}
						dc := new(big.Int).Sub(trs[i].c, trs[j].c)
						for name, s1 := range trs[i].p.Responses {
							s2 := trs[j].p.Responses[name]
							if s2 == nil {
								continue
							}
							ds := new(big.Int).Sub(s1, s2)
							if new(big.Int).Mod(ds, dc).Sign() != 0 {
								continue
							}
							q := new(big.Int).Div(ds, dc)
							if name == "alpha" && q.Cmp(w.E) == 0 {
								sig = "commitment-randomiser-used-twice|witness-value"
							} else if ds.Sign() == 0 {
								sig = "commitment-randomiser-used-twice|" + name
							}
						}
					}
				}
				r.Outcome(fmt.Sprintf("%s:proofs=%d:extractor fails=%v", state, n, sig == ""))
				if sig != "" {
					r.Violate(prop+"|"+sig+"|revocation.NewProofCommit", fmt.Sprintf("%s, randomisers %s", state, seq), seq)
				}
			}
		}
	}
}
