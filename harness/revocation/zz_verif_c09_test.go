//go:build verif

package revocation

// C09 — revocation witnesses track the accumulator through any history.
//
// Explicit-state exploration over operation histories: for every history length H, every witness
// configuration (issue index, revocation position), every sequence of <= D update applications
// drawn from all contiguous event windows (+ zero-event and same-index-newer-time updates), to
// one witness or alternately to two, with shared or fresh update objects; every transition is
// executed on fresh real objects and compared step by step with an abstract model
// (idx, revokedAt).

import (
	"encoding/json"
	"errors"
	"fmt"
	"github.com/fxamacker/cbor"
	"github.com/privacybydesign/gabi/big"
	"strings"
	"testing"
	"time"

	"github.com/privacybydesign/gabi/internal/verif/vkit"
)

type c09Win struct {
	a, b int   // events a..b, accumulator b; a > b: no events
	dt   int64 // newer time
}

func (w c09Win) String() string {
	if w.a > w.b {
		return fmt.Sprintf("[none;acc%d%s]", w.b, map[bool]string{true: "+t", false: ""}[w.dt > 0])
	}
	return fmt.Sprintf("[%d..%d%s]", w.a, w.b, map[bool]string{true: "+t", false: ""}[w.dt > 0])
}

type c09Wit struct {
	issue   int // index of the accumulator it was issued for
	revoked int // index of the event revoking it (0 = never)
}

// model of one witness
type c09Model struct {
	idx     int
	revoked int
	time    int64
}

// step returns the expected class: "advance", "revoked", "noop" (state must not change, result
// class unconstrained except that success must not change idx), "refresh" (same index newer time)
func (m *c09Model) step(w c09Win) string {
	switch {
	case w.b == m.idx:
		t := rvBaseTime + int64(w.b) + w.dt
		if t > m.time {
			m.time = t
			return "refresh"
		}
		return "noop"
	case w.a > w.b: // no events
		return "noop"
	case w.b < m.idx:
		return "noop"
	case w.a > m.idx+1:
		return "noop"
	}
	if m.revoked > m.idx && m.revoked <= w.b {
		return "revoked"
	}
	m.idx = w.b
	m.time = rvBaseTime + int64(w.b) + w.dt
	return "advance"
}

func TestVerifC09(t *testing.T) {
	r := vkit.Start(t, "C09", "witness-update-histories", 240*time.Second, 1500*time.Second)
	defer r.Finish()
	r.Rule = "histories of H<=Hmax revocations; witness configs (issue index i, revoked at r in {never, i+1..H}) x optional second witness; update alphabet = every contiguous window [a..b], zero-event updates, same-index-newer-time updates; every sequence of <= D applications (to one witness, or alternating between two), with shared and with fresh Update objects; state = operation history replayed on fresh real objects; non-trivial = distinct (H, configs, sharing, sequence); oracle: abstract (idx, revokedAt) model - result class for applicable windows, index never decreases, non-revoked witness verifies at the index it reports, revoked witness never verifies at/after its revocation, failed update leaves the witness bitwise unchanged"
	rvInstallEnv(t, "C09", r.Seed)
	sk, pk := rvKeys(32, 0)
	Hmax := vkit.Pick(3, 5)
	D := vkit.Pick(3, 4)
	r.Bounds["max_history"] = Hmax
	r.Bounds["max_sequence"] = D
	for H := 0; H <= Hmax; H++ {
		// witness configurations
		var cfgs []c09Wit
		for i := 0; i <= H; i++ {
			cfgs = append(cfgs, c09Wit{i, 0})
			for rv := i + 1; rv <= H; rv++ {
				cfgs = append(cfgs, c09Wit{i, rv})
			}
		}
		var wins []c09Win
		for b := 0; b <= H; b++ {
			for a := 0; a <= b; a++ {
				wins = append(wins, c09Win{a, b, 0})
			}
			wins = append(wins, c09Win{b + 1, b, 0}, c09Win{b + 1, b, 100}, c09Win{b, b, 100})
		}
		seqDepth := D
		if H >= 5 {
			seqDepth = D - 1
		}
		for _, c1 := range cfgs {
			// second witness: none, or one of three representative configurations
			seconds := []*c09Wit{nil, {0, 0}, {c1.issue, 0}}
			if H >= 1 && c1.revoked != 1 {
				seconds = append(seconds, &c09Wit{0, 1})
			}
			for _, c2 := range seconds {
				if c2 != nil && c2.revoked != 0 && c2.revoked == c1.revoked {
					continue
				}
				for _, shared := range []bool{false, true} {
					if _, mine := r.Next(); !mine {
						continue
					}
					if r.Expired() {
						return
					}
					// world: event k revokes w1, w2 or an untracked value
					es := make([]int, H+1)
					world := rvNewWorld(sk, pk, nil)
					for k := 1; k <= H; k++ {
						switch {
						case k == c1.revoked:
							es[k] = 0
						case c2 != nil && k == c2.revoked:
							es[k] = 1
						default:
							es[k] = 1 + k
						}
						world.Revoke(rvPrime(es[k]))
					}
					c09Explore(r, world, H, c1, c2, shared, wins, seqDepth)
				}
			}
		}
	}
}

func c09Explore(r *vkit.Report, world *rvWorld, H int, c1 c09Wit, c2 *c09Wit, shared bool, wins []c09Win, depth int) {
	nw := 1
	if c2 != nil {
		nw = 2
	}
	seq := make([]int, 0, depth)
	caseName := func() string {
		s := fmt.Sprintf("H=%d w1=%+v", H, c1)
		if c2 != nil {
			s += fmt.Sprintf(" w2=%+v", *c2)
		}
		s += fmt.Sprintf(" shared=%v seq=", shared)
		for _, wi := range seq {
			s += wins[wi].String()
		}
		return s
	}
	var rec func()
	run := func() {
		// replay the whole sequence on fresh objects
		r.Eval()
		r.States++
		cfg := []c09Wit{c1}
		if c2 != nil {
			cfg = append(cfg, *c2)
		}
		wit := make([]*Witness, nw)
		mod := make([]*c09Model, nw)
		for i, c := range cfg {
			wit[i] = world.Witness(c.issue, rvPrime(i))
			mod[i] = &c09Model{idx: c.issue, revoked: c.revoked, time: rvBaseTime + int64(c.issue)}
		}
		pool := map[int]*Update{}
		for step, wi := range seq {
			win := wins[wi]
			var upd *Update
			if shared {
				if pool[wi] == nil {
					pool[wi] = world.Window(win.a, win.b, win.dt)
				}
				upd = pool[wi]
			} else {
				upd = world.Window(win.a, win.b, win.dt)
			}
			target := step % nw
			w, m := wit[target], mod[target]
			before := rvSnapshot(w)
			prevIdx := m.idx
			class := m.step(win)
			var err error
			pan, msg := vkit.Guard(func() { err = w.Update(world.Pk, upd) })
			r.Transitions++
			r.Traces++
			rep := map[string]any{"case": caseName(), "step": step, "target": target, "window": win.String(), "expected": class}
			if pan {
				r.Violate("C09|update-panicked|"+class, caseName()+": "+msg, rep)
				return
			}
			after := rvSnapshot(w)
			idxAfter := int(w.SignedAccumulator.Accumulator.Index)
			if idxAfter < prevIdx {
				r.Violate("C09|witness-moved-backwards|"+class, fmt.Sprintf("%s: index %d -> %d", caseName(), prevIdx, idxAfter), rep)
			}
			if err != nil && !before.Equal(after) {
				r.Violate("C09|failed-update-changed-witness|"+class, fmt.Sprintf("%s: Update returned %v but the witness changed", caseName(), err), rep)
			}
			switch class {
			case "advance":
				if err != nil {
					r.Violate("C09|applicable-update-failed|shared="+fmt.Sprint(shared), fmt.Sprintf("%s: step %d window %s on witness %d (idx %d, not revoked in window): %v", caseName(), step, win, target, prevIdx, err), rep)
					// resynchronise the model with reality for the remaining steps
					m.idx = prevIdx
					m.time = before.AccTime
				} else if idxAfter != win.b {
					r.Violate("C09|update-did-not-advance", fmt.Sprintf("%s: expected index %d, witness reports %d", caseName(), win.b, idxAfter), rep)
				}
			case "revoked":
				if !errors.Is(err, ErrorRevoked) {
					r.Violate("C09|revocation-not-reported", fmt.Sprintf("%s: window %s contains the witness' value, Update returned %v", caseName(), win, err), rep)
				}
			case "refresh":
				if err != nil {
					r.Violate("C09|refresh-failed", fmt.Sprintf("%s: %v", caseName(), err), rep)
				} else if idxAfter != prevIdx {
					r.Violate("C09|refresh-changed-index", caseName(), rep)
				}
			case "noop":
				if idxAfter != prevIdx {
					r.Violate("C09|inapplicable-update-changed-index", fmt.Sprintf("%s: index %d -> %d", caseName(), prevIdx, idxAfter), rep)
				}
			}
			// validity at the reported index
			verr := w.Verify(world.Pk)
			revokedNow := m.revoked != 0 && idxAfter >= m.revoked
			if revokedNow && verr == nil {
				r.Violate("C09|revoked-witness-verifies", fmt.Sprintf("%s: witness revoked at %d verifies against accumulator %d", caseName(), m.revoked, idxAfter), rep)
			}
			if !revokedNow && verr != nil {
				r.Violate("C09|valid-witness-does-not-verify|after="+class, fmt.Sprintf("%s: witness at index %d (revoked at %d) fails Verify: %v", caseName(), idxAfter, m.revoked, verr), rep)
			}
			if !revokedNow && w.SignedAccumulator.Accumulator.Nu.Cmp(world.Accs[idxAfter].Nu) != 0 {
				r.Violate("C09|witness-accumulator-not-the-issuers", caseName(), rep)
			}
			r.Outcome(class + ":" + map[bool]string{true: "err", false: "ok"}[err != nil])
		}
		r.Nontrivial(caseName())
	}
	rec = func() {
		if len(seq) > 0 {
			run()
		}
		if len(seq) == depth {
			return
		}
		for wi := range wins {
			seq = append(seq, wi)
			rec()
			seq = seq[:len(seq)-1]
		}
	}
	rec()
	r.Sample(map[string]any{"H": H, "w1": fmt.Sprintf("%+v", c1), "w2": fmt.Sprint(c2), "shared": shared, "windows": len(wins), "depth": depth})
}

// TestVerifC09LongChain: one long history (40 revocations, thorough 100): anything that depends on the
// number of events (fixed-size buffers, thresholds, caches keyed by position) must behave for long
// chains as it does for the short ones explored exhaustively.  Witnesses issued at several indices are
// brought to the end by one update, by two halves, by single steps and by overlapping windows.
func TestVerifC09LongChain(t *testing.T) {
	r := vkit.Start(t, "C09", "long-chain", 120*time.Second, 600*time.Second)
	defer r.Finish()
	H := vkit.Pick(40, 100)
	r.Rule = fmt.Sprintf("one history of %d revocations; witnesses issued at indices {0,1,H/3,H/2,H-1}, non-revoked or revoked at {issue+1, H/2+1, H}; routes to the end: one window, two halves (every cut in {1,16,17,31,32,33,H-1}), single steps, overlapping windows of length 7 with stride 3; non-trivial = distinct (issue index, revocation, route); oracle: non-revoked => every update succeeds and the witness verifies against accumulator H; revoked => the update containing the revocation reports ErrorRevoked and the witness stays valid for the last accumulator before it", H)
	rvInstallEnv(t, "C09long", r.Seed)
	sk, pk := rvKeys(32, 0)
	// H+1 distinct primes (rvPrime only has 16)
	var es []*big.Int
	for c := int64(20001); len(es) < H+1; c += 2 {
		if big.NewInt(c).ProbablyPrime(20) {
			es = append(es, big.NewInt(c))
		}
	}
	mine0 := es[H]
	es = es[:H]
	for _, issue := range []int{0, 1, H / 3, H / 2, H - 1} {
		for _, rev := range []int{0, issue + 1, H/2 + 1, H} {
			if rev != 0 && rev <= issue {
				continue
			}
			if _, mine := r.Next(); !mine {
				continue
			}
			// the witness value is revoked at history position rev (1-based), or never
			list := append([]*big.Int{}, es...)
			if rev != 0 {
				list[rev-1] = mine0
			}
			world := rvNewWorld(sk, pk, list)
			routes := map[string][][2]int{}
			order := []string{}
			add := func(name string, wins [][2]int) { routes[name] = wins; order = append(order, name) }
			add("one window", [][2]int{{issue + 1, H}})
			for _, cut := range []int{1, 16, 17, 31, 32, 33, H - 1} {
				if cut > issue && cut < H {
					add(fmt.Sprintf("two halves cut at %d", cut), [][2]int{{issue + 1, cut}, {cut + 1, H}})
				}
			}
			var steps, overl [][2]int
			for i := issue + 1; i <= H; i++ {
				steps = append(steps, [2]int{i, i})
			}
			for a := issue + 1; a <= H; a += 3 {
				b := a + 6
				if b > H {
					b = H
				}
				overl = append(overl, [2]int{a, b})
			}
			add("single steps", steps)
			add("overlapping windows", overl)
			for _, name := range order {
				r.Eval()
				desc := fmt.Sprintf("H=%d issue=%d revoked-at=%d route=%s", H, issue, rev, name)
				r.Nontrivial(desc)
				w := world.Witness(issue, mine0)
				reported := false
				bad := ""
				for _, win := range routes[name] {
					a, b := win[0], win[1]
					if a > b {
						continue
					}
					before := int(w.SignedAccumulator.Accumulator.Index)
					err := w.Update(pk, world.Window(a, b, 0))
					switch {
					case a > before+1:
						// a gap between the witness and the window (only after a reported revocation): refused
						if err == nil {
							bad = fmt.Sprintf("window %d..%d accepted by a witness at index %d", a, b, before)
						}
					case rev != 0 && rev >= a && rev <= b && int(w.SignedAccumulator.Accumulator.Index) < rev:
						if err != ErrorRevoked {
							bad = fmt.Sprintf("window %d..%d contains the revocation: got %v", a, b, err)
						}
						reported = true
					case reported:
						// after the revocation was reported nothing may bring the witness forward
						if err == nil && int(w.SignedAccumulator.Accumulator.Index) >= rev {
							bad = fmt.Sprintf("window %d..%d moved a revoked witness to index %d", a, b, w.SignedAccumulator.Accumulator.Index)
						}
					case err != nil:
						bad = fmt.Sprintf("window %d..%d: %v", a, b, err)
					}
					if bad != "" {
						break
					}
				}
				idx := int(w.SignedAccumulator.Accumulator.Index)
				if bad == "" {
					switch {
					case rev == 0 && idx != H:
						bad = fmt.Sprintf("witness ended at index %d, want %d", idx, H)
					case rev != 0 && idx >= rev:
						bad = fmt.Sprintf("revoked witness ended at index %d (revoked at %d)", idx, rev)
					case w.Verify(pk) != nil:
						bad = fmt.Sprintf("witness does not verify at the index it reports (%d)", idx)
					}
				}
				r.Outcome(fmt.Sprintf("route=%s:revoked=%v:ok=%v", name[:3], rev != 0, bad == ""))
				if bad != "" {
					r.Violate("C09|long-chain|"+map[bool]string{true: "revoked", false: "valid"}[rev != 0]+"-witness-mishandled", desc+": "+bad, desc)
				}
			}
		}
	}
}

// TestVerifC09Assembled: updates that a holder ASSEMBLES from what it received - older events
// prepended (Update.Prepend) to an update holding newer ones, adjacent or overlapping, the older list
// being a plain object, a decoded one that carries its product (ComputeProduct), or several decoded
// lists flattened into one.  Whatever the route, the assembled update must move every non-revoked
// witness it applies to, in whatever order the witnesses come, and report revoked ones as revoked.
func TestVerifC09Assembled(t *testing.T) {
	r := vkit.Start(t, "C09", "assembled-updates", 120*time.Second, 600*time.Second)
	defer r.Finish()
	H := vkit.Pick(6, 8)
	r.Rule = fmt.Sprintf("history of %d revocations (event 3 revokes the tracked value of the second witness kind); older list [a..m], m up to H (covering all of the update's own events), x newer update [m2..H] with m2 in [a+1..m+1] (overlap of 0..m-a events) x list form {object, JSON-decoded with product, two decoded halves flattened, the same two decoded list objects flattened anew for every assembly}; the assembled update applied to witnesses at EVERY index a-1..H-1 in ascending and in descending order (one shared update object) and each alone on a fresh assembly; Update values used again (applied, then the next message decoded into the same value - JSON / CBOR - and applied to another witness at the same index); non-trivial = distinct (a, m, m2, form, order, witness); oracle: Prepend succeeds; non-revoked witness => Update succeeds and the witness verifies against accumulator H; witness revoked inside the window => ErrorRevoked and unchanged", H)
	rvInstallEnv(t, "C09asm", r.Seed)
	sk, pk := rvKeys(32, 0)
	var es []*big.Int
	for k := 1; k <= H; k++ {
		es = append(es, rvPrime(2+k))
	}
	es[2] = rvPrime(1) // event 3 revokes the second witness kind
	world := rvNewWorld(sk, pk, es)
	decode := func(a, b int) *EventList {
		src := NewEventList(world.Window(a, b, 0).Events...)
		bts, err := json.Marshal(src)
		if err != nil {
			panic(err)
		}
		el := &EventList{ComputeProduct: true}
		if err := json.Unmarshal(bts, el); err != nil {
			panic(err)
		}
		return el
	}
	for a := 1; a <= H-1; a++ {
		for m := a; m <= H; m++ { // m == H: the older list reaches up to the update's own last event
			for m2 := a + 1; m2 <= m+1 && m2 <= H; m2++ {
				for _, form := range []string{"object", "decoded+product", "flattened", "flattened (the decoded lists used again for every assembly)"} {
					if strings.HasPrefix(form, "flattened") && m == a {
						continue
					}
					var kept []*EventList // the holder's decoded lists, flattened anew whenever an update is assembled
					if _, mine := r.Next(); !mine {
						continue
					}
					if r.Expired() {
						return
					}
					assemble := func() (*Update, error) {
						var el *EventList
						switch form {
						case "object":
							el = NewEventList(world.Window(a, m, 0).Events...)
						case "decoded+product":
							el = decode(a, m)
						case "flattened":
							cut := (a + m) / 2
							var err error
							if el, err = FlattenEventLists([]*EventList{decode(cut+1, m), decode(a, cut)}); err != nil {
								return nil, err
							}
						default:
							if kept == nil {
								cut := (a + m) / 2
								kept = []*EventList{decode(a, cut), decode(cut+1, m)}
							}
							var err error
							if el, err = FlattenEventLists([]*EventList{kept[1], kept[0]}); err != nil {
								return nil, err
							}
						}
						u := world.Window(m2, H, 0)
						var err error
						if pan, msg := vkit.Guard(func() { err = u.Prepend(el) }); pan {
							return nil, errors.New("panic: " + msg)
						}
						return u, err
					}
					base := fmt.Sprintf("list [%d..%d] (%s) prepended to update [%d..%d]", a, m, form, m2, H)
					apply := func(u *Update, idx int, kind int, desc string) {
						r.Eval()
						r.Nontrivial(desc)
						val := rvPrime(0)
						revokedAt := 0
						if kind == 1 {
							val, revokedAt = rvPrime(1), 3
						}
						if revokedAt != 0 && revokedAt <= idx {
							return // cannot be issued after its revocation
						}
						w := world.Witness(idx, val)
						before := rvSnapshot(w)
						var err error
						pan, msg := vkit.Guard(func() { err = w.Update(pk, u) })
						switch {
						case pan:
							r.Violate("C09|assembled-update|panic", desc+": "+msg, desc)
						case revokedAt != 0:
							r.Outcome("assembled:revoked-witness:err=" + fmt.Sprint(err != nil))
							if !errors.Is(err, ErrorRevoked) {
								r.Violate("C09|assembled-update|revocation-not-reported", fmt.Sprintf("%s: %v", desc, err), desc)
							} else if !rvSnapshot(w).Equal(before) {
								r.Violate("C09|assembled-update|failed-update-changed-witness", desc, desc)
							}
						default:
							r.Outcome("assembled:valid-witness:err=" + fmt.Sprint(err != nil))
							if err != nil {
								r.Violate("C09|assembled-update|applicable-update-failed", fmt.Sprintf("%s: %v", desc, err), desc)
							} else if w.SignedAccumulator.Accumulator.Index != uint64(H) || w.Verify(pk) != nil {
								r.Violate("C09|assembled-update|witness-not-valid-for-the-newest-accumulator", desc, desc)
							}
						}
					}
					for _, order := range []string{"ascending", "descending", "alone"} {
						var u *Update
						var idxs []int
						for i := a - 1; i <= H-1; i++ {
							idxs = append(idxs, i)
						}
						if order == "descending" {
							for i, j := 0, len(idxs)-1; i < j; i, j = i+1, j-1 {
								idxs[i], idxs[j] = idxs[j], idxs[i]
							}
						}
						for _, idx := range idxs {
							for kind := 0; kind <= 1; kind++ {
								if u == nil || order == "alone" {
									var err error
									if u, err = assemble(); err != nil {
										r.Violate("C09|assembled-update|prepend-failed", fmt.Sprintf("%s: %v", base, err), base)
										u = nil
										break
									}
								}
								apply(u, idx, kind, fmt.Sprintf("%s, witnesses in %s order, witness at %d kind %d", base, order, idx, kind))
							}
						}
					}
					r.Sample(map[string]any{"assembly": base})
				}
			}
		}
	}
	// an Update VALUE that is used again: applied to a witness (which leaves a cached product in it), then
	// the next message is decoded into the same value and applied to another witness at the same index
	for _, enc := range []string{"json", "cbor"} {
		for a := 1; a <= H-1; a++ {
			for b1 := a; b1 <= H-1; b1++ {
				for b2 := a; b2 <= H; b2++ {
					if b2 == b1 {
						continue
					}
					if _, mine := r.Next(); !mine {
						continue
					}
					desc := fmt.Sprintf("Update value reused (%s): [%d..%d] applied to a witness at %d, then [%d..%d] decoded into the same value and applied to another witness at %d", enc, a, b1, a-1, a, b2, a-1)
					r.Eval()
					r.Nontrivial(desc)
					u := world.Window(a, b1, 0)
					w0 := world.Witness(a-1, rvPrime(0))
					if err := w0.Update(pk, u); err != nil {
						r.Violate("C09|reused-update-value|first-application-failed", fmt.Sprintf("%s: %v", desc, err), desc)
						continue
					}
					var err error
					if enc == "json" {
						var bts []byte
						if bts, err = json.Marshal(world.Window(a, b2, 0)); err == nil {
							err = json.Unmarshal(bts, u)
						}
					} else {
						var bts []byte
						if bts, err = cbor.Marshal(world.Window(a, b2, 0), cbor.EncOptions{}); err == nil {
							err = cbor.Unmarshal(bts, u)
						}
					}
					if err != nil {
						r.Violate("C09|reused-update-value|not-decodable", fmt.Sprintf("%s: %v", desc, err), desc)
						continue
					}
					w1 := world.Witness(a-1, rvPrime(0))
					pan, msg := vkit.Guard(func() { err = w1.Update(pk, u) })
					r.Outcome(fmt.Sprintf("reused-update-value:%s:err=%v", enc, err != nil || pan))
					switch {
					case pan:
						r.Violate("C09|reused-update-value|panic", desc+": "+msg, desc)
					case err != nil:
						r.Violate("C09|reused-update-value|applicable-update-failed", fmt.Sprintf("%s: %v", desc, err), desc)
					case w1.SignedAccumulator.Accumulator.Index != uint64(b2) || w1.Verify(pk) != nil:
						r.Violate("C09|reused-update-value|witness-not-valid-for-the-newest-accumulator", desc, desc)
					}
				}
			}
		}
	}

}

// TestVerifC09SharedAccumulatorTimes: two (three) witnesses are brought to one index by ONE update object,
// after which they hold the same signed-accumulator object; re-signatures of that accumulator with
// different times are then shown to them in every order.  No witness may move backwards in time -
// neither the one that is shown an older signature nor, through the shared object, any other.
func TestVerifC09SharedAccumulatorTimes(t *testing.T) {
	r := vkit.Start(t, "C09", "shared-accumulator-times", 120*time.Second, 400*time.Second)
	defer r.Finish()
	r.Rule = "history of 3 revocations; 2 and 3 witnesses issued at index 0 and advanced to b in {1,2,3} by one shared update object (and, as control, by separate ones); then every sequence of <= 3 same-index re-signatures with time offsets from {0, 100, 200, 300}, each shown to any one witness; non-trivial = distinct (b, witnesses, sharing, sequence); oracle after every step, for EVERY witness: the time of the accumulator it holds never decreases and is at least the newest it was itself shown; index unchanged; it verifies"
	rvInstallEnv(t, "C09times", r.Seed)
	sk, pk := rvKeys(32, 0)
	world := rvNewWorld(sk, pk, []*big.Int{rvPrime(5), rvPrime(6), rvPrime(7)})
	dts := []int64{0, 100, 200, 300}
	for b := 1; b <= 3; b++ {
		for _, nw := range []int{2, 3} {
			for _, shared := range []bool{true, false} {
				// sequences of (target witness, dt)
				type st struct {
					w  int
					dt int64
				}
				var seqs [][]st
				var rec func(cur []st)
				rec = func(cur []st) {
					if len(cur) > 0 {
						seqs = append(seqs, append([]st{}, cur...))
					}
					if len(cur) == 3 {
						return
					}
					for w := 0; w < nw; w++ {
						for _, dt := range dts {
							rec(append(cur, st{w, dt}))
						}
					}
				}
				rec(nil)
				for _, sq := range seqs {
					if _, mine := r.Next(); !mine {
						continue
					}
					if r.Expired() {
						return
					}
					desc := fmt.Sprintf("b=%d witnesses=%d shared=%v seq=%v", b, nw, shared, sq)
					r.Eval()
					r.Nontrivial(desc)
					wits := make([]*Witness, nw)
					shownMax := make([]int64, nw)
					lastTime := make([]int64, nw)
					first := world.Window(1, b, 0)
					bad := false
					for i := range wits {
						wits[i] = world.Witness(0, rvPrime(i))
						u := first
						if !shared {
							u = world.Window(1, b, 0)
						}
						if err := wits[i].Update(pk, u); err != nil {
							r.Violate("C09|applicable-update-failed|shared="+fmt.Sprint(shared), desc+": "+err.Error(), desc)
							bad = true
							break
						}
						shownMax[i] = wits[i].SignedAccumulator.Accumulator.Time
						lastTime[i] = shownMax[i]
					}
					if bad {
						continue
					}
					for si, s := range sq {
						u := world.Window(b+1, b, s.dt) // no events, accumulator b re-signed with a later time
						err := wits[s.w].Update(pk, u)
						if err != nil {
							r.Violate("C09|refresh-failed", fmt.Sprintf("%s step %d: %v", desc, si, err), desc)
							break
						}
						if tm := u.SignedAccumulator.Accumulator.Time; tm > shownMax[s.w] {
							shownMax[s.w] = tm
						}
						for i, w := range wits {
							tm := w.SignedAccumulator.Accumulator.Time
							switch {
							case tm < lastTime[i]:
								r.Violate("C09|witness-moved-backwards-in-time", fmt.Sprintf("%s step %d: witness %d went from accumulator time %d to %d", desc, si, i, lastTime[i], tm), desc)
							case tm < shownMax[i]:
								r.Violate("C09|witness-older-than-what-it-was-shown", fmt.Sprintf("%s step %d: witness %d holds time %d, was shown %d", desc, si, i, tm, shownMax[i]), desc)
							case int(w.SignedAccumulator.Accumulator.Index) != b || w.Verify(pk) != nil:
								r.Violate("C09|refresh-changed-index", fmt.Sprintf("%s step %d: witness %d", desc, si, i), desc)
							}
							lastTime[i] = tm
						}
					}
					r.Outcome(fmt.Sprintf("shared=%v:ok", shared))
				}
			}
		}
	}
}
