//go:build verif

package revocation

// Shared harness library for the revocation checks: toy keys (64-bit modulus, real ECDSA), a
// revocation world (accumulator chain, events, signed accumulators) and state snapshots.

import (
	"bytes"
	"crypto/sha256"
	"fmt"
	"testing"
	"time"

	"github.com/privacybydesign/gabi/big"
	"github.com/privacybydesign/gabi/gabikeys"
	"github.com/privacybydesign/gabi/internal/common"
	"github.com/privacybydesign/gabi/internal/verif/venv"
	"github.com/privacybydesign/gabi/safeprime"
	"github.com/privacybydesign/gabi/signed"
	"github.com/sirupsen/logrus"
)

func init() {
	if Logger == nil {
		Logger = logrus.StandardLogger()
		Logger.SetLevel(logrus.FatalLevel)
	}
}

type rvWorld struct {
	Sk     *gabikeys.PrivateKey
	Pk     *gabikeys.PublicKey
	Accs   []*Accumulator       // Accs[k] has Index k
	Saccs  []*SignedAccumulator // signed Accs[k]
	Events []*Event             // Events[k] has Index k (Events[0] = initial event)
	Es     []*big.Int           // Es[k] = value revoked by event k (k>=1)
}

func rvInstallEnv(t testing.TB, label string, seed int64) *venv.Env {
	e := venv.Install(seed, label)
	common.VerifSeedCPRNG(sha256.Sum256([]byte(fmt.Sprintf("cprng:%d:%s", seed, label))))
	t.Cleanup(e.Restore)
	return e
}

func rvKeys(bits int, counter uint) (*gabikeys.PrivateKey, *gabikeys.PublicKey) {
	p, err := safeprime.Generate(bits, nil)
	if err != nil {
		panic(err)
	}
	var q *big.Int
	for {
		q, err = safeprime.Generate(bits, nil)
		if err != nil {
			panic(err)
		}
		if q.Cmp(p) != 0 {
			break
		}
	}
	ec, err := signed.GenerateKey()
	if err != nil {
		panic(err)
	}
	n := new(big.Int).Mul(p, q)
	sk := &gabikeys.PrivateKey{Counter: counter, ECDSA: ec, PPrime: new(big.Int).Rsh(p, 1), QPrime: new(big.Int).Rsh(q, 1), N: n, P: p, Q: q}
	sk.Order = new(big.Int).Mul(sk.PPrime, sk.QPrime)
	pk := &gabikeys.PublicKey{Counter: counter, ECDSA: &ec.PublicKey, N: n, G: common.RandomQR(n), H: common.RandomQR(n)}
	return sk, pk
}

const rvBaseTime = 1_700_000_000

// rvNewWorld builds a chain of H revocations of the given values.
func rvNewWorld(sk *gabikeys.PrivateKey, pk *gabikeys.PublicKey, es []*big.Int) *rvWorld {
	w := &rvWorld{Sk: sk, Pk: pk}
	upd, err := NewAccumulator(sk)
	if err != nil {
		panic(err)
	}
	acc := upd.SignedAccumulator.Accumulator
	acc.Time = rvBaseTime
	sacc, err := acc.Sign(sk)
	if err != nil {
		panic(err)
	}
	w.Accs, w.Saccs, w.Events, w.Es = []*Accumulator{acc}, []*SignedAccumulator{sacc}, []*Event{upd.Events[0]}, []*big.Int{big.NewInt(1)}
	for _, e := range es {
		w.Revoke(e)
	}
	return w
}

func (w *rvWorld) Revoke(e *big.Int) {
	last := len(w.Accs) - 1
	acc, ev, err := w.Accs[last].Remove(w.Sk, e, w.Events[last])
	if err != nil {
		panic(err)
	}
	acc.Time = rvBaseTime + int64(len(w.Accs))
	sacc, err := acc.Sign(w.Sk)
	if err != nil {
		panic(err)
	}
	w.Accs, w.Saccs, w.Events, w.Es = append(w.Accs, acc), append(w.Saccs, sacc), append(w.Events, ev), append(w.Es, e)
}

// Window returns a fresh Update object with events a..b and accumulator b (a>b: no events).
// dt > 0 re-signs the accumulator with a newer time.
func (w *rvWorld) Window(a, b int, dt int64) *Update {
	acc := *w.Accs[b]
	acc.Time += dt
	sacc, err := (&acc).Sign(w.Sk)
	if err != nil {
		panic(err)
	}
	var evs []*Event
	if a <= b {
		for _, e := range w.Events[a : b+1] {
			c := *e
			evs = append(evs, &c)
		}
	} else {
		evs = []*Event{}
	}
	return &Update{SignedAccumulator: sacc, Events: evs}
}

// Witness issues a witness for value e against accumulator idx.
func (w *rvWorld) Witness(idx int, e *big.Int) *Witness {
	wit, err := newWitness(w.Sk, w.Accs[idx], e)
	if err != nil {
		panic(err)
	}
	acc := *w.Accs[idx]
	sacc, err := (&acc).Sign(w.Sk)
	if err != nil {
		panic(err)
	}
	wit.SignedAccumulator = sacc
	wit.Updated = time.Unix(acc.Time, 0)
	return wit
}

type rvSnap struct {
	U, E      string
	SaccPtr   *SignedAccumulator
	Data      []byte
	PKCounter uint
	AccIdx    uint64
	AccTime   int64
	AccNu     string
	AccHash   []byte
	Updated   time.Time
	AccPtr    *Accumulator
}

func rvSnapshot(w *Witness) rvSnap {
	s := rvSnap{U: w.U.String(), E: w.E.String(), SaccPtr: w.SignedAccumulator, Updated: w.Updated}
	if w.SignedAccumulator != nil {
		s.Data = append([]byte{}, w.SignedAccumulator.Data...)
		s.PKCounter = w.SignedAccumulator.PKCounter
		s.AccPtr = w.SignedAccumulator.Accumulator
		if a := w.SignedAccumulator.Accumulator; a != nil {
			s.AccIdx, s.AccTime, s.AccNu, s.AccHash = a.Index, a.Time, a.Nu.String(), append([]byte{}, a.EventHash...)
		}
	}
	return s
}

func (a rvSnap) Equal(b rvSnap) bool {
	return a.U == b.U && a.E == b.E && a.SaccPtr == b.SaccPtr && bytes.Equal(a.Data, b.Data) && a.PKCounter == b.PKCounter &&
		a.AccIdx == b.AccIdx && a.AccTime == b.AccTime && a.AccNu == b.AccNu && bytes.Equal(a.AccHash, b.AccHash) && a.Updated.Equal(b.Updated) && a.AccPtr == b.AccPtr
}

// small primes used as revocation values (coprime to the group order of the toy keys)
func rvPrime(i int) *big.Int {
	ps := []int64{10007, 10009, 10037, 10039, 10061, 10067, 10069, 10079, 10091, 10093, 10099, 10103, 10111, 10133, 10139, 10141}
	return big.NewInt(ps[i%len(ps)])
}
