//go:build verif

package revocation

// C10 — only authentic revocation updates are accepted.
//
// Every single corruption (and, in the thorough tier, every pair from a reduced menu) of update
// messages with 0..9 events is fed to Update.Verify, Witness.Update, Update.Prepend and
// EventList.Verify, in memory and after JSON / CBOR transport.  Oracle: an independent validator
// (own multihash framing + SHA-256 over index||parent||E, ECDSA verification with crypto/ecdsa,
// counter check) decides whether the message that reached the receiver is authentic;
// success => authentic, rejection => receiver state unchanged.

import (
	"bytes"
	"crypto/ecdsa"
	"crypto/sha256"
	"encoding/asn1"
	"encoding/binary"
	"encoding/json"
	"fmt"
	mbig "math/big"
	"strings"
	"testing"
	"time"

	"github.com/fxamacker/cbor"
	"github.com/privacybydesign/gabi/big"
	"github.com/privacybydesign/gabi/gabikeys"
	"github.com/privacybydesign/gabi/internal/verif/vkit"
)

// ---- independent validator ------------------------------------------------------------------

func c10EventHash(e *Event) []byte {
	b := make([]byte, 8)
	binary.BigEndian.PutUint64(b, e.Index)
	b = append(b, e.ParentHash...)
	b = append(b, e.E.Bytes()...)
	d := sha256.Sum256(b)
	return append([]byte{0x12, 0x20}, d[:]...)
}

// c10Authentic returns the accumulator if the update (as it reached the receiver) is authentic.
func c10Authentic(pk *gabikeys.PublicKey, sacc *SignedAccumulator, events []*Event) (*Accumulator, string) {
	if sacc == nil {
		return nil, "no accumulator"
	}
	if sacc.PKCounter != pk.Counter {
		return nil, "key counter mismatch"
	}
	var tup struct{ Msg, Sig []byte }
	if err := cbor.Unmarshal(sacc.Data, &tup); err != nil {
		return nil, "tuple undecodable"
	}
	var sig struct{ R, S *mbig.Int }
	rest, err := asn1.Unmarshal(tup.Sig, &sig)
	if err != nil || len(rest) != 0 {
		return nil, "signature undecodable"
	}
	h := sha256.Sum256(tup.Msg)
	if !ecdsa.Verify(pk.ECDSA, h[:], sig.R, sig.S) {
		return nil, "signature invalid"
	}
	var acc Accumulator
	if err := cbor.Unmarshal(tup.Msg, &acc); err != nil {
		return nil, "accumulator undecodable"
	}
	if len(events) == 0 {
		return &acc, ""
	}
	// the first event's parent is not part of the message: its parent hash can only be checked for being
	// a hash at all (multihash: code 0x12 = SHA2-256, length 0x20, 32 digest bytes) - anything else in
	// that field is extra material under the event's own hash
	if ph := events[0].ParentHash; len(ph) != 34 || ph[0] != 0x12 || ph[1] != 0x20 {
		return nil, fmt.Sprintf("first event's parent hash is not a well-formed SHA2-256 multihash (%d bytes)", len(ph))
	}
	for i, e := range events {
		if e == nil || e.E == nil {
			return nil, "nil event"
		}
		if e.Index != events[0].Index+uint64(i) {
			return nil, fmt.Sprintf("event %d has wrong index", i)
		}
		if i > 0 && !bytes.Equal(e.ParentHash, c10EventHash(events[i-1])) {
			return nil, fmt.Sprintf("event %d has wrong parent hash", i)
		}
	}
	if !bytes.Equal(acc.EventHash, c10EventHash(events[len(events)-1])) {
		return nil, "chain does not end in the signed event hash"
	}
	return &acc, ""
}

// ---- copies / transport ------------------------------------------------------------------------

func c10CopyEvents(evs []*Event) []*Event {
	out := make([]*Event, len(evs))
	for i, e := range evs {
		out[i] = &Event{Index: e.Index, E: new(big.Int).Set(e.E), ParentHash: append(Hash{}, e.ParentHash...)}
	}
	return out
}

// c10Wire models what a receiver holds: no cached Accumulator pointer.
func c10Wire(u *Update) *Update {
	return &Update{SignedAccumulator: &SignedAccumulator{Data: append([]byte{}, u.SignedAccumulator.Data...), PKCounter: u.SignedAccumulator.PKCounter}, Events: c10CopyEvents(u.Events)}
}

// c10TransportInto encodes u and decodes it into dst, a value that may have been used before.
func c10TransportInto(u *Update, form string, dst *Update) error {
	if form == "json" {
		b, err := json.Marshal(u)
		if err != nil {
			return err
		}
		return json.Unmarshal(b, dst)
	}
	b, err := cbor.Marshal(u, cbor.EncOptions{})
	if err != nil {
		return err
	}
	return cbor.Unmarshal(b, dst)
}

func c10Transport(u *Update, form string) (*Update, error) {
	switch form {
	case "memory":
		return u, nil
	case "json":
		b, err := json.Marshal(u)
		if err != nil {
			return nil, err
		}
		var out Update
		if err := json.Unmarshal(b, &out); err != nil {
			return nil, err
		}
		return &out, nil
	case "cbor":
		b, err := cbor.Marshal(u, cbor.EncOptions{})
		if err != nil {
			return nil, err
		}
		var out Update
		if err := cbor.Unmarshal(b, &out); err != nil {
			return nil, err
		}
		return &out, nil
	}
	panic(form)
}

// ---- corruption menu -----------------------------------------------------------------------------

type c10Cor struct {
	class string
	desc  string
	f     func(u *Update)
	light bool // member of the reduced menu used for pairs
}

func c10Corruptions(world, other *rvWorld, base *Update) []c10Cor {
	var cs []c10Cor
	add := func(class, desc string, light bool, f func(u *Update)) {
		cs = append(cs, c10Cor{class, desc, f, light})
	}
	n := len(base.Events)
	// the sender fills in the field in which the receiver's library keeps the accumulator it has verified
	// (it is not part of the wire format): a forged accumulator whose event hash fits an altered chain,
	// or an older accumulator with the chain that leads up to it.  Class names starting with "wire-only:"
	// are skipped for the in-memory hand-over, where the sender's objects are the receiver's by design.
	if n >= 1 {
		add("wire-only:accumulator-cache-preset", "cache field preset with a forged accumulator matching an altered last event", false, func(u *Update) {
			u.Events[n-1].E = new(big.Int).Add(u.Events[n-1].E, big.NewInt(2))
			forged := *world.Accs[base.SignedAccumulator.Accumulator.Index]
			forged.EventHash = u.Events[n-1].hash()
			u.SignedAccumulator.Accumulator = &forged
		})
	}
	if k := int(base.SignedAccumulator.Accumulator.Index); k >= 2 && n >= 2 {
		add("wire-only:accumulator-cache-preset", "cache field preset with the previous accumulator, last event dropped", false, func(u *Update) {
			older := *world.Accs[k-1]
			u.Events = u.Events[:n-1]
			u.SignedAccumulator.Accumulator = &older
		})
	}
	// the event hash covers index || parent hash || E without length framing: bytes moved from the front of
	// E to the end of the parent hash leave every hash of the chain unchanged
	for i := 0; i < n; i++ {
		i := i
		for _, kb := range []int{1, 2} {
			kb := kb
			add("byte-shift", fmt.Sprintf("top %d byte(s) of E[%d] moved to the end of its parent hash", kb, i), false, func(u *Update) {
				eb := u.Events[i].E.Bytes()
				if len(eb) <= kb {
					panic("E too short")
				}
				u.Events[i].ParentHash = append(append(Hash{}, u.Events[i].ParentHash...), eb[:kb]...)
				u.Events[i].E = new(big.Int).SetBytes(eb[kb:])
			})
		}
	}
	for i := 0; i < n; i++ {
		i := i
		add("event-value", fmt.Sprintf("E[%d]+1", i), i == 0 || i == n-1, func(u *Update) { u.Events[i].E = new(big.Int).Add(u.Events[i].E, big.NewInt(1)) })
		add("event-value", fmt.Sprintf("E[%d]-1", i), false, func(u *Update) { u.Events[i].E = new(big.Int).Sub(u.Events[i].E, big.NewInt(1)) })
		add("event-index", fmt.Sprintf("index[%d]+1", i), i == 0, func(u *Update) { u.Events[i].Index++ })
		add("event-index", fmt.Sprintf("index[%d]-1", i), i == n-1, func(u *Update) { u.Events[i].Index-- })
		if i+1 < n {
			add("event-swap", fmt.Sprintf("events %d<->%d swapped", i, i+1), i == 0, func(u *Update) { u.Events[i], u.Events[i+1] = u.Events[i+1], u.Events[i] })
			add("event-value-swap", fmt.Sprintf("E[%d]<->E[%d]", i, i+1), false, func(u *Update) { u.Events[i].E, u.Events[i+1].E = u.Events[i+1].E, u.Events[i].E })
		}
		add("event-delete", fmt.Sprintf("event %d deleted", i), i == 0 || i == n-1 || i == n/2, func(u *Update) { u.Events = append(u.Events[:i], u.Events[i+1:]...) })
		add("event-duplicate", fmt.Sprintf("event %d duplicated", i), i == n-1, func(u *Update) {
			c := *u.Events[i]
			u.Events = append(u.Events[:i+1], append([]*Event{&c}, u.Events[i+1:]...)...)
		})
		add("event-insert", fmt.Sprintf("foreign event inserted before %d", i), false, func(u *Update) {
			f := &Event{Index: u.Events[i].Index, E: big.NewInt(10211), ParentHash: append(Hash{}, u.Events[i].ParentHash...)}
			u.Events = append(u.Events[:i], append([]*Event{f}, u.Events[i:]...)...)
		})
		// parent hash
		hl := len(base.Events[i].ParentHash)
		for b := 0; b < hl; b++ {
			b := b
			add("parent-hash-byte", fmt.Sprintf("parenthash[%d] byte %d flipped", i, b), i == 0 && (b == 0 || b == hl-1), func(u *Update) { u.Events[i].ParentHash[b] ^= 0x40 })
		}
		for l := 0; l < hl; l++ {
			l := l
			add("parent-hash-truncated", fmt.Sprintf("parenthash[%d] truncated to %d bytes", i, l), i == n-1 && (l == 0 || l == 2 || l == hl-1), func(u *Update) { u.Events[i].ParentHash = u.Events[i].ParentHash[:l] })
		}
		add("parent-hash-extended", fmt.Sprintf("parenthash[%d] extended by one byte", i), false, func(u *Update) { u.Events[i].ParentHash = append(u.Events[i].ParentHash, 0) })
		add("parent-hash-algorithm", fmt.Sprintf("parenthash[%d] algorithm code 0x13", i), false, func(u *Update) { u.Events[i].ParentHash[0] = 0x13 })
		add("parent-hash-shorter-digest", fmt.Sprintf("parenthash[%d] = well-formed sha1 multihash prefix", i), false, func(u *Update) {
			h := u.Events[i].ParentHash
			u.Events[i].ParentHash = append(Hash{0x11, 0x14}, h[2:22]...)
		})
		add("parent-hash-shorter-digest", fmt.Sprintf("parenthash[%d] = sha2-256 multihash with 16-byte digest", i), false, func(u *Update) {
			h := u.Events[i].ParentHash
			u.Events[i].ParentHash = append(Hash{0x12, 0x10}, h[2:18]...)
		})
	}
	dl := len(base.SignedAccumulator.Data)
	for b := 0; b < dl; b++ {
		b := b
		add("signed-data-byte", fmt.Sprintf("signed accumulator byte %d flipped", b), b == 5 || b == dl-3, func(u *Update) { u.SignedAccumulator.Data[b] ^= 0x01 })
	}
	add("signed-data-truncated", "signed accumulator truncated", false, func(u *Update) { u.SignedAccumulator.Data = u.SignedAccumulator.Data[:dl-1] })
	add("key-counter", "pk counter+1", true, func(u *Update) { u.SignedAccumulator.PKCounter++ })
	add("key-counter", "pk counter-1", false, func(u *Update) { u.SignedAccumulator.PKCounter-- })
	// accumulator replaced by other validly signed ones
	for k := range world.Saccs {
		k := k
		if uint64(k) == base.SignedAccumulator.Accumulator.Index {
			continue
		}
		add("accumulator-substituted", fmt.Sprintf("signed accumulator replaced by the issuer's accumulator %d", k), k == 0, func(u *Update) {
			u.SignedAccumulator = &SignedAccumulator{Data: append([]byte{}, world.Saccs[k].Data...), PKCounter: world.Saccs[k].PKCounter}
		})
	}
	last := len(other.Saccs) - 1
	add("accumulator-foreign-key", "signed accumulator of another issuer key (same counter)", true, func(u *Update) {
		u.SignedAccumulator = &SignedAccumulator{Data: append([]byte{}, other.Saccs[last].Data...), PKCounter: u.SignedAccumulator.PKCounter}
	})
	add("events-foreign", "events of another issuer's chain", false, func(u *Update) {
		if len(u.Events) > 0 {
			u.Events = c10CopyEvents(other.Events[len(other.Events)-len(u.Events):])
		}
	})
	return cs
}

// ---- the check -----------------------------------------------------------------------------------

func TestVerifC10(t *testing.T) {
	r := vkit.Start(t, "C10", "update-corruptions", 240*time.Second, 1500*time.Second)
	defer r.Finish()
	r.Rule = "base updates with 0,1,4,8,9 events of a 8-revocation history; every single corruption of the menu (event value/index +-1, swaps, delete/duplicate/insert, every byte flip / truncation length / extension / algorithm code / shorter well-formed digest of every parent hash, every byte of the signed accumulator blob, key counter +-1, accumulator substituted by every other validly signed one or by another key's, foreign events, the library's unexported-by-tag cache field for the verified accumulator filled in by the sender), thorough: every pair from the reduced menu; x transport {memory, JSON, CBOR, JSON / CBOR with the corruption made on the decoded object, and JSON / CBOR decoded into an Update value that already received and verified the authentic message (whose signed-accumulator object, as handed to witnesses, must stay as it was)} ; one received object verified under the issuer's key and then presented under another key (same / other counter); x operations {Update.Verify, Witness.Update on witnesses just before / inside / at / ahead of the message's window incl. re-signed accumulators with a later time, Update.Prepend (onto an update with and without events of its own), EventList.Verify}; non-trivial = corruption whose received message differs from the base; oracle: independent validator - success => authentic, rejection => receiver state unchanged"
	rvInstallEnv(t, "C10", r.Seed)
	sk, pk := rvKeys(32, 7)
	sk2, pk2 := rvKeys(32, 7)
	_, pk3 := rvKeys(32, 8)
	_ = pk2
	var es []*big.Int
	for i := 0; i < 8; i++ {
		es = append(es, rvPrime(2+i))
	}
	world := rvNewWorld(sk, pk, es)
	other := rvNewWorld(sk2, pk2, es)
	H := 8
	type baseSpec struct {
		a, b int
		dt   int64 // the accumulator is (re-)signed dt seconds later than the one witnesses are issued against
	}
	bases := []baseSpec{{1, H, 0}, {5, H, 0}, {H, H, 0}, {0, H, 0}, {H + 1, H, 0}, {2, 5, 0}, {5, H, 10}, {H + 1, H, 10}}
	forms := []string{"memory", "json", "cbor", "json>corrupt", "cbor>corrupt", "json>used-receiver", "cbor>used-receiver"}
	for bi, bs := range bases {
		base := world.Window(bs.a, bs.b, bs.dt)
		// one received object presented to verifiers holding DIFFERENT keys: accepted under the issuer's key,
		// it must still be refused under another issuer's key with the same counter and under a key with
		// another counter - whatever the first verification left in the object
		if _, mine := r.Next(); mine {
			for _, form := range []string{"json", "cbor"} {
				for _, ok2 := range []struct {
					name string
					pk   *gabikeys.PublicKey
				}{{"another issuer's key with the same counter", pk2}, {"a key with another counter", pk3}} {
					r.Eval()
					desc := fmt.Sprintf("base %d (%s): verified under the issuer's key, then presented under %s", bi, form, ok2.name)
					r.Nontrivial(desc)
					recv, err := c10Transport(c10Wire(base), form)
					if err != nil {
						continue
					}
					if _, err := recv.Verify(pk); err != nil {
						r.Violate("C10|authentic-update-rejected", desc+": "+err.Error(), desc)
						continue
					}
					var err2 error
					pan, _ := vkit.Guard(func() { _, err2 = recv.Verify(ok2.pk) })
					r.Outcome(fmt.Sprintf("second-key:rejected=%v", pan || err2 != nil))
					if !pan && err2 == nil {
						r.Violate("C10|Update.Verify-accepted-under-another-key|after-a-verification-under-the-right-key", desc, desc)
					}
				}
			}
		}
		cors := c10Corruptions(world, other, base)
		var list [][]c10Cor
		for _, c := range cors {
			list = append(list, []c10Cor{c})
		}
		if vkit.Thorough() {
			var light []c10Cor
			for _, c := range cors {
				if c.light {
					light = append(light, c)
				}
			}
			for i := range light {
				for j := i + 1; j < len(light); j++ {
					list = append(list, []c10Cor{light[i], light[j]})
				}
			}
		}
		list = append(list, nil) // the uncorrupted message (completeness)
		r.Sample(map[string]any{"base": fmt.Sprintf("events %d..%d, accumulator %d", bs.a, bs.b, bs.b), "single_corruptions": len(cors), "cases": len(list)})
		for _, combo := range list {
			class, desc := "none", "uncorrupted"
			for i, c := range combo {
				if i == 0 {
					class, desc = c.class, c.desc
				} else {
					class, desc = class+"+"+c.class, desc+" & "+c.desc
				}
			}
			// the number of corruptions depends on the length of this process's (randomised) ECDSA
			// signatures, so cases are dealt to shards by description, not by running number
			if !r.MineKey(fmt.Sprintf("%d|%s", bi, desc)) {
				continue
			}
			if r.Expired() {
				return
			}
			for _, form := range forms {
				if strings.HasPrefix(class, "wire-only:") && (form == "memory" || strings.HasSuffix(form, ">corrupt")) {
					continue
				}
				var recv *Update
				// received() yields the message object as the receiver holds it.  For the plain forms the
				// corruption happens before transport; for "<form>>corrupt" the authentic message is
				// transported first and the decoded object is corrupted in place (whatever decoding left in
				// unexported fields of the events stays), e.g. by a component between decoder and verifier.
				received := func() *Update {
					if strings.HasSuffix(form, ">used-receiver") {
						// the receiver decodes into an Update value that already received (and verified) the authentic
						// message: whatever that left inside the value must not vouch for the next message
						inner := strings.TrimSuffix(form, ">used-receiver")
						used, err := c10Transport(c10Wire(base), inner)
						if err != nil {
							return nil
						}
						if _, err := used.Verify(pk); err != nil {
							return nil
						}
						// (a witness that was updated with the first message holds its signed-accumulator OBJECT: receiving
						// another message must not write into it)
						handedOut := used.SignedAccumulator
						snapshot := append([]byte{}, handedOut.Data...)
						snapCounter := handedOut.PKCounter
						u := c10Wire(base)
						for _, c := range combo {
							c.f(u)
						}
						if c10TransportInto(u, inner, used) != nil {
							return nil
						}
						if !bytes.Equal(snapshot, handedOut.Data) || snapCounter != handedOut.PKCounter {
							r.Violate("C10|receiving-a-message-altered-an-object-handed-out-earlier|"+class, fmt.Sprintf("base %d, %s (%s): decoding the message into the used Update value wrote into the signed-accumulator object of the message received before (which witnesses updated with it hold)", bi, desc, form), map[string]any{"base": bi, "corruption": desc, "transport": form})
						}
						return used
					}
					if strings.HasSuffix(form, ">corrupt") {
						out, err := c10Transport(c10Wire(base), strings.TrimSuffix(form, ">corrupt"))
						if err != nil {
							return nil
						}
						for _, c := range combo {
							c.f(out)
						}
						return out
					}
					if strings.HasPrefix(class, "wire-only:") {
						// exactly what the decoder produced, nothing normalised
						u := c10Wire(base)
						for _, c := range combo {
							c.f(u)
						}
						out, err := c10Transport(u, form)
						if err != nil {
							return nil
						}
						return out
					}
					return c10Wire(recv)
				}
				pan, msg := vkit.Guard(func() {
					if strings.HasSuffix(form, ">corrupt") || strings.HasSuffix(form, ">used-receiver") {
						recv = received()
						return
					}
					u := c10Wire(base)
					for _, c := range combo {
						c.f(u)
					}
					var err error
					recv, err = c10Transport(u, form)
					if err != nil {
						recv = nil
					}
				})
				if pan {
					r.Count("corruption not applicable / not transportable ("+form+")", 1)
					_ = msg
					continue
				}
				if recv == nil {
					r.Count("corrupted message refused by the decoder ("+form+")", 1)
					continue
				}
				auth, why := c10Authentic(pk, recv.SignedAccumulator, recv.Events)
				rep := map[string]any{"base": bi, "corruption": desc, "transport": form, "validator": why}
				// (1) Update.Verify
				r.Eval()
				var acc *Accumulator
				var err error
				var u1 *Update
				if pan, _ := vkit.Guard(func() { u1 = received() }); pan || u1 == nil {
					continue
				}
				if pan, msg := vkit.Guard(func() { acc, err = u1.Verify(pk) }); pan {
					r.Count("panic in Update.Verify (not success)", 1)
					_ = msg
				} else {
					r.Outcome(fmt.Sprintf("verify:%s:auth=%v:ok=%v", class, auth != nil, err == nil))
					if err == nil && auth == nil {
						r.Violate("C10|Update.Verify-accepted-unauthentic|"+class, fmt.Sprintf("base %d (%s), %s: accepted although %s", bi, form, desc, why), rep)
					}
					if err != nil && auth != nil && len(combo) == 0 {
						r.Violate("C10|authentic-update-rejected|Update.Verify", fmt.Sprintf("base %d (%s): %v", bi, form, err), rep)
					}
					_ = acc
				}
				if len(combo) > 0 {
					r.Nontrivial(fmt.Sprintf("%d|%s|%s", bi, form, desc))
				}
				// (1b) the same received object used again (a receiver that retries, or verifies and then
				// applies): the verdict must not change because of state left behind by the first use
				for attempt := 2; attempt <= 3; attempt++ {
					r.Eval()
					var err2 error
					if pan, _ := vkit.Guard(func() { _, err2 = u1.Verify(pk) }); pan {
						break
					}
					if err2 == nil && auth == nil {
						r.Violate("C10|Update.Verify-accepted-unauthentic-on-reuse|"+class, fmt.Sprintf("base %d (%s), %s: attempt %d on the same message object accepted although %s", bi, form, desc, attempt, why), rep)
						break
					}
				}
				if len(base.Events) > 0 && bs.a >= 1 {
					r.Eval()
					w := world.Witness(bs.a-1, rvPrime(0))
					before := rvSnapshot(w)
					var uerr error
					if pan, _ := vkit.Guard(func() { uerr = w.Update(pk, u1) }); !pan {
						if changed := !before.Equal(rvSnapshot(w)); changed && auth == nil && uerr == nil {
							r.Violate("C10|Witness.Update-accepted-unauthentic-on-reuse|"+class, fmt.Sprintf("base %d (%s), %s: witness advanced by a message object that had been rejected before (%s)", bi, form, desc, why), rep)
						}
					}
				}
				// (2) Witness.Update on a witness at every position relative to the message: just before the
				// first event, inside the window, at the accumulator's own index (the message then only
				// refreshes the time, or is stale), and ahead of it
				var positions []int
				for _, pos := range []int{bs.a - 1, (bs.a + bs.b) / 2, bs.b, bs.b + 1} {
					if pos < 0 || pos > H {
						continue
					}
					dup := false
					for _, q := range positions {
						dup = dup || q == pos
					}
					if !dup {
						positions = append(positions, pos)
					}
				}
				for _, pos := range positions {
					r.Eval()
					w := world.Witness(pos, rvPrime(0))
					before := rvSnapshot(w)
					var u2 *Update
					if pan, _ := vkit.Guard(func() { u2 = received() }); pan || u2 == nil {
						continue
					}
					var uerr error
					if pan, _ := vkit.Guard(func() { uerr = w.Update(pk, u2) }); pan {
						r.Count("panic in Witness.Update (not success)", 1)
						if !before.Equal(rvSnapshot(w)) {
							r.Violate("C10|receiver-state-changed-on-rejection|Witness.Update-panic|"+class, desc, rep)
						}
					} else {
						after := rvSnapshot(w)
						changed := !before.Equal(after)
						if uerr != nil && changed {
							r.Violate("C10|receiver-state-changed-on-rejection|Witness.Update|"+class, fmt.Sprintf("%s (%s): error %v but witness changed", desc, form, uerr), rep)
						}
						r.Outcome(fmt.Sprintf("Witness.Update:position=%s:auth=%v:ok=%v:changed=%v", c10PosClass(pos, bs.a, bs.b), auth != nil, uerr == nil, changed))
						if uerr == nil && auth == nil {
							r.Violate("C10|Witness.Update-accepted-unauthentic|"+class+"|witness "+c10PosClass(pos, bs.a, bs.b), fmt.Sprintf("base %d (%s), %s: Witness.Update of a witness at index %d succeeded (witness changed: %v) although %s", bi, form, desc, pos, changed, why), rep)
						}
						if changed && w.Verify(pk) != nil {
							r.Violate("C10|Witness.Update-left-invalid-witness|"+class, desc, rep)
						}
					}
				}
				// (3) Prepend: the received events (as an EventList) are prepended to the authentic tail
				if len(base.Events) >= 2 && bs.b == H {
					for _, premark := range []bool{false, true} {
						r.Eval()
						split := len(recv.Events) / 2
						if split == 0 || split >= len(recv.Events) {
							continue
						}
						var el *EventList
						if premark {
							// as received over the wire: deserialised lists carry the 'verified' mark
							b, err := json.Marshal(NewEventList(c10CopyEvents(recv.Events[:split])...))
							if err != nil {
								continue
							}
							el = &EventList{ComputeProduct: true}
							if json.Unmarshal(b, el) != nil {
								continue
							}
						} else {
							el = NewEventList(c10CopyEvents(recv.Events[:split])...)
						}
						// tail: authentic update over the remaining original events
						firstTail := int(base.Events[0].Index) + split
						tail := world.Window(firstTail, H, 0)
						tailBefore := fmt.Sprint(len(tail.Events), tail.Events[0].Index, tail.SignedAccumulator.Data)
						var perr error
						if pan, _ := vkit.Guard(func() { perr = tail.Prepend(el) }); pan {
							r.Count("panic in Update.Prepend (not success)", 1)
							continue
						}
						if perr != nil {
							if fmt.Sprint(len(tail.Events), tail.Events[0].Index, tail.SignedAccumulator.Data) != tailBefore {
								r.Violate("C10|receiver-state-changed-on-rejection|Update.Prepend|"+class, desc, rep)
							}
							continue
						}
						if a2, why2 := c10Authentic(pk, c10Wire(tail).SignedAccumulator, tail.Events); a2 == nil {
							r.Violate(fmt.Sprintf("C10|Update.Prepend-produced-unauthentic-update|premarked=%v|%s", premark, class), fmt.Sprintf("base %d, %s: Prepend succeeded but the result is not authentic: %s", bi, desc, why2), rep)
						} else if tail.product != nil {
							want := big.NewInt(1)
							for _, e := range tail.Events {
								want.Mul(want, e.E)
							}
							if tail.product.Cmp(want) != 0 && tail.productFromOK() {
								r.Violate("C10|Update.Prepend-cached-wrong-product", desc, rep)
							}
						}
					}
				}
				// (3b) Prepend onto an update that holds no events of its own (only the signed accumulator the
				// received events should lead up to)
				if len(recv.Events) >= 1 && bs.b == H {
					for _, premark := range []bool{false, true} {
						r.Eval()
						var el *EventList
						if premark {
							b, err := json.Marshal(NewEventList(c10CopyEvents(recv.Events)...))
							if err != nil {
								continue
							}
							el = &EventList{ComputeProduct: true}
							if json.Unmarshal(b, el) != nil {
								continue
							}
						} else {
							el = NewEventList(c10CopyEvents(recv.Events)...)
						}
						tail := world.Window(H+1, H, 0)
						if _, err := tail.Verify(pk); err != nil {
							r.HarnessError("eventless update does not verify: %v", err)
							return
						}
						var perr error
						pan, msg := vkit.Guard(func() { perr = tail.Prepend(el) })
						// judged on the events the list really holds (encoding a list for transport drops the inner
						// parent hashes and indices, so some corruptions do not survive it)
						authAll, whyAll := c10Authentic(pk, c10Wire(world.Window(H+1, H, 0)).SignedAccumulator, el.Events)
						switch {
						case pan:
							r.Violate("C10|Update.Prepend-panicked|eventless-update|"+class, fmt.Sprintf("base %d, %s: %s", bi, desc, msg), rep)
						case perr == nil && authAll == nil:
							r.Violate(fmt.Sprintf("C10|Update.Prepend-produced-unauthentic-update|eventless-update|premarked=%v|%s", premark, class), fmt.Sprintf("base %d, %s: %s", bi, desc, whyAll), rep)
						case perr != nil && authAll != nil && len(combo) == 0 && form == "memory":
							r.Violate("C10|authentic-update-rejected|Update.Prepend onto an eventless update", fmt.Sprintf("base %d: %v", bi, perr), rep)
						case perr != nil && len(tail.Events) != 0:
							r.Violate("C10|receiver-state-changed-on-rejection|Update.Prepend|eventless-update|"+class, desc, rep)
						}
						r.Outcome(fmt.Sprintf("prepend-to-eventless:auth=%v:ok=%v", authAll != nil, perr == nil && !pan))
					}
				}
				// (4) EventList.Verify directly (fresh object) against the accumulator the receiver trusts
				if auth != nil || len(combo) == 0 {
					continue
				}
				if trusted, _ := c10Authentic(pk, c10Wire(base).SignedAccumulator, nil); trusted != nil && len(recv.Events) > 0 {
					r.Eval()
					el := NewEventList(c10CopyEvents(recv.Events)...)
					var verr error
					if pan, _ := vkit.Guard(func() { verr = el.Verify(trusted) }); !pan && verr == nil {
						if a3, why3 := c10Authentic(pk, c10Wire(base).SignedAccumulator, recv.Events); a3 == nil {
							r.Violate("C10|EventList.Verify-accepted-broken-chain|"+class, fmt.Sprintf("%s: %s", desc, why3), rep)
						}
					}
				}
			}
		}
	}
}

// productFromOK reports whether the cached product claims to start at the first event.
func (update *Update) productFromOK() bool {
	return len(update.Events) > 0 && update.productFrom == update.Events[0].Index
}

func TestVerifC10EventListMemo(t *testing.T) {
	r := vkit.Start(t, "C10", "eventlist-memo", 60*time.Second, 300*time.Second)
	defer r.Finish()
	r.Rule = "EventList.Verify on one list object against every accumulator of the history, in every order of two calls, for fresh and for deserialised (JSON/CBOR) lists over every contiguous window; non-trivial = distinct (window, form, accumulator pair); oracle: success => the list ends in the event hash of the accumulator passed to that call"
	rvInstallEnv(t, "C10memo", r.Seed)
	sk, pk := rvKeys(32, 3)
	var es []*big.Int
	H := vkit.Pick(4, 6)
	for i := 0; i < H; i++ {
		es = append(es, rvPrime(2+i))
	}
	world := rvNewWorld(sk, pk, es)
	for a := 0; a <= H; a++ {
		for b := a; b <= H; b++ {
			for _, form := range []string{"fresh", "json", "cbor"} {
				for k1 := 0; k1 <= H; k1++ {
					for k2 := 0; k2 <= H; k2++ {
						if _, mine := r.Next(); !mine {
							continue
						}
						mk := func() *EventList {
							el := NewEventList(c10CopyEvents(world.Events[a : b+1])...)
							switch form {
							case "json":
								bts, _ := json.Marshal(el)
								out := &EventList{}
								if json.Unmarshal(bts, out) != nil {
									return nil
								}
								return out
							case "cbor":
								bts, _ := cbor.Marshal(el, cbor.EncOptions{})
								out := &EventList{}
								if cbor.Unmarshal(bts, out) != nil {
									return nil
								}
								return out
							}
							return el
						}
						el := mk()
						if el == nil {
							continue
						}
						r.Eval()
						r.Nontrivial(fmt.Sprintf("%d|%d|%s|%d|%d", a, b, form, k1, k2))
						for call, k := range []int{k1, k2} {
							err := el.Verify(world.Accs[k])
							ends := bytes.Equal(c10EventHash(world.Events[b]), world.Accs[k].EventHash)
							r.Outcome(fmt.Sprintf("%s:call%d:ends=%v:ok=%v", form, call, ends, err == nil))
							if err == nil && !ends {
								r.Violate(fmt.Sprintf("C10|EventList.Verify-accepted-wrong-accumulator|%s|call%d", form, call),
									fmt.Sprintf("events %d..%d (%s) verified against accumulator %d (call %d after accumulator %d) although the chain ends at event %d", a, b, form, k, call, k1, b),
									map[string]any{"window": []int{a, b}, "form": form, "accs": []int{k1, k2}})
							}
							if err != nil && ends {
								r.Violate("C10|EventList.Verify-rejected-authentic-list|"+form, fmt.Sprintf("events %d..%d against accumulator %d: %v", a, b, k, err), nil)
							}
						}
					}
				}
			}
		}
	}
	r.Sample(map[string]any{"H": H, "windows": "all contiguous", "forms": []string{"fresh", "json", "cbor"}, "accumulator_pairs": (H + 1) * (H + 1)})
}

func TestVerifC10PrependRoutes(t *testing.T) {
	r := vkit.Start(t, "C10", "prepend-routes", 100*time.Second, 400*time.Second)
	defer r.Finish()
	r.Rule = "Update.Prepend fed by event lists that arrive the way receivers obtain them: (a) every pair of transported (JSON, ComputeProduct) windows of older events, in both orders, with and without gaps / overlaps, combined by FlattenEventLists; (b) a single list that was verified and then had one event altered in place; onto every authentic tail [k..H]; non-trivial = distinct (tail, windows, route); oracle: Prepend succeeds => the resulting update is authentic per the independent validator and its cached product equals the product of its events; failure => tail unchanged and still usable (witnesses at every index of its window are updated by it)"
	rvInstallEnv(t, "C10prepend", r.Seed)
	sk, pk := rvKeys(32, 5)
	H := vkit.Pick(6, 8)
	var es []*big.Int
	for i := 0; i < H; i++ {
		es = append(es, rvPrime(2+i))
	}
	world := rvNewWorld(sk, pk, es)
	transport := func(a, b int) *EventList {
		bts, _ := json.Marshal(NewEventList(c10CopyEvents(world.Events[a : b+1])...))
		el := &EventList{ComputeProduct: true}
		if json.Unmarshal(bts, el) != nil {
			return nil
		}
		return el
	}
	judge := func(route, desc string, tail *Update, before string, err error, pan bool) {
		r.Eval()
		r.Nontrivial(route + "|" + desc)
		rep := map[string]any{"route": route, "case": desc}
		if pan {
			r.Count("panic in Prepend / FlattenEventLists (not success)", 1)
			return
		}
		if err != nil {
			if fmt.Sprint(len(tail.Events), tail.Events[0].Index) != before {
				r.Violate("C10|receiver-state-changed-on-rejection|Update.Prepend|"+route, desc, rep)
			}
			// ... and it must still WORK as before: whatever the refused list left in the update (cached
			// products), witnesses at every index inside its window are still brought to its accumulator
			for idx := int(tail.Events[0].Index) - 1; idx < int(tail.Events[len(tail.Events)-1].Index); idx++ {
				w := world.Witness(idx, rvPrime(0))
				var uerr error
				if upan, _ := vkit.Guard(func() { uerr = w.Update(pk, tail) }); upan || uerr != nil || w.Verify(pk) != nil {
					r.Violate("C10|receiver-state-changed-on-rejection|Update.Prepend|update-no-longer-usable|"+route, fmt.Sprintf("%s: after the refused Prepend a witness at index %d cannot be updated with the (authentic) update any more: %v", desc, idx, uerr), rep)
					break
				}
			}
			r.Outcome(route + ":rejected")
			return
		}
		r.Outcome(route + ":accepted")
		if a, why := c10Authentic(pk, c10Wire(tail).SignedAccumulator, tail.Events); a == nil {
			r.Violate("C10|Update.Prepend-produced-unauthentic-update|"+route, fmt.Sprintf("%s: Prepend succeeded, result not authentic: %s", desc, why), rep)
			return
		}
		if tail.product != nil {
			want := big.NewInt(1)
			for _, e := range tail.Events[int(tail.productFrom-tail.Events[0].Index):] {
				want.Mul(want, e.E)
			}
			if tail.product.Cmp(want) != 0 {
				r.Violate("C10|Update.Prepend-cached-wrong-product|"+route, desc, rep)
			}
		}
	}
	for k := 2; k <= H; k++ {
		if _, mine := r.Next(); !mine {
			continue
		}
		// (a) two transported windows below k
		for a1 := 0; a1 < k; a1++ {
			for b1 := a1; b1 < k; b1++ {
				for a2 := 0; a2 < k; a2++ {
					for b2 := a2; b2 < k; b2++ {
						l1, l2 := transport(a1, b1), transport(a2, b2)
						if l1 == nil || l2 == nil {
							continue
						}
						tail := world.Window(k, H, 0)
						before := fmt.Sprint(len(tail.Events), tail.Events[0].Index)
						var err error
						pan, _ := vkit.Guard(func() {
							var fl *EventList
							fl, err = FlattenEventLists([]*EventList{l1, l2})
							if err == nil {
								err = tail.Prepend(fl)
							}
						})
						judge("flatten-two-windows", fmt.Sprintf("tail %d..%d, windows %d..%d and %d..%d", k, H, a1, b1, a2, b2), tail, before, err, pan)
					}
				}
			}
		}
		// (b) verified list, then one event altered in place, then prepended
		for a := 0; a < k; a++ {
			for i := a; i < k; i++ {
				el := NewEventList(c10CopyEvents(world.Events[a:k])...)
				if err := el.Verify(world.Accs[k-1]); err != nil {
					r.Violate("C10|EventList.Verify-rejected-authentic-list|fresh", err.Error(), nil)
					continue
				}
				el.Events[i-a].E = new(big.Int).Add(el.Events[i-a].E, big.NewInt(2))
				tail := world.Window(k, H, 0)
				before := fmt.Sprint(len(tail.Events), tail.Events[0].Index)
				var err error
				pan, _ := vkit.Guard(func() { err = tail.Prepend(el) })
				judge("verified-then-altered", fmt.Sprintf("tail %d..%d, list %d..%d with event %d altered after Verify", k, H, a, k-1, i), tail, before, err, pan)
			}
		}
	}
	r.Sample(map[string]any{"H": H, "routes": []string{"flatten-two-windows", "verified-then-altered"}})
}

func TestVerifC10HashEqual(t *testing.T) {
	r := vkit.Start(t, "C10", "hash-equal", 30*time.Second, 120*time.Second)
	defer r.Finish()
	r.Rule = "Hash.Equal(a,b) for a,b over every prefix (0..34 bytes) and one-byte extension of two event hashes, and every single-byte change; non-trivial = distinct (a,b) byte strings; oracle: true iff the byte strings are identical"
	rvInstallEnv(t, "C10hash", r.Seed)
	sk, pk := rvKeys(32, 0)
	world := rvNewWorld(sk, pk, []*big.Int{rvPrime(3)})
	h1, h2 := world.Events[0].hash(), world.Events[1].hash()
	var cands []Hash
	for _, h := range []Hash{h1, h2} {
		for l := 0; l <= len(h); l++ {
			cands = append(cands, append(Hash{}, h[:l]...))
		}
		cands = append(cands, append(append(Hash{}, h...), 0), append(append(Hash{}, h...), 0xff))
		for i := range h {
			c := append(Hash{}, h...)
			c[i] ^= 0x80
			cands = append(cands, c)
		}
	}
	cands = append(cands, nil)
	for i, a := range cands {
		for j, b := range cands {
			r.Eval()
			want := bytes.Equal(a, b)
			var got bool
			if pan, msg := vkit.Guard(func() { got = a.Equal(b) }); pan {
				r.Violate("C10|Hash.Equal-panic", msg, []int{i, j})
				continue
			}
			r.Nontrivial(fmt.Sprintf("%x|%x", []byte(a), []byte(b)))
			r.Outcome(fmt.Sprintf("Hash.Equal:len=%d/%d:equal=%v", len(a), len(b), got))
			if got != want {
				cls := "different-bytes-reported-equal"
				if want {
					cls = "identical-bytes-reported-unequal"
				}
				kind := "other"
				if len(a) != len(b) && (bytes.HasPrefix(a, b) || bytes.HasPrefix(b, a)) {
					kind = "prefix"
				}
				r.Violate("C10|Hash.Equal|"+cls+"|"+kind, fmt.Sprintf("Hash.Equal(%x, %x) = %v", []byte(a), []byte(b), got), map[string]any{"a": fmt.Sprintf("%x", []byte(a)), "b": fmt.Sprintf("%x", []byte(b))})
			}
		}
	}
	r.Sample(map[string]any{"candidates": len(cands), "pairs": len(cands) * len(cands)})
}

// c10PosClass names the position of a witness relative to an update message with events a..b.
func c10PosClass(pos, a, b int) string {
	switch {
	case pos == a-1:
		return "just-before"
	case pos < a-1:
		return "too-old"
	case pos < b:
		return "inside"
	case pos == b:
		return "at-the-accumulator"
	default:
		return "ahead"
	}
}
