//go:build verif

// Package vsched is a controlled cooperative scheduler plus a stateless, preemption-bounded
// depth-first explorer for small concurrent harnesses running the real gabi code.
//
// Threads are real goroutines created through Go (instrumented `go` statements or the driver).
// Exactly one thread runs at a time; every instrumented synchronisation operation (channel send /
// receive / select / close, atomic, selected shared-field accesses) first yields to the
// scheduler, which decides who runs next.  Enabledness of channel operations is computed from the
// real channel state (len/cap, closed set, parked partners), so a granted operation never blocks.
// A select with several ready cases is an explorer-owned data choice.  Unbuffered rendezvous is
// supported (both partners are released; the sender parks again right after its send).
//
// When no exploration is active every hook is a no-op / pass-through, so instrumented code also
// runs free (used by the separate -race pass).
package vsched

import (
	"bytes"
	"fmt"
	"reflect"
	"runtime"
	"runtime/debug"
	"strconv"
	"strings"
	"sync"
	"sync/atomic"
	"time"
)

type opKind int

const (
	opStart opKind = iota
	opYield
	opSend
	opRecv
	opSelect
	opClose
	opSendDone
	opLock
	opWait
)

func (k opKind) String() string {
	return [...]string{"start", "yield", "send", "recv", "select", "close", "senddone", "lock", "wgwait"}[k]
}

// Case describes one communication clause of a select.
type Case struct {
	Send bool
	Ch   any
}

// R and S build select cases.
func R(ch any) Case { return Case{false, ch} }
func S(ch any) Case { return Case{true, ch} }

type op struct {
	kind       opKind
	label      string
	lock       uintptr
	cases      []Case
	hasDefault bool
}

type thread struct {
	id       int
	name     string
	wake     chan int
	op       op
	done     bool
	killed   bool
	panicked string
}

type event struct {
	t     *thread
	spawn bool
}

// PointInfo describes one choice point of an execution.
type PointInfo struct {
	N    int
	Cost []int // preemption cost of each alternative (0 or 1)
	Desc string
	Data bool // data choice (select case), not a scheduling choice
}

// Exec is the state (and afterwards the record) of one controlled execution.
type Exec struct {
	mu      sync.Mutex
	byGoid  map[int64]*thread
	threads []*thread
	events  chan event
	closed  map[uintptr]bool
	held    map[uintptr]*thread
	wgs     map[uintptr]int
	chanIDs map[uintptr]int

	prefix   []int
	expect   []string
	Choices  []int
	Points   []PointInfo
	Diverged string

	watch    *time.Timer
	Trace    []string
	Steps    int
	maxSteps int

	Horizon  bool // the step horizon cut this execution (unfair schedule)
	Deadlock bool
	Blocked  []string // threads left blocked at quiescence
	Panics   []string
	Threads  int
}

const killSignal = -99

type killedErr struct{}

var active atomic.Pointer[Exec]

// Active reports whether an exploration is in progress.
func Active() bool { return active.Load() != nil }

func goid() int64 {
	var buf [64]byte
	n := runtime.Stack(buf[:], false)
	// "goroutine 123 [running]:"
	b := buf[len("goroutine "):n]
	if i := bytes.IndexByte(b, ' '); i > 0 {
		id, _ := strconv.ParseInt(string(b[:i]), 10, 64)
		return id
	}
	return -1
}

func chanPtr(ch any) uintptr {
	v := reflect.ValueOf(ch)
	if v.Kind() != reflect.Chan {
		panic(fmt.Sprintf("vsched: not a channel: %T", ch))
	}
	return v.Pointer()
}

func (x *Exec) chanID(ch any) int {
	p := chanPtr(ch)
	if p == 0 {
		return -1
	}
	id, ok := x.chanIDs[p]
	if !ok {
		id = len(x.chanIDs)
		x.chanIDs[p] = id
	}
	return id
}

func (x *Exec) self() *thread {
	g := goid()
	x.mu.Lock()
	t := x.byGoid[g]
	x.mu.Unlock()
	return t
}

// ---- hooks called by instrumented code ------------------------------------------------------

// Go starts f as a controlled thread (or a plain goroutine when no exploration is active, or when
// called from a goroutine the scheduler does not control).
func Go(f func()) { GoNamed("", f) }

func GoNamed(name string, f func()) {
	x := active.Load()
	if x == nil || x.self() == nil {
		go f()
		return
	}
	x.events <- event{spawn: true}
	x.startThread(name, f)
}

func (x *Exec) startThread(name string, f func()) {
	x.mu.Lock()
	t := &thread{id: len(x.threads), name: name, wake: make(chan int)}
	x.threads = append(x.threads, t)
	x.mu.Unlock()
	go func() {
		g := goid()
		x.mu.Lock()
		x.byGoid[g] = t
		x.mu.Unlock()
		defer func() {
			if e := recover(); e != nil {
				if _, ok := e.(killedErr); ok {
					t.killed = true
				} else {
					t.panicked = fmt.Sprintf("%v @ %s", e, firstFrame(string(debug.Stack())))
				}
			}
			t.done = true
			x.mu.Lock()
			delete(x.byGoid, g)
			x.mu.Unlock()
			x.events <- event{t: t}
		}()
		t.op = op{kind: opStart}
		x.events <- event{t: t}
		if <-t.wake == killSignal {
			panic(killedErr{})
		}
		f()
	}()
}

func firstFrame(stack string) string {
	for _, l := range strings.Split(stack, "\n") {
		l = strings.TrimSpace(l)
		if strings.HasPrefix(l, "/") && strings.Contains(l, ".go:") && !strings.Contains(l, "internal/verif") && !strings.Contains(l, "/runtime/") {
			if i := strings.Index(l, " +0x"); i > 0 {
				l = l[:i]
			}
			return l
		}
	}
	return "?"
}

func (x *Exec) yield(o op) int {
	t := x.self()
	if t == nil {
		// an uncontrolled goroutine reached instrumented code: run free
		return -2
	}
	t.op = o
	x.events <- event{t: t}
	g := <-t.wake
	if g == killSignal {
		panic(killedErr{})
	}
	return g
}

// Point is a plain scheduling point (atomic operation, shared field access, ...).
func Point(label string) {
	if x := active.Load(); x != nil {
		x.yield(op{kind: opYield, label: label})
	}
}

// Send must be called immediately before `ch <- v`.
func Send(ch any) {
	if x := active.Load(); x != nil {
		x.yield(op{kind: opSend, cases: []Case{{true, ch}}})
	}
}

// SendDone must be called immediately after `ch <- v` (rendezvous on unbuffered channels).
func SendDone(ch any) {
	if x := active.Load(); x != nil {
		if reflect.ValueOf(ch).Cap() == 0 {
			x.yield(op{kind: opSendDone})
		}
	}
}

// Recv must be called immediately before a receive from ch.
func Recv(ch any) {
	if x := active.Load(); x != nil {
		x.yield(op{kind: opRecv, cases: []Case{{false, ch}}})
	}
}

// Close must be called immediately before close(ch).
func Close(ch any) {
	if x := active.Load(); x != nil {
		if x.yield(op{kind: opClose, cases: []Case{{false, ch}}}) != -2 {
			x.mu.Lock()
			x.closed[chanPtr(ch)] = true
			x.mu.Unlock()
		}
	}
}

// Lock must be called immediately before mu.Lock() / once.Do(...) with a pointer identifying the
// lock; the operation is enabled only while the lock is free, so the real Lock never blocks.
func Lock(mu any) {
	if x := active.Load(); x != nil {
		p := reflect.ValueOf(mu).Pointer()
		x.yield(op{kind: opLock, lock: p})
	}
}

// Unlock must be called immediately before mu.Unlock() (or after once.Do returned).
func Unlock(mu any) {
	if x := active.Load(); x != nil {
		if t := x.self(); t != nil {
			p := reflect.ValueOf(mu).Pointer()
			x.mu.Lock()
			if x.held[p] == t {
				delete(x.held, p)
			}
			x.mu.Unlock()
		}
	}
}

// WgAdd / WgDone / WgWait model a sync.WaitGroup: they must be called immediately before the real
// Add / Done / Wait.  Wait is enabled only when the modelled counter is zero, so the real Wait
// never blocks.
func WgAdd(wg any, n int) {
	if x := active.Load(); x != nil && x.self() != nil {
		p := reflect.ValueOf(wg).Pointer()
		x.mu.Lock()
		x.wgs[p] += n
		x.mu.Unlock()
	}
}

func WgDone(wg any) {
	if x := active.Load(); x != nil {
		if x.yield(op{kind: opYield, label: "wg.Done"}) != -2 {
			p := reflect.ValueOf(wg).Pointer()
			x.mu.Lock()
			x.wgs[p]--
			x.mu.Unlock()
		}
	}
}

func WgWait(wg any) {
	if x := active.Load(); x != nil {
		x.yield(op{kind: opWait, lock: reflect.ValueOf(wg).Pointer()})
	}
}

// Select decides which clause of a select runs: index of the case, -1 for default, -2 when no
// exploration is active (run the original select).
func Select(hasDefault bool, cases ...Case) int {
	x := active.Load()
	if x == nil {
		return -2
	}
	return x.yield(op{kind: opSelect, cases: cases, hasDefault: hasDefault})
}

// ---- enabledness -----------------------------------------------------------------------------

func (x *Exec) partner(self *thread, c Case) (*thread, int) {
	p := chanPtr(c.Ch)
	for _, t := range x.threads {
		if t == self || t.done {
			continue
		}
		switch t.op.kind {
		case opSend, opRecv, opSelect:
			for i, oc := range t.op.cases {
				if oc.Send != c.Send && chanPtr(oc.Ch) == p {
					return t, i
				}
			}
		}
	}
	return nil, 0
}

func (x *Exec) caseReady(self *thread, c Case) bool {
	v := reflect.ValueOf(c.Ch)
	if v.IsNil() {
		return false
	}
	p := v.Pointer()
	if c.Send {
		if x.closed[p] {
			return true // panics in the real code; let it happen
		}
		if v.Cap() > 0 {
			return v.Len() < v.Cap()
		}
		t, _ := x.partner(self, c)
		return t != nil
	}
	if v.Len() > 0 || x.closed[p] {
		return true
	}
	if v.Cap() == 0 {
		t, _ := x.partner(self, c)
		return t != nil
	}
	return false
}

func (x *Exec) readyCases(t *thread) []int {
	var out []int
	for i, c := range t.op.cases {
		if x.caseReady(t, c) {
			out = append(out, i)
		}
	}
	return out
}

func (x *Exec) enabled(t *thread) bool {
	if t.done {
		return false
	}
	switch t.op.kind {
	case opStart, opYield, opClose, opSendDone:
		return true
	case opSend, opRecv:
		return x.caseReady(t, t.op.cases[0])
	case opSelect:
		return t.op.hasDefault || len(x.readyCases(t)) > 0
	case opLock:
		return x.held[t.op.lock] == nil
	case opWait:
		return x.wgs[t.op.lock] <= 0
	}
	return false
}

func (x *Exec) describe(t *thread) string {
	s := fmt.Sprintf("T%d:%s", t.id, t.op.kind)
	if t.op.label != "" {
		s += "(" + t.op.label + ")"
	}
	if t.op.kind == opLock || t.op.kind == opWait {
		id, ok := x.chanIDs[t.op.lock]
		if !ok {
			id = len(x.chanIDs)
			x.chanIDs[t.op.lock] = id
		}
		s += fmt.Sprintf("[mu%d]", id)
	}
	for _, c := range t.op.cases {
		d := "<-"
		if c.Send {
			d = "->"
		}
		s += fmt.Sprintf("[%sch%d]", d, x.chanID(c.Ch))
	}
	return s
}

func (x *Exec) choose(n int, cost []int, desc string, data bool) int {
	i := len(x.Choices)
	c := 0
	if i < len(x.prefix) {
		c = x.prefix[i]
		if i < len(x.expect) && x.expect[i] != desc && x.Diverged == "" {
			x.Diverged = fmt.Sprintf("replay divergence at point %d: expected %q, saw %q", i, x.expect[i], desc)
		}
		if c >= n {
			if x.Diverged == "" {
				x.Diverged = fmt.Sprintf("replay divergence at point %d: choice %d of %d (%s)", i, c, n, desc)
			}
			c = 0
		}
	}
	x.Choices = append(x.Choices, c)
	x.Points = append(x.Points, PointInfo{N: n, Cost: cost, Desc: desc, Data: data})
	return c
}

// StallTimeout bounds how long the scheduler waits for a released thread to reach its next
// scheduling point; a thread that blocks in an operation the scheduler does not see would
// otherwise hang the exploration.  Hitting it is a harness error, never a verdict.
var StallTimeout = 60 * time.Second

func (x *Exec) waitParked(outstanding int) {
	for outstanding > 0 {
		// fast path without touching the timer
		select {
		case ev := <-x.events:
			if ev.spawn {
				outstanding++
			} else {
				outstanding--
			}
			continue
		default:
		}
		if x.watch == nil {
			x.watch = time.NewTimer(StallTimeout)
		} else {
			x.watch.Reset(StallTimeout)
		}
		select {
		case ev := <-x.events:
			x.watch.Stop()
			if ev.spawn {
				outstanding++
			} else {
				outstanding--
			}
		case <-x.watch.C:
			buf := make([]byte, 1<<16)
			n := runtime.Stack(buf, true)
			panic(fmt.Sprintf("vsched: HARNESS-STALL: a released thread did not reach a scheduling point within %v (blocked in an uninstrumented operation?)\ntrace so far: %v\n%s", StallTimeout, x.Trace, buf[:n]))
		}
	}
}

func (x *Exec) unbufferedOpen(c Case) bool {
	v := reflect.ValueOf(c.Ch)
	return !v.IsNil() && v.Cap() == 0 && !x.closed[v.Pointer()]
}

// run executes body as thread 0 under the scheduler, following the choice prefix.
func run(prefix []int, expect []string, maxSteps int, body func()) *Exec {
	x := &Exec{events: make(chan event, 256), closed: map[uintptr]bool{}, held: map[uintptr]*thread{}, wgs: map[uintptr]int{}, chanIDs: map[uintptr]int{}, byGoid: map[int64]*thread{},
		prefix: prefix, expect: expect, maxSteps: maxSteps}
	if !active.CompareAndSwap(nil, x) {
		panic("vsched: nested exploration")
	}
	defer active.Store(nil)
	x.startThread("main", body)
	x.waitParked(1)
	var last *thread
	for {
		var en []*thread
		for _, t := range x.threads {
			if x.enabled(t) {
				en = append(en, t)
			}
		}
		if len(en) == 0 {
			break
		}
		if x.Steps >= x.maxSteps {
			// explicit horizon: an unfair schedule can starve a thread forever (stateless search has
			// no fairness); the execution is cut, reported as such and not judged as a deadlock
			x.Horizon = true
			break
		}
		ordered := make([]*thread, 0, len(en))
		lastEnabled := false
		for _, t := range en {
			if t == last {
				lastEnabled = true
			}
		}
		if lastEnabled {
			ordered = append(ordered, last)
		}
		for _, t := range en {
			if t != last {
				ordered = append(ordered, t)
			}
		}
		cost := make([]int, len(ordered))
		if lastEnabled {
			for i := 1; i < len(cost); i++ {
				cost[i] = 1
			}
		}
		descs := make([]string, len(ordered))
		for i, t := range ordered {
			descs[i] = x.describe(t)
		}
		t := ordered[x.choose(len(ordered), cost, strings.Join(descs, " | "), false)]
		grant := 0
		var chosen *Case
		switch t.op.kind {
		case opSelect:
			rc := x.readyCases(t)
			switch {
			case len(rc) == 0:
				grant = -1
			case len(rc) == 1:
				grant = rc[0]
			default:
				grant = rc[x.choose(len(rc), make([]int, len(rc)), fmt.Sprintf("T%d select among ready cases %v", t.id, rc), true)]
			}
			if grant >= 0 {
				chosen = &t.op.cases[grant]
			}
		case opSend, opRecv:
			chosen = &t.op.cases[0]
		case opLock:
			x.held[t.op.lock] = t
		}
		x.Trace = append(x.Trace, x.describe(t))
		x.Steps++
		last = t
		released := 1
		if chosen != nil && x.unbufferedOpen(*chosen) {
			if p, pi := x.partner(t, *chosen); p != nil {
				// rendezvous: release the partner committed to the complementary case as well;
				// the receiver is regarded as the thread that keeps running
				x.Trace = append(x.Trace, "  +rendezvous "+x.describe(p))
				if chosen.Send {
					last = p
				}
				p.op = op{kind: opYield}
				p.wake <- pi
				released++
			}
		}
		t.op = op{kind: opYield}
		t.wake <- grant
		x.waitParked(released)
	}
	x.Threads = len(x.threads)
	for _, t := range x.threads {
		if t.panicked != "" {
			x.Panics = append(x.Panics, fmt.Sprintf("T%d: %s", t.id, t.panicked))
		}
		if !t.done {
			x.Blocked = append(x.Blocked, x.describe(t))
		}
	}
	if len(x.Blocked) > 0 {
		x.Deadlock = !x.Horizon
		// unwind the blocked goroutines so that they do not accumulate across executions
		n := 0
		for _, t := range x.threads {
			if !t.done {
				t.wake <- killSignal
				n++
			}
		}
		x.waitParked(n)
	}
	return x
}

// ---- explorer --------------------------------------------------------------------------------

// Scenario is one fresh instance of a harness: Body runs as thread 0 and may spawn threads with
// Go; Check is evaluated after the execution finished (all threads done or blocked).
type Scenario struct {
	Body  func()
	Check func(x *Exec)
}

type Options struct {
	MaxPreemptions int
	MaxSteps       int
	MaxExecutions  int
	Deadline       time.Time
	// Shard/Shards split the exploration between processes: sub-trees rooted at executions with
	// two deviations from the default schedule are dealt round-robin.
	Shard, Shards int
}

type Result struct {
	Executions int
	Points     int64
	DataPoints int64
	MaxDepth   int
	Complete   bool
	Horizons   int // executions cut by the step horizon
	Cap        string
	Diverged   string
	MaxThreads int
}

type frame struct {
	prefix []int
	expect []string
}

// Explore enumerates every execution of the scenario with at most opt.MaxPreemptions preemptions
// (data choices are free), depth first, calling fresh() for each execution.
func Explore(opt Options, fresh func() Scenario) Result {
	if opt.MaxSteps == 0 {
		opt.MaxSteps = 5000
	}
	res := Result{Complete: true}
	stack := []frame{{}}
	const dealDepth = 2
	dealIdx := 0
	for len(stack) > 0 {
		f := stack[len(stack)-1]
		stack = stack[:len(stack)-1]
		if opt.MaxExecutions > 0 && res.Executions >= opt.MaxExecutions {
			res.Complete, res.Cap = false, fmt.Sprintf("execution cap %d", opt.MaxExecutions)
			break
		}
		if !opt.Deadline.IsZero() && time.Now().After(opt.Deadline) {
			res.Complete, res.Cap = false, "deadline"
			break
		}
		sc := fresh()
		x := run(f.prefix, f.expect, opt.MaxSteps, sc.Body)
		// sharding: frames with fewer than dealDepth deviations are run by every shard (judged and
		// counted by shard 0 only); frames with exactly dealDepth deviations are dealt round-robin in
		// DFS creation order (identical in all shards because the shared part is deterministic);
		// deeper frames belong to the shard owning their ancestor
		dev := 0
		for _, c := range f.prefix {
			if c != 0 {
				dev++
			}
		}
		shared := opt.Shards > 1 && dev < dealDepth
		if shared && opt.Shard != 0 {
			sc.Check = nil
		} else {
			res.Executions++
		}
		if x.Threads > res.MaxThreads {
			res.MaxThreads = x.Threads
		}
		if len(x.Points) > res.MaxDepth {
			res.MaxDepth = len(x.Points)
		}
		for _, p := range x.Points {
			if p.Data {
				res.DataPoints++
			} else {
				res.Points++
			}
		}
		if x.Horizon {
			res.Horizons++
		}
		if x.Diverged != "" {
			res.Diverged = x.Diverged
			res.Complete = false
			break
		}
		if sc.Check != nil {
			sc.Check(x)
		}
		// children: alternatives at every point at or after the end of the prefix
		pre := 0
		for i := 0; i < len(x.Points); i++ {
			p := x.Points[i]
			if i >= len(f.prefix) {
				for alt := p.N - 1; alt >= 1; alt-- {
					if pre+p.Cost[alt] > opt.MaxPreemptions {
						continue
					}
					np := append(append([]int{}, x.Choices[:i]...), alt)
					ne := make([]string, i+1)
					for j := 0; j <= i; j++ {
						ne[j] = x.Points[j].Desc
					}
					if shared && dev+1 == dealDepth {
						mine := dealIdx%opt.Shards == opt.Shard
						dealIdx++
						if !mine {
							continue
						}
					}
					stack = append(stack, frame{np, ne})
				}
			}
			pre += p.Cost[x.Choices[i]]
		}
	}
	return res
}

// Replay runs one recorded choice sequence again.
func Replay(choices []int, maxSteps int, sc Scenario) *Exec {
	if maxSteps == 0 {
		maxSteps = 5000
	}
	x := run(choices, nil, maxSteps, sc.Body)
	if sc.Check != nil {
		sc.Check(x)
	}
	return x
}
