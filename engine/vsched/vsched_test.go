//go:build verif

package vsched

// Engine self-tests: seeded concurrency bugs must be found at the expected preemption bound,
// deterministically, and replay identically.

import (
	"fmt"
	"reflect"
	"sort"
	"testing"
)

func outcomes(t *testing.T, bound int, fresh func(rec func(string)) Scenario) (map[string]int, Result) {
	out := map[string]int{}
	res := Explore(Options{MaxPreemptions: bound}, func() Scenario {
		return fresh(func(o string) { out[o]++ })
	})
	if res.Diverged != "" {
		t.Fatalf("diverged: %s", res.Diverged)
	}
	return out, res
}

func keys(m map[string]int) []string {
	var ks []string
	for k := range m {
		ks = append(ks, k)
	}
	sort.Strings(ks)
	return ks
}

func TestVerifEngineLostUpdate(t *testing.T) {
	sc := func(rec func(string)) Scenario {
		x := 0
		done := make(chan struct{}, 2)
		inc := func() {
			Point("read")
			v := x
			Point("write")
			x = v + 1
			Send(done)
			done <- struct{}{}
			SendDone(done)
		}
		return Scenario{Body: func() {
			Go(inc)
			Go(inc)
			Recv(done)
			<-done
			Recv(done)
			<-done
		}, Check: func(e *Exec) {
			if e.Deadlock {
				rec("deadlock")
				return
			}
			rec(fmt.Sprint(x))
		}}
	}
	o0, r0 := outcomes(t, 0, sc)
	if !reflect.DeepEqual(keys(o0), []string{"2"}) {
		t.Errorf("bound 0: outcomes %v, want only 2", o0)
	}
	o1, r1 := outcomes(t, 1, sc)
	if !reflect.DeepEqual(keys(o1), []string{"1", "2"}) {
		t.Errorf("bound 1: outcomes %v, want 1 and 2 (lost update)", o1)
	}
	o2, r2 := outcomes(t, 2, sc)
	t.Logf("executions: bound0=%d bound1=%d bound2=%d outcomes2=%v", r0.Executions, r1.Executions, r2.Executions, o2)
	if r1.Executions <= r0.Executions || r2.Executions <= r1.Executions {
		t.Errorf("execution counts not increasing with the bound")
	}
}

func TestVerifEngineLeakedSender(t *testing.T) {
	leaks := 0
	res := Explore(Options{MaxPreemptions: 2}, func() Scenario {
		ch := make(chan int, 1)
		return Scenario{Body: func() {
			Go(func() {
				for i := 0; i < 3; i++ {
					Send(ch)
					ch <- i
					SendDone(ch)
				}
			})
			Recv(ch)
			<-ch
		}, Check: func(e *Exec) {
			if e.Deadlock && len(e.Blocked) == 1 {
				leaks++
			}
		}}
	})
	if leaks != res.Executions || res.Executions == 0 {
		t.Errorf("leak found in %d of %d executions, want all", leaks, res.Executions)
	}
}

func TestVerifEngineSelectChoice(t *testing.T) {
	o, _ := outcomes(t, 0, func(rec func(string)) Scenario {
		a, b := make(chan int, 1), make(chan int, 1)
		return Scenario{Body: func() {
			a <- 1
			b <- 2
			switch Select(false, R(a), R(b)) {
			case 0:
				select {
				case v := <-a:
					rec(fmt.Sprint("a", v))
				}
			case 1:
				select {
				case v := <-b:
					rec(fmt.Sprint("b", v))
				}
			}
		}}
	})
	if !reflect.DeepEqual(keys(o), []string{"a1", "b2"}) {
		t.Errorf("select outcomes %v", o)
	}
}

func TestVerifEngineRendezvousAndReplay(t *testing.T) {
	var traces [][]string
	mk := func() Scenario {
		ch := make(chan int)
		stop := make(chan struct{})
		got := -1
		return Scenario{Body: func() {
			Go(func() {
				switch Select(false, R(ch), R(stop)) {
				case 0:
					select {
					case v := <-ch:
						got = v
					}
				case 1:
					select {
					case <-stop:
					}
				}
			})
			Send(ch)
			ch <- 7
			SendDone(ch)
			Close(stop)
			close(stop)
		}, Check: func(e *Exec) {
			if e.Deadlock || got != 7 {
				traces = append(traces, []string{"BAD", fmt.Sprint(e.Deadlock, got, e.Blocked)})
			}
		}}
	}
	res := Explore(Options{MaxPreemptions: 2}, mk)
	if len(traces) != 0 {
		t.Errorf("rendezvous failed: %v", traces)
	}
	t.Logf("rendezvous executions=%d", res.Executions)
	x1 := Replay([]int{0, 0, 0}, 0, mk())
	x2 := Replay([]int{0, 0, 0}, 0, mk())
	if !reflect.DeepEqual(x1.Trace, x2.Trace) {
		t.Errorf("replay not deterministic:\n%v\n%v", x1.Trace, x2.Trace)
	}
}

func TestVerifEngineCheckThenAct(t *testing.T) {
	// lazy init without synchronisation: two initialisers may both see nil
	o, _ := outcomes(t, 1, func(rec func(string)) Scenario {
		var p *int
		inits := 0
		f := func() {
			Point("check")
			if p == nil {
				Point("act")
				v := 1
				p = &v
				inits++
			}
		}
		done := make(chan struct{}, 2)
		return Scenario{Body: func() {
			for i := 0; i < 2; i++ {
				Go(func() { f(); Send(done); done <- struct{}{}; SendDone(done) })
			}
			Recv(done)
			<-done
			Recv(done)
			<-done
		}, Check: func(e *Exec) { rec(fmt.Sprint(inits)) }}
	})
	if !reflect.DeepEqual(keys(o), []string{"1", "2"}) {
		t.Errorf("check-then-act outcomes %v, want 1 and 2", o)
	}
}
