//go:build verif

// Package vkit is the reporting / sharding / enumeration kit shared by all verification
// harnesses.  It is mounted into the gabi module by a build overlay
// (github.com/privacybydesign/gabi/internal/verif/vkit) and never committed to /repo.
package vkit

import (
	"crypto/sha256"
	"encoding/binary"
	"encoding/json"
	"fmt"
	"os"
	"path/filepath"
	"runtime"
	"runtime/debug"
	"sort"
	"strconv"
	"strings"
	"sync"
	"testing"
	"time"
)

// Violation is one oracle failure.  Sig is a stable signature (oracle clause | call site |
// input class) used to match known findings; Detail is human readable; Replay carries the
// concrete case so that it can be re-run.
type Violation struct {
	Sig    string `json:"sig"`
	Detail string `json:"detail"`
	Replay any    `json:"replay,omitempty"`
	Count  int    `json:"count"`
}

// Report is what one shard of one sub-check writes.
type Report struct {
	Property string `json:"property"`
	Sub      string `json:"sub"`
	Tier     string `json:"tier"`
	Seed     int64  `json:"seed"`
	Shard    int    `json:"shard"`
	Shards   int    `json:"shards"`

	Evaluations int64            `json:"evaluations"`
	Distinct    map[string]bool  `json:"-"`
	DistinctN   int              `json:"distinct_nontrivial"`
	DistinctH   []string         `json:"distinct_hashes,omitempty"`
	Rule        string           `json:"rule"`
	Samples     []any            `json:"samples"`
	States      int64            `json:"states"`
	Transitions int64            `json:"transitions"`
	Traces      int64            `json:"traces_validated_against_impl"`
	Schedules   int64            `json:"schedules"`
	Outcomes    map[string]int64 `json:"outcomes,omitempty"`
	Bounds      map[string]any   `json:"bounds,omitempty"`
	Exhaustive  bool             `json:"exhaustive"`
	Caps        []string         `json:"caps,omitempty"`
	Notes       []string         `json:"notes,omitempty"`
	Assumptions []string         `json:"assumptions,omitempty"`
	Violations  []*Violation     `json:"violations"`
	WallS       float64          `json:"wall_s"`
	Counters    map[string]int64 `json:"counters,omitempty"`
	HarnessErr  string           `json:"harness_error,omitempty"`

	mu       sync.Mutex
	t        *testing.T
	start    time.Time
	deadline time.Time
	vioIdx   map[string]*Violation
	caseIdx  int
	// CasesEnumerated is the final running case number: every shard of a sub-check must report the same
	// value (the runner checks it), else the case numbering is process-dependent.
	CasesEnumerated int `json:"cases_enumerated"`
}

// Tier returns the requested tier ("quick" unless VERIF_TIER=thorough).
func Tier() string {
	if os.Getenv("VERIF_TIER") == "thorough" {
		return "thorough"
	}
	return "quick"
}

// Thorough reports whether the thorough tier was requested.
func Thorough() bool { return Tier() == "thorough" }

// Pick returns q in the quick tier and th in the thorough tier.
func Pick[T any](q, th T) T {
	if Thorough() {
		return th
	}
	return q
}

// PropertyOr returns the property the runner is checking (VERIF_PROPERTY), or def when run by hand: for
// sub-checks that are part of several properties' checks.
func PropertyOr(def string) string {
	if p := os.Getenv("VERIF_PROPERTY"); p != "" {
		return p
	}
	return def
}

// Seed returns VERIF_SEED (default 1).
func Seed() int64 {
	if s := os.Getenv("VERIF_SEED"); s != "" {
		if v, err := strconv.ParseInt(s, 10, 64); err == nil {
			return v
		}
	}
	return 1
}

func envInt(name string, def int) int {
	if s := os.Getenv(name); s != "" {
		if v, err := strconv.Atoi(s); err == nil {
			return v
		}
	}
	return def
}

// Start begins a sub-check report.  budget is the internal deadline for this sub-check
// (quick, thorough); when it expires enumeration loops are expected to stop via Expired()
// and the report says exhaustive:false.
func Start(t *testing.T, property, sub string, quickBudget, thoroughBudget time.Duration) *Report {
	r := &Report{
		Property: property, Sub: sub, Tier: Tier(), Seed: Seed(),
		Shard: envInt("VERIF_SHARD", 0), Shards: envInt("VERIF_SHARDS", 1),
		Distinct: map[string]bool{}, Outcomes: map[string]int64{}, Bounds: map[string]any{},
		Counters: map[string]int64{}, Exhaustive: true,
		t: t, start: time.Now(), vioIdx: map[string]*Violation{},
	}
	b := quickBudget
	if Thorough() {
		b = thoroughBudget
	}
	if s := os.Getenv("VERIF_BUDGET_S"); s != "" {
		if v, err := strconv.Atoi(s); err == nil {
			b = time.Duration(v) * time.Second
		}
	}
	r.deadline = r.start.Add(b)
	r.Bounds["budget_s"] = b.Seconds()
	return r
}

// Mine reports whether case index i belongs to this shard.
func (r *Report) Mine(i int) bool {
	if r.Shards <= 1 {
		return true
	}
	return i%r.Shards == r.Shard
}

// MineKey assigns a case to a shard by a stable hash of its description instead of its running number:
// for enumerations whose length differs from process to process (e.g. one case per byte of a
// randomised signature), so that every description is handled by exactly one shard.
func (r *Report) MineKey(key string) bool {
	if r.Shards <= 1 {
		return true
	}
	h := sha256.Sum256([]byte(key))
	return int(binary.BigEndian.Uint32(h[:4])%uint32(r.Shards)) == r.Shard
}

// Next returns a fresh case index and whether it belongs to this shard.
func (r *Report) Next() (int, bool) {
	r.mu.Lock()
	i := r.caseIdx
	r.caseIdx++
	r.mu.Unlock()
	return i, r.Mine(i)
}

// Expired reports whether the internal deadline passed; the first time it does the report is
// marked non-exhaustive with the cap recorded.
func (r *Report) Expired() bool {
	if time.Now().Before(r.deadline) {
		return false
	}
	r.mu.Lock()
	if r.Exhaustive {
		r.Exhaustive = false
		r.Caps = append(r.Caps, fmt.Sprintf("internal deadline %.0fs reached after %d evaluations", r.deadline.Sub(r.start).Seconds(), r.Evaluations))
	}
	r.mu.Unlock()
	return true
}

// Cap records that some cap was hit (so the run is not exhaustive).
func (r *Report) Cap(msg string) {
	r.mu.Lock()
	r.Exhaustive = false
	r.Caps = append(r.Caps, msg)
	r.mu.Unlock()
}

// Eval counts one evaluated case.
func (r *Report) Eval() { r.mu.Lock(); r.Evaluations++; r.mu.Unlock() }

// EvalN counts n evaluated cases.
func (r *Report) EvalN(n int64) { r.mu.Lock(); r.Evaluations += n; r.mu.Unlock() }

// Nontrivial records a case that was non-trivial by the sub-check's rule; key is the canonical
// form of the case (distinct keys are counted).
func (r *Report) Nontrivial(key string) {
	h := sha256.Sum256([]byte(key))
	k := string(h[:10])
	r.mu.Lock()
	r.Distinct[k] = true
	r.mu.Unlock()
}

// Sample keeps up to 6 written-out cases.
func (r *Report) Sample(v any) {
	r.mu.Lock()
	if len(r.Samples) < 6 {
		r.Samples = append(r.Samples, v)
	}
	r.mu.Unlock()
}

// Outcome counts a distinct observed outcome class.
func (r *Report) Outcome(o string) { r.mu.Lock(); r.Outcomes[o]++; r.mu.Unlock() }

// OutcomeN counts n observations of an outcome class (for hot loops that tally locally).
func (r *Report) OutcomeN(o string, n int64) { r.mu.Lock(); r.Outcomes[o] += n; r.mu.Unlock() }

// Tally is a local outcome counter for hot loops; Flush adds it to the report.
type Tally map[string]int64

func (t Tally) Flush(r *Report) {
	for k, v := range t {
		r.OutcomeN(k, v)
	}
}

// Count bumps a named counter.
func (r *Report) Count(name string, n int64) { r.mu.Lock(); r.Counters[name] += n; r.mu.Unlock() }

// Note appends a free text note.
func (r *Report) Note(format string, a ...any) {
	r.mu.Lock()
	r.Notes = append(r.Notes, fmt.Sprintf(format, a...))
	r.mu.Unlock()
}

// Assume records an assumption / trusted-base statement.
func (r *Report) Assume(s string) {
	r.mu.Lock()
	r.Assumptions = append(r.Assumptions, s)
	r.mu.Unlock()
}

// Violate records an oracle failure.  At most one full record is kept per signature.
func (r *Report) Violate(sig, detail string, replay any) {
	r.mu.Lock()
	defer r.mu.Unlock()
	if v, ok := r.vioIdx[sig]; ok {
		v.Count++
		return
	}
	v := &Violation{Sig: sig, Detail: detail, Replay: replay, Count: 1}
	r.vioIdx[sig] = v
	r.Violations = append(r.Violations, v)
	if r.t != nil {
		r.t.Logf("VIOLATION-CANDIDATE %s sig=%s: %s", r.Property, sig, detail)
	}
	r.writePartialLocked()
}

// writePartialLocked saves what is known so far (called with r.mu held, at the first occurrence of
// every violation signature): if the code under test later takes the whole process down - a panic in
// a goroutine of its own cannot be recovered by the harness - the violations found before that are
// still reported.  Finish overwrites the file with the complete report.
func (r *Report) writePartialLocked() {
	out := os.Getenv("VERIF_OUT")
	if out == "" {
		return
	}
	cp := *r
	cp.Exhaustive = false
	cp.Caps = append(append([]string{}, r.Caps...), "partial report (written when a violation was recorded; the process ended before the sub-check finished)")
	cp.WallS = time.Since(r.start).Seconds()
	cp.CasesEnumerated = r.caseIdx
	cp.DistinctN = len(r.Distinct)
	if cp.Samples == nil {
		cp.Samples = []any{}
	}
	if b, err := json.Marshal(&cp); err == nil {
		_ = os.WriteFile(filepath.Join(out, fmt.Sprintf("%s.%s.%d.json", r.Property, r.Sub, r.Shard)), b, 0o644)
	}
}

// HarnessError records a harness problem (never a property violation).
func (r *Report) HarnessError(format string, a ...any) {
	r.mu.Lock()
	r.HarnessErr = fmt.Sprintf(format, a...)
	r.mu.Unlock()
	if r.t != nil {
		r.t.Logf("HARNESS-ERROR: %s", r.HarnessErr)
	}
}

// Watch declares that no single evaluation of this sub-check takes anywhere near limit: when the
// evaluation counter does not advance for limit, the code under test is judged not to terminate.
// The violation (signature <property>|non-termination|<sub>|<file of the innermost repository
// frame>) is recorded, the report is written and the process exits, since a goroutine that spins
// cannot be stopped.  what() describes the case in progress.  The returned function ends the watch.
func (r *Report) Watch(limit time.Duration, what func() string) (stop func()) {
	done := make(chan struct{})
	go func() {
		tick := time.NewTicker(2 * time.Second)
		defer tick.Stop()
		last, since := int64(-1), time.Now()
		for {
			select {
			case <-done:
				return
			case <-tick.C:
			}
			r.mu.Lock()
			ev := r.Evaluations
			r.mu.Unlock()
			if ev != last {
				last, since = ev, time.Now()
				continue
			}
			if time.Since(since) < limit {
				continue
			}
			buf := make([]byte, 1<<20)
			buf = buf[:runtime.Stack(buf, true)]
			frame := firstRepoFrame(string(buf))
			file := frame
			if i := strings.LastIndex(file, ":"); i > 0 {
				file = file[:i]
			}
			desc := ""
			if what != nil {
				desc = what()
			}
			r.Violate(fmt.Sprintf("%s|non-termination|%s|%s", r.Property, r.Sub, file), fmt.Sprintf("no evaluation completed for %.0fs (each takes far less): %s; spinning at %s", limit.Seconds(), desc, frame), desc)
			r.Cap("aborted: the code under test did not return")
			r.Finish()
			os.Exit(0)
		}
	}()
	return func() { close(done) }
}

// Guard runs f and converts a panic into (panicked=true, message).
func Guard(f func()) (panicked bool, msg string) {
	defer func() {
		if e := recover(); e != nil {
			panicked = true
			st := string(debug.Stack())
			msg = fmt.Sprintf("%v @ %s", e, firstRepoFrame(st))
		}
	}()
	f()
	return
}

func firstRepoFrame(stack string) string {
	lines := strings.Split(stack, "\n")
	for _, l := range lines {
		l = strings.TrimSpace(l)
		if pre := os.Getenv("VERIF_REPO"); pre != "" && pre != "/repo" && strings.HasPrefix(l, pre+"/") {
			l = "/repo/" + l[len(pre)+1:] // checks run against a scratch worktree report the same frames
		}
		if strings.HasPrefix(l, "/repo/") && !strings.Contains(l, "zz_verif") && !strings.Contains(l, "internal/verif") {
			if i := strings.Index(l, " +0x"); i > 0 {
				l = l[:i]
			}
			return l
		}
	}
	return "?"
}

// Finish writes the report to $VERIF_OUT (a directory); without VERIF_OUT it fails the test on
// violations so that the harness is also usable as a plain `go test`.
func (r *Report) Finish() {
	r.mu.Lock()
	r.WallS = time.Since(r.start).Seconds()
	r.CasesEnumerated = r.caseIdx
	r.DistinctN = len(r.Distinct)
	hs := make([]string, 0, len(r.Distinct))
	for k := range r.Distinct {
		hs = append(hs, fmt.Sprintf("%x", k))
	}
	sort.Strings(hs)
	r.DistinctH = hs
	if r.Violations == nil {
		r.Violations = []*Violation{}
	}
	if r.Samples == nil {
		r.Samples = []any{}
	}
	r.mu.Unlock()
	out := os.Getenv("VERIF_OUT")
	if out == "" {
		if len(r.Violations) > 0 || r.HarnessErr != "" {
			b, _ := json.MarshalIndent(r.Violations, "", " ")
			r.t.Errorf("%s/%s: %d violation signature(s), harness error %q:\n%s", r.Property, r.Sub, len(r.Violations), r.HarnessErr, b)
		}
		r.t.Logf("%s/%s: evals=%d distinct=%d states=%d transitions=%d schedules=%d exhaustive=%v wall=%.1fs caps=%v",
			r.Property, r.Sub, r.Evaluations, r.DistinctN, r.States, r.Transitions, r.Schedules, r.Exhaustive, r.WallS, r.Caps)
		return
	}
	name := fmt.Sprintf("%s.%s.%d.json", r.Property, r.Sub, r.Shard)
	b, err := json.Marshal(r)
	if err != nil {
		r.t.Fatalf("cannot marshal report: %v", err)
	}
	if err := os.WriteFile(filepath.Join(out, name), b, 0o644); err != nil {
		r.t.Fatalf("cannot write report: %v", err)
	}
}

// JSON renders v compactly for samples / replay records.
func JSON(v any) string {
	b, err := json.Marshal(v)
	if err != nil {
		return fmt.Sprintf("%v", v)
	}
	return string(b)
}
